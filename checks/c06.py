"""C06 — Replay shows all tasks in time order with correct nesting and durations.
Lean: Uft/Model/Merge.lean, Uft/Model/Replay.lean, Uft/Props/C06.lean.
Tie: correspondence (H3): data directories synthesized with lib/datadir.py (1-6 tasks, threads and
forked children, forced timestamp ties, open calls at the end, and the replay-time fix-ups: calls of
functions named after every entry of fstack.c's fixup_syms[] -- exec*, setjmp family, longjmp family,
fork family -- with streams whose depth legitimately jumps, next to look-alike names that must not be
fix-ups) are replayed by the snapshot's `uftrace replay` in five modes (default, --no-merge,
-f <all time fields>, --tid, --column-view); the printed graph is parsed back into canonical lines and
compared with the model's lines (`replayX`, by symbol name), and monitors evaluate the property itself on
the implementation's output.  Option-form layer: every mode is also run with the same selection written in
the other syntactic forms the command line accepts (repeated --tid, `;`/`,` lists, --opt=value, -fX,
permuted lists, `+` field lists, option order); the output must be byte-identical to the canonical form's.

Findings handled by shape (never an alarm on the unchanged tree):
  C11-LONGJMP-DEPTH (open): a longjmp whose jmp_buf is not the one armed last (one global setjmp_depth).
  C06-FORK-LATEST: a forked child whose parent has replayed a later fork() at another depth before the
      child's first record.  Model flag `Fixes.forkLatest`; the tree is classified by which model variant it
      matches; open entry -> KNOWN-FINDING, fixed entry -> VIOLATION, no entry -> PENDING-FINDING (exit 0).
  C06-TID-ORPHAN (model flag `Fixes.orphan`): --tid <forked child only>; judged presentation, the --tid
      monitor compares indentation only for parent-closed selections."""
import hashlib
import json
import os
import re
import shutil
from concurrent.futures import ThreadPoolExecutor

from lib import common as C
from lib import datadir as D

import random

FIELDS = "time,delta,elapsed,tid,duration,addr"
# what the property needs replay to do with a function, by its name (the specification side: written down
# independently of the model's strncmp/strstr cascade; the model's table and /repo's fixup_syms[] are compared
# with it on every run)
FIXCLASS = {
    "exec": ["execl", "execlp", "execle", "execv", "execve", "execvp", "execvpe"],
    "setjmp": ["setjmp", "_setjmp", "sigsetjmp", "__sigsetjmp"],
    "longjmp": ["longjmp", "siglongjmp", "__longjmp_chk", "_longjmp"],
    "fork": ["fork", "vfork", "daemon", "posix.fork"],
}
FIXNAMES = [n for k in ("exec", "setjmp", "longjmp", "fork") for n in FIXCLASS[k]]
FORKLIKE = tuple(FIXCLASS["fork"])
# names that contain or resemble a fix-up name but are not in fixup_syms[]: ordinary functions
LOOKALIKE = ["my_longjmp_helper", "setjmp_wrapper", "do_fork", "forkpty", "exec", "execute", "daemonize",
             "longjmp_", "longjmp_chk", "posix_fork", "vforked", "xsetjmp", "fexecve"]
PLAIN = ["main", "alpha", "beta", "gamma", "delta", "eps", "zeta", "eta"]
NAMES = PLAIN + LOOKALIKE + FIXNAMES
T0 = 2000           # every record is later than the TASK/FORK lines of task.txt
VARIANTS = [a + b + c for c in "01" for b in "01" for a in "01"]     # model flags: <forkLatest><orphan><execFail>; first = no repair
FINDINGS = {
    "C06-FORK-LATEST": {
        "what": "a forked child whose parent has replayed a later fork()/vfork()/daemon() at another depth before the child's "
                "first record inherits the depth of that LATEST fork (fstack_account_time copies parent->fork_display_depth): "
                "all its lines are indented by the difference, contradicting 'a forked child continues at its parent's depth'",
        "witness": "c06_prefix_fork_latest_witness", "fix": "proposed_fixes/C06-FORK-LATEST.diff",
        "repro": "main{ a{ fork() } fork() } with the first child's first record later than the parent's second fork() entry "
                 "(6 of 6 real recordings of such a program): the first child's lines are one level too shallow",
        "flag": 0, "flagname": "forkLatest",
    },
    "C06-EXEC-FAILED": {
        "what": "an exec*() call that fails and returns: fstack_update() has already reset display_depth and stack_count to 0 at "
                "the exec entry, so the `}` of exec and every later line of the task are printed at depth 0.. instead of their "
                "nesting depth, and the exits pair with the wrong stack slots (durations of other calls, the `}` of exec shows a "
                "start timestamp as duration, e.g. '5.005  h')",
        "witness": "c06_prefix_exec_failed_witness", "fix": "proposed_fixes/C06-EXEC-FAILED.diff",
        "repro": "main{ try_run{ execv(\"/nonexistent\") = -1; leaf() } report() }: gcc -pg, uftrace record, uftrace replay",
        "flag": 2, "flagname": "execFail",
    },
}


# ---------------------------------------------------------------- formatting as print_time_unit()
def fmt_unit(ns):
    """utils/debug.c __print_time_unit(): '%3d.%03d %2s', blank for 0."""
    if ns == 0:
        return ""
    units = ["us", "ms", " s", " m", " h"]
    limit = [1000, 1000, 1000, 60, 60, 1 << 31]
    delta, small = ns, 0
    idx = 0
    for idx in range(len(units)):
        small = delta % limit[idx]
        delta = delta // limit[idx]
        if delta < limit[idx + 1]:
            break
    if delta > 999:
        delta = small = 999
    return "%3d.%03d %s" % (delta, small, units[idx])


# ---------------------------------------------------------------- case generator
class TaskDesc:
    def __init__(self, tid, kind, parent=None):
        self.tid, self.kind, self.parent = tid, kind, parent     # kind: 'main' | 'thread' | 'child'
        self.recs = []          # (typ, time, depthfield, addr)
        self.true_depth = []    # nesting depth of each record in the process stack, None if ill-formed
        self.match = []         # for X: index of its E in recs (or None = inherited frame / second return of setjmp)
        self.wellformed = True
        self.open = []          # addresses of calls open at the end, outermost first (own ENTRYs only)
        self.inherited = 0      # frames inherited at start
        self.fork_time = None
        self.proper_fork = None
        self.second_return = []  # indices of the EXIT records that are the second return of a setjmp
        self.sj = []            # (record index of the setjmp ENTRY, serial)
        self.lj = []            # (record index of the longjmp ENTRY, serial of the targeted setjmp)
        self.execs = []         # record indices of exec ENTRYs
        self.lj_unsafe_from = None   # first record index after a longjmp whose jmp_buf is not the one armed last
        self.open_frames = 0
        self.exec_failed = False
        self.exec_failed_from = None   # index of the EXIT of the first exec*() that returned


class Jumps:
    """which non-local control flow a task's walk may contain"""
    def __init__(self, sj, lj, ex, p_sj=0.0, p_lj=0.0, p_ex=0.0, p_old=0.0, p_fail=0.0):
        self.sj, self.lj, self.ex = sj, lj, ex        # candidate addresses per class
        self.p_sj, self.p_lj, self.p_ex, self.p_old, self.p_fail = p_sj, p_lj, p_ex, p_old, p_fail


def walk(rng, td, start_frames, first_exit_addr, t, step, nrec, maxdepth, addrs, fork_addrs, p_fork, jitter, extra_exit,
         p_entry=0.55, jumps=None):
    """random ENTRY/EXIT walk; `start_frames` inherited open frames (a forked child).  With `jumps`: setjmp() leaf
    calls arm a jump point, longjmp() ENTRYs are followed by the second return of that setjmp at its depth (all frames
    above are abandoned), exec*() ENTRYs are followed by a fresh depth-0 stack (the new program image)."""
    uid = [0]

    def fresh(rec_index):
        uid[0] += 1
        return (uid[0], rec_index)
    stack = [fresh(None) for _ in range(start_frames)]      # frames: (uid, index into td.recs or None)
    live = []            # armed jump points: dict(d, caller, sym, serial)
    serial = 0
    td.inherited = start_frames
    if start_frames and first_exit_addr is not None:
        stack.pop()
        td.recs.append(("X", t, len(stack), first_exit_addr))
        td.true_depth.append(len(stack))
        td.match.append(None)
    leaf_next = False

    def put(typ, df, a, depth, match):
        td.recs.append((typ, t, df, a))
        td.true_depth.append(depth)
        td.match.append(match)

    while len(td.recs) < nrec:
        t += step()
        d = len(stack)
        live = [j for j in live if d >= j["d"] and stack[j["d"] - 1][0] == j["caller"]]
        if jumps and not leaf_next and d >= 1:
            x = rng.random()
            if x < jumps.p_sj and d <= maxdepth and jumps.sj:
                # setjmp(): returns at once; remember the frame it was called from
                a = rng.choice(jumps.sj)
                serial += 1
                td.sj.append((len(td.recs), serial))
                live.append({"d": d, "caller": stack[-1][0], "sym": a, "serial": serial})
                put("E", d, a, d, None)
                t += step()
                put("X", d, a, d, len(td.recs) - 1)
                continue
            if jumps.p_sj <= x < jumps.p_sj + jumps.p_lj and live:
                j = live[-1] if (len(live) == 1 or rng.random() >= jumps.p_old) else rng.choice(live[:-1])
                a = rng.choice(jumps.lj)
                td.lj.append((len(td.recs), j["serial"]))
                put("E", d, a, d, None)
                t += step()
                del stack[j["d"]:]
                td.second_return.append(len(td.recs))
                put("X", j["d"], j["sym"], j["d"], None)
                continue
            if jumps.p_sj + jumps.p_lj <= x < jumps.p_sj + jumps.p_lj + jumps.p_ex and jumps.ex:
                a = rng.choice(jumps.ex)
                td.execs.append(len(td.recs))
                put("E", d, a, d, None)
                if rng.random() < jumps.p_fail:
                    # exec failed and returned: the program goes on where it was (shape of C06-EXEC-FAILED)
                    t += step()
                    if td.exec_failed_from is None:
                        td.exec_failed_from = len(td.recs)
                    put("X", d, a, d, len(td.recs) - 1)
                    td.exec_failed = True
                else:
                    del stack[:]
                    live = []
                continue
        if leaf_next:
            kind = "X"
        elif d == 0:
            kind = "E" if not (extra_exit and rng.random() < 0.15) else "XX"
        elif d >= maxdepth:
            kind = "X"
        else:
            kind = "E" if rng.random() < p_entry else "X"
        leaf_next = False
        if kind == "E":
            a = rng.choice(fork_addrs) if (fork_addrs and rng.random() < p_fork) else rng.choice(addrs)
            df = d
            if jitter and rng.random() < 0.08:
                df = max(0, d + rng.choice([-1, 1]))
                td.wellformed = False
            stack.append(fresh(len(td.recs)))
            put("E", df, a, d, None)
            leaf_next = rng.random() < (0.45 if p_entry < 0.7 else 0.15)
        elif kind == "X":
            top = stack.pop()[1]
            a = td.recs[top][3] if top is not None else rng.choice(addrs)
            df = len(stack)
            if jitter and rng.random() < 0.08:
                df = max(0, df + rng.choice([-1, 1]))
                td.wellformed = False
            put("X", df, a, len(stack), top)
        else:   # an EXIT with nothing open (ill-formed stream)
            td.wellformed = False
            put("X", 0, rng.choice(addrs), None, None)
    td.open = [td.recs[i][3] for _, i in stack if i is not None]
    td.open_frames = len(stack)
    return t


def analyse_jumps(case):
    """mark, per task, the first longjmp whose jump point is not the one armed last in replay order (all tasks share
    fstack.c's single setjmp_depth/setjmp_count): from there on the task is in the shape of C11-LONGJMP-DEPTH"""
    ts = [case["tasks"][k] for k in case["order"]]
    ev = []
    for i, td in enumerate(ts):
        td.lj_unsafe_from = None
        for k, ser in td.sj:
            ev.append((td.recs[k][1], i, k, "sj", ser))
        for k, ser in td.lj:
            ev.append((td.recs[k][1], i, k, "lj", ser))
    ev.sort()
    last = None
    for _, i, k, what, ser in ev:
        if what == "sj":
            last = (i, ser)
        elif last != (i, ser) and ts[i].lj_unsafe_from is None:
            ts[i].lj_unsafe_from = k
    case["sj_tasks"] = sum(1 for td in ts if td.sj)


def gen_case(rng, idx, tier):
    """one data directory description + the option sets to run"""
    r = rng.random()
    ntask = 1 if r < 0.08 else rng.randint(2, 6)
    ties = rng.random() < 0.45
    jitter = rng.random() < 0.10
    extra_exit = rng.random() < 0.08
    big = tier == "thorough" and rng.random() < 0.2
    maxdepth = rng.choice([1, 2, 3, 5, 8] + ([40] if big else []))
    p_entry = 0.8 if rng.random() < 0.25 else 0.55
    # the symbol table: plain functions, look-alikes and a random subset of the fix-up names (all of them in 1/3 of the cases)
    fixsel = list(FIXNAMES) if rng.random() < 0.34 else [n for n in FIXNAMES if rng.random() < 0.6]
    for k in ("fork",):
        if not any(n in fixsel for n in FIXCLASS[k]):
            fixsel.append(rng.choice(FIXCLASS[k]))
    names = PLAIN + [n for n in LOOKALIKE if rng.random() < 0.5] + [n for n in FIXNAMES if n in fixsel]
    syms = [(0x100 * (k + 1), 0x40, n) for k, n in enumerate(names)]
    addr = {n: D.BASE + rel for rel, _, n in syms}
    normal = [addr[n] for n in names if n not in FIXNAMES]
    forks = [addr[n] for n in names if n in FORKLIKE]
    byclass = {k: [addr[n] for n in FIXCLASS[k] if n in addr] for k in FIXCLASS}
    tids = rng.sample(range(100, 30000), ntask)

    if ties:
        grid = rng.choice([1, 10, 100])
        def step():
            return grid * rng.choice([0, 0, 0, 1, 1, 2])
    else:
        def step():
            x = rng.random()
            if x < 0.85:
                return rng.randint(1, 900)
            if x < 0.95:
                return rng.randint(1000, 2000000)
            return rng.randint(10 ** 6, 7 * 10 ** 10)

    # which tasks contain non-local control flow
    jr = rng.random()
    can_jump = bool(byclass["setjmp"]) and bool(byclass["longjmp"])
    if jr < 0.40 or not can_jump:
        jtasks = set()
    elif jr < 0.85 or ntask == 1:
        jtasks = {rng.randrange(ntask)}
    else:
        jtasks = set(rng.sample(range(ntask), 2))
    p_old = rng.choice([0.0, 0.0, 0.0, 0.3])         # jump to an older live jmp_buf: the shape of C11-LONGJMP-DEPTH
    exec_on = bool(byclass["exec"]) and rng.random() < 0.35
    p_fail = rng.choice([0.0, 0.2, 0.3])

    def jumps_for(k):
        sj = k in jtasks
        ex = exec_on and rng.random() < 0.6
        if not sj and not ex:
            return None
        return Jumps(byclass["setjmp"], byclass["longjmp"], byclass["exec"],
                     p_sj=rng.choice([0.10, 0.18]) if sj else 0.0, p_lj=rng.choice([0.15, 0.3]) if sj else 0.0,
                     p_ex=rng.choice([0.05, 0.1]) if ex else 0.0, p_old=p_old, p_fail=p_fail)

    tasks = []
    for k in range(ntask):
        nrec = rng.choice(([] if k == 0 else [0]) + [1, 2, 3, 6, 12, 25] + ([120] if big else []))
        if k in jtasks:
            nrec = max(nrec, rng.choice([12, 25, 40]))
        if k == 0:
            td = TaskDesc(tids[k], "main")
        elif rng.random() < 0.5:
            td = TaskDesc(tids[k], "thread", parent=tasks[0].tid if rng.random() < 0.8 else rng.choice(tasks).tid)
        else:
            td = TaskDesc(tids[k], "child", parent=rng.choice(tasks).tid)
        t = T0 + (rng.randint(0, 3) * (grid if ties else rng.randint(0, 3000)))
        jm = jumps_for(k)
        md = max(maxdepth, 3) if k in jtasks else maxdepth
        if td.kind == "child":
            par = next(x for x in tasks if x.tid == td.parent)
            fcalls = [(i, rc) for i, rc in enumerate(par.recs) if rc[0] == "E" and rc[3] in forks and par.true_depth[i] is not None]
            x = rng.random()
            if fcalls and x < 0.75:          # returns from a fork() the parent is seen to call
                i, rc = rng.choice(fcalls)
                y = rng.random()
                if y < 0.4:
                    dt = rng.choice([0, 0, 1]) * (grid if ties else 1)
                elif y < 0.8:
                    dt = step()
                else:                        # a child that is scheduled late: the parent may have forked again by then
                    dt = step() + step() + step() + step() + step() + step()
                t = rc[1] + dt
                start = par.true_depth[i] + 1
                walk(rng, td, start, rc[3], t, step, max(nrec, 1), max(md, start), normal, forks, 0.1, jitter, extra_exit, p_entry, jm)
                td.proper_fork = (i, rc)
            else:                             # a child whose parent's fork() is not in the data
                start = rng.randint(0, 3)
                walk(rng, td, start, rng.choice(forks) if (start and rng.random() < 0.8) else None, t, step, nrec,
                     max(md, start), normal, forks, 0.1, jitter, extra_exit, p_entry, jm)
                td.proper_fork = None
        else:
            walk(rng, td, 0, None, t, step, nrec, md, normal, forks, 0.25 if k == 0 else 0.08, jitter, extra_exit, p_entry, jm)
            td.proper_fork = None
        tasks.append(td)

    order = list(range(ntask))
    if rng.random() < 0.6:
        rng.shuffle(order)               # info.tids order = merge index order
    modes = ["default", "nomerge", "fields", "tid", "column"]
    sel = sorted(rng.sample(range(ntask), min(ntask, rng.choice([1, 1, 2, 2, 3]))))
    case = {
        "idx": idx, "syms": syms, "tasks": tasks, "order": order, "ties": ties, "jitter": jitter,
        "extra_exit": extra_exit, "maxdepth": maxdepth, "forks": forks, "sel": sel,
        "col_off": rng.choice([None, None, 3, 5]), "tid_extra": rng.choice([[], ["--no-merge"], []]), "modes": modes,
        "form_seed": rng.randrange(1 << 30),
    }
    analyse_jumps(case)
    return case


def task_txt(case):
    tasks = case["tasks"]
    main = tasks[0]
    lines = ['SESS timestamp=%s pid=%d sid=%s exename="%s"' % (D.ts(1000), main.tid, D.SID, D.EXE)]
    for k, td in enumerate(tasks):
        if td.kind == "child":
            lines.append("FORK timestamp=%s pid=%d ppid=%d" % (D.ts(1002 + k), td.tid, td.parent))
        else:
            pid = main.tid if td.kind == "main" else td.parent
            # a thread's pid is its process: the main task or the forked child it belongs to
            lines.append("TASK timestamp=%s tid=%d pid=%d" % (D.ts(1001 + (k > 0)), td.tid, pid))
    return ("\n".join(lines) + "\n").encode()


def ordered(case):
    return [case["tasks"][k] for k in case["order"]]


def write_dir(case, d):
    ts = ordered(case)
    dd = D.DataDir(case["syms"], [D.Task(td.tid, [D.Rec(t, typ, dep, a) for typ, t, dep, a in td.recs]) for td in ts])
    shutil.rmtree(d, ignore_errors=True)
    dd.write(d, overrides={"task.txt": task_txt(case)})


def mode_args(case, mode):
    """the canonical form of each mode's options"""
    ts = ordered(case)
    if mode == "default":
        return []
    if mode == "nomerge":
        return ["--no-merge", "-f", FIELDS]
    if mode == "fields":
        return ["-f", FIELDS]
    if mode == "tid":
        return ["--tid", ",".join(str(ts[i].tid) for i in case["sel"]), "-f", FIELDS] + case["tid_extra"]
    if mode == "column":
        return ["--column-view"] + (["--column-offset=%d" % case["col_off"]] if case["col_off"] is not None else [])
    raise ValueError(mode)


# ---------------------------------------------------------------- option forms
def tid_forms(rng, tids):
    """ways to write `--tid` for the task set `tids` (uftrace.c: every --tid adds `;arg` to opts->tid;
    fstack_setup_task splits at ',' and ';')"""
    tids = [str(t) for t in tids]
    out = []
    out.append(["--tid=" + ",".join(tids)])
    out.append([w for t in tids for w in ("--tid", t)])                 # one option per task
    out.append(["--tid=%s" % t for t in tids])
    out.append(["--tid", ";".join(tids)])
    out.append(["--tid", ", ".join(tids)])                              # strtol skips the blank
    out.append(["--tid", " " + ",".join(tids)])
    sh = list(tids)
    rng.shuffle(sh)
    out.append(["--tid", ",".join(sh)])
    out.append([w for t in reversed(tids) for w in ("--tid", t)])
    out.append(["--tid", ",".join(tids + [rng.choice(tids)])])          # a task named twice
    if len(tids) >= 2:
        k = rng.randint(1, len(tids) - 1)
        out.append(["--tid", ",".join(tids[:k]), "--tid=" + ",".join(tids[k:])])     # mixed
        out.append(["--tid=" + ";".join(tids[:k]), "--tid", ",".join(tids[k:])])
    if len(tids) >= 3:
        out.append(["--tid", tids[0], "--tid", ",".join(tids[1:-1]) + ";" + tids[-1]])
    return out


def field_forms(rng):
    names = FIELDS.split(",")
    sh = list(names)
    rng.shuffle(sh)
    plus = [n for n in sh if n not in ("duration", "tid")]
    return [["-f" + FIELDS], ["--output-fields=" + FIELDS], ["--output-fields", FIELDS], ["-f", ",".join(sh)],
            ["-f", "+" + ",".join(plus)], ["-f", "tid", "-f", FIELDS], ["--output-fields=none", "-f" + ",".join(sh)],
            ["-f", ",".join(names + [rng.choice(names)])]]


def form_args(case, mode, rng):
    """the same selection / presentation as mode_args(case, mode), written differently"""
    ts = ordered(case)
    col = case["col_off"]
    colforms = [["--column-view"]] if col is None else [
        ["--column-offset=%d" % col, "--column-view"], ["--column-view", "--column-offset", str(col)],
        ["--column-offset", "1", "--column-view", "--column-offset=%d" % col]]
    if mode == "default":
        return rng.choice([["-f", "duration,tid"], ["-ftid,duration"], ["-f", "+tid"], ["--output-fields=+duration"]])
    if mode == "nomerge":
        f = rng.choice(field_forms(rng))
        return rng.choice([f + ["--no-merge"], ["--no-merge"] + f, ["--no-merge"] + f + ["--no-merge"]])
    if mode == "fields":
        return rng.choice(field_forms(rng))
    if mode == "tid":
        tf = rng.choice(tid_forms(rng, [ts[i].tid for i in case["sel"]]))
        f = rng.choice([["-f", FIELDS]] + field_forms(rng))
        # option units: `--tid=x` is one word, `--tid x` two; the units need not be adjacent
        units, k = [], 0
        while k < len(tf):
            n = 1 if tf[k].startswith("--tid=") else 2
            units.append(tf[k:k + n])
            k += n
        parts = units + [f] + ([case["tid_extra"]] if case["tid_extra"] else [])
        rng.shuffle(parts)
        return [w for part in parts for w in part]
    if mode == "column":
        return rng.choice(colforms)
    raise ValueError(mode)


def case_forms(case):
    """[(mode, args)] : the alternative spellings run for this case (deterministic per case)"""
    rng = random.Random(case.get("form_seed", 0))
    out = []
    modes = list(case["modes"])
    # always a --tid form (2 when several tasks are selected), plus two other modes
    picks = ["tid"] + (["tid"] if len(case["sel"]) > 1 else []) + rng.sample([m for m in modes if m != "tid"], 2)
    for m in picks:
        if m in modes:
            a = form_args(case, m, rng)
            if a != mode_args(case, m) and (m, a) not in out:
                out.append((m, a))
    return out


def parent_index(case, td):
    """get_task_handle(h, t->ppid): only FORK lines give a ppid"""
    if td.kind != "child":
        return None
    for i, x in enumerate(ordered(case)):
        if x.tid == td.parent:
            return i
    return None


def model_line(case, mode, fx="000"):
    ts = ordered(case)
    merge = "0" if (mode == "nomerge" or (mode == "tid" and "--no-merge" in case["tid_extra"])) else "1"
    col = "0"
    if mode == "column":
        col = str(8 if case["col_off"] is None else case["col_off"])
    sel = ",".join(str(i) for i in case["sel"]) if mode == "tid" else "-"
    syms = ",".join("%d=%s" % (D.BASE + rel, n) for rel, _, n in case["syms"]) or "-"
    w = ["R", merge, col, fx, syms, sel]
    for td in ts:
        p = parent_index(case, td)
        w += ["|", ("?" if td.kind == "child" else "-") if p is None else str(p)] + ["%s:%d:%d:%d" % (typ, t, dep, a) for typ, t, dep, a in td.recs]
    return " ".join(w)


# ---------------------------------------------------------------- parsing uftrace's output
BODY_E = re.compile(r"^(\S+)\(\) \{$")
BODY_L = re.compile(r"^(\S+)\(\);$")
BODY_X = re.compile(r"^\} /\* (\S+) \*/$")


def parse_output(text, with_fields, name2addr):
    """-> (lines, remaining, problems); a line is a dict kind,tid,indent,fn,dur(text)[,addr,time,delta,elapsed]"""
    lines, rem, problems = [], [], []
    rows = text.split("\n")
    i = 0
    n = len(rows)
    while i < n:
        row = rows[i]
        i += 1
        if row.startswith("#") or row == "":
            continue
        if row.startswith("uftrace stopped tracing with remaining functions"):
            break
        bar = row.find(" | ")
        if bar < 0:
            problems.append("unparsed line: %r" % row)
            continue
        left, right = row[:bar], row[bar + 3:]
        ind = len(right) - len(right.lstrip(" "))
        body = right[ind:]
        e = {}
        try:
            e["dur"] = left[1:11].strip()
            e["tid"] = int(left[12:21].strip("[] "))
            if with_fields:
                a = left[22:34].strip()
                e["addr"] = int(a, 16) if a else None
                sec, nsec = left[35:53].strip().split(".")
                e["time"] = int(sec) * 10 ** 9 + int(nsec)
                e["delta"] = left[54:64].strip()
                e["elapsed"] = left[65:75].strip()
                if len(left) != 75:
                    problems.append("field area has width %d: %r" % (len(left), row))
            elif len(left) != 21:
                problems.append("field area has width %d: %r" % (len(left), row))
        except (ValueError, IndexError):
            problems.append("unparsed fields: %r" % row)
            continue
        m = BODY_E.match(body)
        if m:
            e["kind"] = "e"
        else:
            m = BODY_L.match(body)
            if m:
                e["kind"] = "l"
            else:
                m = BODY_X.match(body)
                if m:
                    e["kind"] = "x"
        if not m:
            problems.append("unparsed graph part: %r" % row)
            continue
        if ind % 2:
            problems.append("odd indentation: %r" % row)
        e["indent2"] = ind
        e["fn"] = name2addr.get(m.group(1), m.group(1))
        lines.append(e)
    # remaining functions
    cur = None
    while i < n:
        row = rows[i]
        i += 1
        if row.startswith("====") or row == "":
            continue
        m = re.match(r"^task: (\d+)$", row)
        if m:
            cur = (int(m.group(1)), [])
            rem.append(cur)
            continue
        m = re.match(r"^\[(\d+)\] (\S+)$", row)
        if m and cur is not None:
            nm_ = m.group(2)
            mh = re.match(r"^<([0-9a-f]+)>$", nm_)
            # `<addr>`: print_remaining_stack looks the session up with the slot's total_time, which is a duration for a
            # closed call that a stale setjmp_count has put back on the stack; symbol resolution is C10's subject
            cur[1].append((int(m.group(1)), int(mh.group(1), 16) if mh else name2addr.get(nm_, nm_)))
            continue
        problems.append("unparsed remaining-stack line: %r" % row)
    return lines, rem, problems


def canon_impl(lines, rem, with_fields):
    out = []
    for e in lines:
        c = [e["kind"], e["tid"], e["indent2"], e["fn"], e["dur"]]
        if with_fields:
            c += [e["addr"], e["time"], e["delta"], e["elapsed"]]
        out.append(tuple(c))
    return out, [(t, tuple(l)) for t, l in rem]


def canon_model(mline, tids, with_fields):
    """model output line -> same canonical form"""
    if " # " in mline + " ":
        evpart, _, rempart = (mline + " ").partition(" # ")
    else:
        evpart, rempart = mline, ""
    evpart = evpart.strip()
    if evpart.startswith("#"):
        evpart, rempart = "", evpart[1:]
    out = []
    for item in [x for x in evpart.split(" ; ") if x.strip()]:
        k, task, ind, fn, addr, dur, time, delta, elapsed = item.split()
        c = [k, tids[int(task)], 2 * int(ind), int(fn), fmt_unit(int(dur)).strip()]
        if with_fields:
            c += [int(addr), int(time), fmt_unit(int(delta)).strip(), fmt_unit(int(elapsed)).strip()]
        out.append(tuple(c))
    rem = []
    for item in [x for x in rempart.split(" ; ") if x.strip()]:
        w = item.split()
        rem.append((tids[int(w[0])], tuple((int(q.split(":")[0]), int(q.split(":")[1])) for q in w[1:])))
    return out, rem


# ---------------------------------------------------------------- the property, on the implementation's output
def unfold_impl(lines):
    """canonical with-fields lines; a folded leaf stands for its ENTRY and EXIT lines"""
    out = []
    for e in lines:
        if e["kind"] != "l":
            out.append(dict(e))
            continue
        a = dict(e, kind="e", dur="")
        b = dict(e, kind="x")
        b["time"] = None        # the EXIT's own timestamp is not printed; compared through dur
        out += [a, b]
    return out


def shape_tag(td, k):
    """the finding whose shape record `k` of the task is in (the earlier of the two triggers wins), or None"""
    c = [(td.lj_unsafe_from + 1, "C11-LONGJMP-DEPTH")] if td.lj_unsafe_from is not None else []
    c += [(td.exec_failed_from, "C06-EXEC-FAILED")] if td.exec_failed_from is not None else []
    c = [x for x in c if k >= x[0]]
    return min(c)[1] if c else None


def monitors(case, res):
    """res: mode -> (lines, rem).  Returns list of (name, description, tag): tag None = a violation of the property,
    otherwise the id of the finding whose shape the failing task has."""
    bad = []
    ts = ordered(case)
    tids = [td.tid for td in ts]
    idx_of = {td.tid: i for i, td in enumerate(ts)}
    by_tid = {td.tid: td for td in ts}
    nm = res.get("nomerge")
    if nm is None:
        return bad
    L = nm[0]
    # (1) every record of every task shown exactly once, each task in its own order
    for td in ts:
        mine = [e for e in L if e["tid"] == td.tid]
        exp = [("e" if typ == "E" else "x", a, t) for typ, t, dep, a in td.recs]
        got = [(e["kind"], e["fn"], e["time"]) for e in mine]
        if got != exp:
            bad.append(("per-task-order", "task %d: --no-merge shows %d lines that are not its %d records in order" % (td.tid, len(got), len(exp)), None))
            break
    # (2) global time order, ties: lowest task index first
    keys = [(e["time"], idx_of.get(e["tid"], -1)) for e in L]
    for a, b in zip(keys, keys[1:]):
        if b < a:
            bad.append(("merge-order", "line (time=%d, task#%d) is printed before (time=%d, task#%d)" % (a[0], a[1], b[0], b[1]), None))
            break
    # (3) indentation = nesting depth (the record's depth in its process stack: what the depth field of a coherent
    #     stream says, also after a longjmp / exec) for well-formed tasks
    first_seen = {}
    for pos, e in enumerate(L):
        first_seen.setdefault(e["tid"], pos)
    for td in ts:
        if not td.wellformed:
            continue
        tag0 = None
        if td.kind == "child":
            if not td.proper_fork:
                continue
            par = by_tid[td.parent]
            if not par.wellformed or par.kind == "child" or par.lj_unsafe_from is not None or par.exec_failed_from is not None:
                continue
            # the parent's fork() line must be printed before the child's first line
            fpos = next((p for p, e in enumerate(L) if e["tid"] == par.tid and e["kind"] == "e" and e["time"] == td.proper_fork[1][1]
                         and e["fn"] == td.proper_fork[1][3]), None)
            if fpos is None or td.tid not in first_seen or not (fpos < first_seen[td.tid]):
                continue
            # replay hands down the depth of the parent's most recent fork() before the child's first line: if that is
            # another fork() than the one the child returns from, the case has the shape of C06-FORK-LATEST
            last = [p for p, e in enumerate(L) if p < first_seen[td.tid] and e["tid"] == par.tid and e["kind"] == "e" and e["fn"] in case["forks"]]
            if last[-1] != fpos:
                tag0 = "C06-FORK-LATEST"
        mine = [e for e in L if e["tid"] == td.tid]
        for k, (e, d) in enumerate(zip(mine, td.true_depth)):
            if d is not None and e["indent2"] != 2 * d:
                tag = shape_tag(td, k) or tag0
                bad.append(("indent-is-depth", "task %d: %s of %s at time %d has nesting depth %d but is printed at indent %d" % (
                    td.tid, e["kind"], e["fn"], e["time"], d, e["indent2"] // 2), tag))
                break
    # (4) duration = exit - entry of the same call (the second return of a setjmp has no entry of its own)
    for td in ts:
        mine = [e for e in L if e["tid"] == td.tid]
        if len(mine) != len(td.recs):
            continue
        for k, (e, rc) in enumerate(zip(mine, td.recs)):
            if rc[0] == "X" and td.match[k] is not None and td.wellformed:
                want = fmt_unit(rc[1] - td.recs[td.match[k]][1]).strip()
                if e["dur"] != want:
                    tag = shape_tag(td, k)
                    bad.append(("duration-exact", "task %d: call %s entered %d left %d is shown with duration %r, expected %r" % (
                        td.tid, rc[3], td.recs[td.match[k]][1], rc[1], e["dur"], want), tag))
                    break
            if rc[0] == "E" and e["dur"] != "":
                bad.append(("duration-exact", "an ENTRY line shows a duration", None))
                break
    # (4b) the time fields: delta = since the task's previous line, elapsed = since the first record
    for mode in ("nomerge", "fields"):
        if mode not in res or not res[mode][0]:
            continue
        LL = res[mode][0]
        alltimes = [rc[1] for td in ts for rc in td.recs[:1]]
        first = min(alltimes) if alltimes else 0
        prev = {}
        for e in LL:
            want_d = fmt_unit(e["time"] - prev[e["tid"]]).strip() if prev.get(e["tid"]) else ""
            want_e = fmt_unit(e["time"] - first).strip()
            prev[e["tid"]] = e["time"]
            if e["delta"] != want_d or e["elapsed"] != want_e:
                bad.append(("time-fields", "%s: line of task %d at time %d shows delta %r elapsed %r, expected %r %r" % (
                    mode, e["tid"], e["time"], e["delta"], e["elapsed"], want_d, want_e), None))
                break
    # (5) folding is presentation only
    def strip(e, keys):
        return tuple(e.get(k) for k in keys)
    fl = res.get("fields")
    if fl is not None:
        u = unfold_impl(fl[0])
        k5 = ("kind", "tid", "indent2", "fn", "dur", "addr")
        if [strip(e, k5) for e in u] != [strip(e, k5) for e in L]:
            bad.append(("folding-is-presentation", "unfolding the default output does not give the --no-merge output", None))
        elif [e["time"] for e in u if e["time"] is not None] != [e["time"] for e, f in zip(L, u) if f["time"] is not None]:
            bad.append(("folding-is-presentation", "timestamps differ between folded and --no-merge output", None))
        if fl[1] != nm[1]:
            bad.append(("folding-is-presentation", "remaining-functions listing differs between default and --no-merge", None))
        # leaves are folded only when the EXIT is the very next line
        df = res.get("default")
        if df is not None:
            k4 = ("kind", "tid", "indent2", "fn", "dur")
            if [strip(e, k4) for e in df[0]] != [strip(e, k4) for e in fl[0]] or df[1] != fl[1]:
                bad.append(("fields-are-projection", "-f %s changes the calls shown" % FIELDS, None))
    # (6) --tid = projection
    td_ = res.get("tid")
    if td_ is not None:
        selt = [tids[i] for i in case["sel"]]
        # setjmp_depth/setjmp_count are shared by all tasks: when several tasks arm jump points, leaving a task out
        # changes which one was armed last (C11-LONGJMP-DEPTH): tasks that longjmp are then left out of the comparison
        skip = {td.tid for td in ts if td.lj} if case.get("sj_tasks", 0) >= 2 else set()
        grew = bool(skip)
        while grew:       # ... and the forked children that inherit their depth from such a task
            grew = False
            for td in ts:
                if td.kind == "child" and td.parent in skip and td.tid not in skip:
                    skip.add(td.tid)
                    grew = True
        u = [e for e in unfold_impl(td_[0]) if e["tid"] not in skip]
        want = [e for e in L if e["tid"] in selt and e["tid"] not in skip]
        closed = all(parent_index(case, ts[i]) is None or parent_index(case, ts[i]) in case["sel"] for i in case["sel"])
        k6 = ("kind", "tid", "fn", "dur", "addr") + (("indent2",) if closed else ())
        if [strip(e, k6) for e in u] != [strip(e, k6) for e in want]:
            bad.append(("tid-is-projection", "--tid %s output is not the full output restricted to these tasks" % selt, None))
        else:
            tw = [e["time"] for e, f in zip(want, u) if f["time"] is not None]
            if [e["time"] for e in u if e["time"] is not None] != tw:
                bad.append(("tid-is-projection", "--tid changes timestamps", None))
            ew = [e["elapsed"] for e, f in zip(want, u) if f["time"] is not None and f["kind"] != "x"]
            if [e["elapsed"] for e in u if e["time"] is not None and e["kind"] != "x"] != ew and "--no-merge" in case["tid_extra"]:
                bad.append(("tid-is-projection", "--tid changes the elapsed field", None))
        if [x for x in td_[1] if x[0] not in skip] != [x for x in nm[1] if x[0] in selt and x[0] not in skip]:
            bad.append(("tid-is-projection", "--tid changes the remaining-functions listing of the selected tasks", None))
    # (7) --column-view shifts each task by a constant column
    cv = res.get("column")
    df = res.get("default")
    if cv is not None and df is not None:
        off = 8 if case["col_off"] is None else case["col_off"]
        cols = {}
        ok = len(cv[0]) == len(df[0])
        for a, b in zip(cv[0], df[0]):
            c = cols.setdefault(a["tid"], len(cols))
            if (a["kind"], a["tid"], a["fn"], a["dur"]) != (b["kind"], b["tid"], b["fn"], b["dur"]) or a["indent2"] != b["indent2"] + 2 * off * c:
                ok = False
        if not ok or cv[1] != df[1]:
            bad.append(("column-view-is-presentation", "--column-view changes more than each task's column", None))
    # (8) calls still open at the end are listed, innermost first
    for td in ts:
        if not td.wellformed:
            continue
        lst = dict(nm[1]).get(td.tid)
        want = [(k, a) for k, a in reversed(list(enumerate(td.open)))]
        if list(lst or []) != want:
            bad.append(("open-calls-listed", "task %d: open calls %s, listed %s" % (td.tid, want, lst), shape_tag(td, len(td.recs))))
            break
    return bad


# ---------------------------------------------------------------- running
def case_json(case):
    return {
        "tasks_in_creation_order": [{
            "tid": td.tid, "kind": td.kind, "parent": td.parent,
            "records": ["%s:%d:%d:%s" % (typ, t, dep, hex(a)) for typ, t, dep, a in td.recs],
            "meta": {"true_depth": td.true_depth, "match": td.match, "wellformed": td.wellformed, "open": td.open,
                     "inherited": td.inherited, "proper_fork": (list(td.proper_fork[1]) if td.proper_fork else None),
                     "second_return": td.second_return, "sj": [list(x) for x in td.sj], "lj": [list(x) for x in td.lj],
                     "execs": td.execs, "exec_failed_from": td.exec_failed_from},
        } for td in case["tasks"]],
        "info_tids_order": case["order"], "task_txt": task_txt(case).decode(),
        "symbols": [[r, sz, n] for r, sz, n in case["syms"]], "forks": case["forks"],
        "sel": case["sel"], "col_off": case["col_off"], "tid_extra": case["tid_extra"], "modes": case["modes"],
        "form_seed": case.get("form_seed", 0),
        "flags": {k: case[k] for k in ("ties", "jitter", "extra_exit", "maxdepth")},
    }


def case_from_json(j, idx=0):
    tasks = []
    for t in j["tasks_in_creation_order"]:
        td = TaskDesc(t["tid"], t["kind"], t["parent"])
        for w in t["records"]:
            typ, tm, dep, a = w.split(":")
            td.recs.append((typ, int(tm), int(dep), int(a, 16)))
        m = t["meta"]
        td.true_depth, td.match, td.wellformed, td.open, td.inherited = m["true_depth"], m["match"], m["wellformed"], m["open"], m["inherited"]
        td.proper_fork = (None, tuple(m["proper_fork"])) if m["proper_fork"] else None
        td.second_return = m.get("second_return", [])
        td.sj = [tuple(x) for x in m.get("sj", [])]
        td.lj = [tuple(x) for x in m.get("lj", [])]
        td.execs = m.get("execs", [])
        td.exec_failed_from = m.get("exec_failed_from")
        td.exec_failed = td.exec_failed_from is not None
        tasks.append(td)
    case = {"idx": idx, "syms": [tuple(x) for x in j["symbols"]], "tasks": tasks, "order": j["info_tids_order"],
            "forks": j["forks"], "sel": j["sel"], "col_off": j["col_off"], "tid_extra": j["tid_extra"], "modes": j["modes"],
            "form_seed": j.get("form_seed", 0)}
    case.update(j["flags"])
    analyse_jumps(case)
    return case


def run_case_modes(uft, case, root):
    """-> ({mode: (rc, out, err)}, [(mode, args, (rc, out, err))] for the alternative option forms)"""
    d = os.path.join(root, "c%d" % case["idx"])
    write_dir(case, d)
    out = {}
    for mode in case["modes"]:
        out[mode] = D.run_uftrace(uft, "replay", d, mode_args(case, mode), timeout=30)
    forms = [(mode, args, D.run_uftrace(uft, "replay", d, args, timeout=30)) for mode, args in case_forms(case)]
    shutil.rmtree(d, ignore_errors=True)
    return out, forms


def has_child(case):
    return any(td.kind == "child" for td in case["tasks"])


def rep_variant(case, fx):
    """the variant whose model output equals that of `fx` for this case: the fork repairs only matter for forked
    tasks, the exec repair only where an exec*() is called"""
    ab = fx[:2] if has_child(case) else "00"
    c = fx[2] if any(td.execs for td in case["tasks"]) else "0"
    return ab + c


def evaluate(ctx, cases, uft, root):
    """-> raw results, model output per (idx, mode, variant), model input per (idx, mode)"""
    with ThreadPoolExecutor(max_workers=12) as ex:
        raw = list(ex.map(lambda c: run_case_modes(uft, c, root), cases))
    mlines, keys = [], []
    for case in cases:
        for mode in case["modes"]:
            for fx in sorted({rep_variant(case, v) for v in VARIANTS}):
                mlines.append(model_line(case, mode, fx))
                keys.append((case["idx"], mode, fx))
    mout = C.run_model("C06", mlines)
    if len(mout) != len(mlines):
        raise RuntimeError("uvmodel C06 returned %d lines for %d queries" % (len(mout), len(mlines)))
    mres = dict(zip(keys, mout))
    for case in cases:
        for mode in case["modes"]:
            for fx in VARIANTS:
                mres[(case["idx"], mode, fx)] = mres[(case["idx"], mode, rep_variant(case, fx))]
    return raw, mres, {(k[0], k[1]): l for k, l in zip(keys, mlines) if k[2] == VARIANTS[0]}


def assess(case, rr, mres):
    """-> (res, {variant: mismatches}, bad): parsed output per mode, model/impl differences per model variant,
    monitor failures (name, description, tag)"""
    rr, forms = rr
    ts = ordered(case)
    tids = [td.tid for td in ts]
    name2addr = {n: D.BASE + r for r, _, n in case["syms"]}
    res, mism, crashed = {}, {fx: [] for fx in VARIANTS}, []
    for mode in case["modes"]:
        rc, out, err = rr[mode]
        wf = mode not in ("default", "column")
        if rc != 0 or err.strip():
            crashed.append((mode, rc, err[-300:]))
            continue
        lines, rem, probs = parse_output(out, wf, name2addr)
        if probs:
            crashed.append((mode, "parse", probs[:3]))
        res[mode] = (lines, rem)
        ci = canon_impl(lines, rem, wf)
        for fx in VARIANTS:
            cm = canon_model(mres[(case["idx"], mode, fx)], tids, wf)
            if ci != cm:
                k = next((i for i, (a, b) in enumerate(zip(ci[0], cm[0])) if a != b), min(len(ci[0]), len(cm[0])))
                mism[fx].append({"mode": mode, "args": mode_args(case, mode), "first_difference_at_line": k,
                                 "impl": [list(x) for x in ci[0][k:k + 3]], "model": [list(x) for x in cm[0][k:k + 3]],
                                 "impl_remaining": ci[1], "model_remaining": cm[1], "model_variant": fx})
    if crashed:
        bad = [("output", "uftrace replay failed or printed something unparsable: %r" % (crashed[:2],), None)]
    else:
        bad = monitors(case, res)
    # option forms: the same selection, written differently, must give the same output
    for mode, args, (rc, out, err) in forms:
        if (rc, out, err) != tuple(rr[mode]):
            canon = mode_args(case, mode)
            a, b = rr[mode][1].split("\n"), out.split("\n")
            k = next((i for i, (x, y) in enumerate(zip(a, b)) if x != y), min(len(a), len(b)))
            bad.append(("option-forms", "`uftrace replay %s` (rc %s, %d lines) differs from the same selection written `%s` (rc %s, %d lines) "
                        "at output line %d: %r vs %r; stderr %r" % (" ".join(args), rc, len(b), " ".join(canon), rr[mode][0], len(a), k,
                                                                     (b[k:k + 1] or [None])[0], (a[k:k + 1] or [None])[0], err[-200:]), None))
    return res, mism, bad


def closed_sel(case):
    ts = ordered(case)
    return all(parent_index(case, ts[i]) is None or parent_index(case, ts[i]) in case["sel"] for i in case["sel"])


def finding_entry(fid):
    """the entry of known_findings.json with this id (any property, any status), or None"""
    try:
        kf = json.load(open(os.path.join(C.VERIF, "known_findings.json")))
    except (OSError, ValueError):
        return None
    for f in kf.get("findings", []):
        if f.get("id") == fid:
            return f
    return None


def source_fixup_syms(src):
    """fixup_syms[] of the snapshot's utils/fstack.c"""
    try:
        text = open(os.path.join(src, "utils", "fstack.c")).read()
    except OSError:
        return None
    m = re.search(r"fixup_syms\[\]\s*=\s*\{(.*?)\};", text, re.S)
    return re.findall(r'"([^"]*)"', m.group(1)) if m else None


def table_check(ctx):
    """the model's table and classification against the specification side (FIXCLASS) and /repo's table"""
    names = FIXNAMES + LOOKALIKE + PLAIN
    tab, cls = C.run_model("C06", ["T", "K " + " ".join(names)])
    want = {n: k for k, l in FIXCLASS.items() for n in l}
    probs = []
    got = dict(zip(names, cls.split()))
    for n in names:
        if got.get(n) != want.get(n, "none"):
            probs.append("model classifies %s as %s, the property needs %s" % (n, got.get(n), want.get(n, "none")))
    src = source_fixup_syms(ctx.src)
    if src is None:
        probs.append("fixup_syms[] not found in utils/fstack.c")
    elif sorted(src) != sorted(tab.split()):
        probs.append("fixup_syms[] of utils/fstack.c %s differs from the model's table %s" % (sorted(set(src) ^ set(tab.split())), ""))
    return probs, src


def load_corpus():
    d = os.path.join(C.VERIF, "corpus", "C06")
    out = []
    if os.path.isdir(d):
        for n in sorted(os.listdir(d)):
            if n.endswith(".json"):
                j = json.load(open(os.path.join(d, n)))
                out.append((n, j))
    return out


def run(ctx):
    ok, problems = C.prove(ctx, "C06")
    proof_broken = not ok
    okm, log = ctx.make()
    uft = os.path.join(ctx.src, "uftrace")
    if not okm or not os.path.exists(uft):
        C.violation(ctx, "build", {"kind": "harness-build-failed", "log": log[-3000:]}, True)
        return C.finish(ctx)
    rng = ctx.rng
    ncase = 400 if ctx.tier == "quick" else 25000
    root = os.path.join(ctx.scratch, "dirs")
    os.makedirs(root, exist_ok=True)

    tprobs, src_tab = table_check(ctx)

    evaluations = monitor_fail = 0
    distinct = set()
    dist = {"tasks": {}, "with_ties": 0, "cross_task_ties": 0, "with_fork_child": 0, "proper_fork_child": 0, "with_threads": 0,
            "with_open_calls": 0, "depth_field_jitter": 0, "unbalanced_exit": 0, "max_depth": 0, "records": 0,
            "folded_leaves": 0, "unfolded_leaf_because_other_task_between": 0, "tid_selection_not_parent_closed": 0,
            "child_first_index_lower_than_parent": 0,
            "dirs_with_setjmp": 0, "dirs_with_longjmp": 0, "longjmps": 0, "longjmps_not_last_armed_tasks": 0, "dirs_setjmp_in_2_tasks": 0,
            "dirs_with_exec": 0, "execs": 0, "failed_execs": 0, "fork_latest_shape_children": 0,
            "fixup_names_called": {}, "lookalike_names_called": {}, "option_form_runs": 0, "tid_forms_with_repeated_option": 0,
            "tid_selected_tasks": {}}
    samples = []
    var_dis = {fx: 0 for fx in VARIANTS}          # directories with a model/implementation difference, per model variant
    var_cases = {fx: [] for fx in VARIANTS}       # (case, mismatches) kept for reporting
    untagged = []                                 # (case, bad, mlines)
    tagged = {}                                   # finding id -> [(case, failures)]
    done = 0
    first = True
    while done < ncase:
        chunk = []
        if first:
            for n, j in load_corpus():
                c = case_from_json(j, idx=len(chunk))
                c["corpus"] = n
                chunk.append(c)
            first = False
        base = len(chunk)
        chunk += [gen_case(rng, base + done + i, ctx.tier) for i in range(min(1000, ncase - done))]
        done += len(chunk) - base
        raw, mres, mlines = evaluate(ctx, chunk, uft, root)
        for case, rr in zip(chunk, raw):
            ts = ordered(case)
            evaluations += len(case["modes"]) + len(rr[1])
            res, mism, bad = assess(case, rr, mres)
            # statistics
            if sum(len(td.recs) for td in ts) >= 2:
                distinct.add(hashlib.sha1(json.dumps([[td.tid, td.kind, td.parent, td.recs] for td in ts]).encode()).hexdigest())
            dist["tasks"][len(ts)] = dist["tasks"].get(len(ts), 0) + 1
            dist["with_ties"] += case["ties"]
            seen, cross = {}, False
            for i, td in enumerate(ts):
                for _, t, _, _ in td.recs:
                    if seen.setdefault(t, i) != i:
                        cross = True
            dist["cross_task_ties"] += cross
            dist["with_fork_child"] += any(td.kind == "child" for td in ts)
            dist["proper_fork_child"] += any(td.kind == "child" and td.proper_fork for td in ts)
            dist["child_first_index_lower_than_parent"] += any(
                td.kind == "child" and parent_index(case, td) is not None and parent_index(case, td) > i for i, td in enumerate(ts))
            dist["with_threads"] += any(td.kind == "thread" for td in ts)
            dist["with_open_calls"] += any(td.open for td in ts)
            dist["depth_field_jitter"] += case["jitter"]
            dist["unbalanced_exit"] += case["extra_exit"]
            dist["max_depth"] = max([dist["max_depth"]] + [d for td in ts for d in td.true_depth if d is not None])
            dist["records"] += sum(len(td.recs) for td in ts)
            dist["dirs_with_setjmp"] += any(td.sj for td in ts)
            dist["dirs_with_longjmp"] += any(td.lj for td in ts)
            dist["longjmps"] += sum(len(td.lj) for td in ts)
            dist["longjmps_not_last_armed_tasks"] += sum(1 for td in ts if td.lj_unsafe_from is not None)
            dist["dirs_setjmp_in_2_tasks"] += case.get("sj_tasks", 0) >= 2
            dist["dirs_with_exec"] += any(td.execs for td in ts)
            dist["execs"] += sum(len(td.execs) for td in ts)
            dist["failed_execs"] += sum(1 for td in ts if td.exec_failed)
            a2n = {D.BASE + r: n for r, _, n in case["syms"]}
            for td in ts:
                for typ, _, _, a in td.recs:
                    n = a2n.get(a)
                    if typ == "E" and n in FIXNAMES:
                        dist["fixup_names_called"][n] = dist["fixup_names_called"].get(n, 0) + 1
                    elif typ == "E" and n in LOOKALIKE:
                        dist["lookalike_names_called"][n] = dist["lookalike_names_called"].get(n, 0) + 1
            dist["option_form_runs"] += len(rr[1])
            dist["tid_forms_with_repeated_option"] += sum(1 for m, a, _ in rr[1] if m == "tid" and sum(w.startswith("--tid") for w in a) > 1)
            dist["tid_selected_tasks"][len(case["sel"])] = dist["tid_selected_tasks"].get(len(case["sel"]), 0) + 1
            dist["fork_latest_shape_children"] += sum(1 for b in bad if b[2] == "C06-FORK-LATEST")
            dist["exec_failed_shape_tasks"] = dist.get("exec_failed_shape_tasks", 0) + sum(1 for td in ts if td.exec_failed_from is not None)
            if "fields" in res and "nomerge" in res:
                nl = sum(1 for e in res["fields"][0] if e["kind"] == "l")
                dist["folded_leaves"] += nl
                adj = 0
                for td in ts:
                    adj += sum(1 for ra, rb in zip(td.recs, td.recs[1:]) if ra[0] == "E" and rb[0] == "X" and ra[2] == rb[2])
                dist["unfolded_leaf_because_other_task_between"] += adj - nl
            dist["tid_selection_not_parent_closed"] += not closed_sel(case)
            if len(samples) < 3 and case["idx"] % 41 == 7 and "corpus" not in case:
                samples.append({"model_input": mlines[(case["idx"], "default")][:400], "impl_default_output": rr[0]["default"][1][:600]})
            for fx in VARIANTS:
                if mism[fx]:
                    var_dis[fx] += 1
                    if len(var_cases[fx]) < 3:
                        var_cases[fx].append((case, mism[fx], {m: mlines[(case["idx"], m)] for m in case["modes"]}))
            plain = [b for b in bad if b[2] is None]
            if plain:
                monitor_fail += 1
                if len(untagged) < 3:
                    untagged.append((case, plain, {m: mlines[(case["idx"], m)] for m in case["modes"]}))
            for b in bad:
                if b[2] is not None:
                    tagged.setdefault(b[2], []).append((case, b))

    # ---- which model variant is this tree?  (the first with the fewest differences; 00 = the code without either repair)
    best = min(VARIANTS, key=lambda fx: (var_dis[fx], VARIANTS.index(fx)))
    disagreements = var_dis[best]
    nrep = 0
    for case, plain, ml in untagged:
        nrep += 1
        C.violation(ctx, "case%s" % ((case.get("corpus") or "").replace(".json", "") or case["idx"]), {
            "kind": "property-violated-on-implementation", "what": [list(b[:2]) for b in plain], "case": case_json(case),
            "model_inputs": ml, "theorem": "c06_* (Props/C06.lean)"})
    for case, mm, ml in var_cases[best]:
        if nrep >= 3:
            break
        if any(case is c for c, _, _ in untagged):
            continue
        nrep += 1
        C.violation(ctx, "case%s" % ((case.get("corpus") or "").replace(".json", "") or case["idx"]), {
            "kind": "model-code-disagreement", "what": [], "case": case_json(case), "model_vs_impl": mm[:3], "model_inputs": ml,
            "model_variant": best, "theorem": "c06_* (Props/C06.lean) / correspondence Merge+Replay"}, no_failing_input=True)
    if tprobs:
        C.violation(ctx, "fixup-table", {"kind": "model-code-disagreement", "what": tprobs,
                                         "theorem": "c06_fixup_classification_total / fixupSyms vs utils/fstack.c fixup_syms[]",
                                         "searched": "%d (directory, options) runs; monitor failures %d" % (evaluations, monitor_fail)},
                    no_failing_input=(monitor_fail == 0))
    # ---- findings recognised by their shape
    lj = tagged.get("C11-LONGJMP-DEPTH", [])
    if lj:
        ent = finding_entry("C11-LONGJMP-DEPTH")
        what = "C11-LONGJMP-DEPTH replay keeps one global setjmp_depth/setjmp_count: %d generated task(s) longjmp to a jump point " \
               "that was not armed last and are then shown at the wrong depth (e.g. %s)" % (len(lj), lj[0][1][1][:160])
        if ent is not None and ent.get("status") == "open":
            C.known(ctx, ent, what)
        else:
            case, b = lj[0]
            C.violation(ctx, "longjmp-%s" % case["idx"], {"kind": "property-violated-on-implementation", "what": [list(b[:2])],
                                                           "case": case_json(case), "note": "shape of C11-LONGJMP-DEPTH, which is not listed as open"})
    for fid in sorted(FINDINGS):
        F = FINDINGS[fid]
        fl = tagged.get(fid, [])
        k = F["flag"]
        pre_fix = best[k] == "0"
        # the tree behaves like the model without this repair, and the variants with it differ on some directory
        differs = any(var_dis[v] > var_dis[best] for v in VARIANTS if v[k] == "1" and v[:k] + v[k + 1:] == best[:k] + best[k + 1:])
        if not fl and not (pre_fix and differs):
            continue
        ent = finding_entry(fid)
        what = "%s %s (implementation matches the pre-fix model variant `%s := false`, witness %s; %d generated " \
               "task(s) of this shape are shown wrongly; repair: %s)" % (fid, F["what"], F["flagname"], F["witness"], len(fl), F["fix"])
        if not pre_fix and fl:
            # the tree matches the repaired model and still shows such a task wrongly
            case, b = fl[0]
            C.violation(ctx, "%s-%s" % (fid, case["idx"]), {"kind": "property-violated-on-implementation", "what": [list(b[:2])],
                                                             "case": case_json(case)})
        elif not pre_fix:
            continue
        elif ent is not None and ent.get("status") == "open":
            C.known(ctx, ent, what)
        elif ent is not None:
            if fl:
                case, b = fl[0]
                C.violation(ctx, "regression-%s-%s" % (fid, case["idx"]), {
                    "kind": "property-violated-on-implementation", "what": [list(b[:2])], "case": case_json(case),
                    "regression_of": ent.get("commit")})
            else:
                C.violation(ctx, "regression-%s" % fid, {"kind": "model-code-disagreement", "what": what,
                                                         "model_variant_disagreements": var_dis}, True)
        else:
            msg = "PENDING-FINDING: property=C06 %s [not yet recorded in known_findings.json]" % what
            ctx.notes.append(msg)
            ctx.coverage.setdefault("pending_findings", []).append(
                {"id": fid, "witness": F["witness"], "proposed_fix": F["fix"], "reproduction": F["repro"],
                 "cases": len(fl), "example_what": fl[0][1][1] if fl else None,
                 "example_case": case_json(fl[0][0]) if fl else None})
            ctx.known_printed.append(msg)
    if proof_broken:
        C.violation(ctx, "proof", {"kind": "proof-obligation-broken", "problems": problems,
                                   "searched": "%d (directory, options) runs; monitor failures %d" % (evaluations, monitor_fail)},
                    no_failing_input=(monitor_fail == 0))
    ctx.coverage.update({
        "evaluations": evaluations, "distinct_nontrivial": len(distinct),
        "rule": "random data directories: 1-6 tasks (main, threads, forked children incl. grand-children) in random info.tids "
                "order, each a random ENTRY/EXIT walk (depth <= 1..8, quick; 40 thorough) possibly stopped with open calls; 45%% of the "
                "directories draw all timestamps from a coarse grid (ties within and across tasks); children start as the return "
                "of a fork()/vfork()/daemon()/posix.fork() the parent is seen to call (20%% of them scheduled late, so that the parent may "
                "have forked again), or at an arbitrary depth; 10%% carry wrong depth fields, 8%% EXITs with nothing open (model "
                "fidelity only, monitors skip them). The symbol table holds plain names, look-alikes of the fix-up names and a random "
                "subset (34%%: all) of the 19 names of fixup_syms[]; 60%% of the directories have one task (13%%: two) that calls "
                "setjmp-family functions and longjmp-family functions back to a live jump point (the last armed one, or with p=0.3 in "
                "a quarter of them an older one = shape of C11-LONGJMP-DEPTH), 35%% have exec*() calls that reset the stack (in two "
                "thirds of those directories an exec may fail and return = shape of C06-EXEC-FAILED). Each directory is replayed in 5 modes: default, --no-merge -f F, -f F, "
                "--tid <1-3 tasks> -f F [--no-merge], --column-view [--column-offset=N] with F = %s, plus 3-4 re-spellings of these "
                "options (repeated / `;` / `=` / blank / permuted / duplicated --tid lists, -fX, --output-fields[=]X, +lists, overridden "
                "-f, option order) whose output must be byte-identical. distinct = distinct record sets with >= 2 records" % FIELDS,
        "input_distribution": dist, "model_code_disagreements": disagreements, "monitor_failures_on_impl": monitor_fail,
        "model_variant": {"matched": best, "meaning": "<forkLatest><orphan><execFail> repair flags of Uft.Replay.Fixes", "directories_differing": var_dis},
        "fixup_syms_in_source": src_tab, "findings_by_shape": {k: len(v) for k, v in tagged.items()},
        "directories": ncase, "exhaustive": False, "samples": samples,
    })
    ctx.assumptions += [
        "user ENTRY/EXIT records only (no kernel, perf, event, LOST records), no filter/trigger/time-range options",
        "per-task timestamps non-decreasing; nesting depth below max_stack (1024)",
        "durations/deltas are compared as the text print_time_unit() produces (exact ns below 1 ms, 3 digits of the unit above)",
        "a longjmp is followed by the second return of the setjmp it targets, at that setjmp's depth; an exec*() that succeeds is "
        "followed by a depth-0 ENTRY (one session: the new image has the same symbol table)",
    ]
    ctx.notes += [
        "--tid <forked child> without its parent task: the child's inherited display depth is lost (the parent is not replayed), "
        "so its first lines are indented differently from the full output; order, names, durations and times are unchanged. "
        "Modelled as is (theorem c06_tid_is_projection has the closure hypothesis; c06_tid_orphan_child_witness shows the difference; "
        "model flag Fixes.orphan = proposed_fixes/C06-TID-ORPHAN.diff); the --tid monitor compares indentation only for "
        "parent-closed selections.",
        "the second return of a setjmp() is printed with the time since the abandoned callee at that level was entered "
        "(its stack slot was reused): modelled as coded, the duration monitor skips these lines.",
    ]
    return C.finish(ctx)


def replay(ctx, path):
    """re-run the stored case against the current tree and the model"""
    r = json.load(open(path))
    if "case" not in r:
        print(json.dumps(r, indent=1))
        return 0
    case = case_from_json(r["case"])
    okm, log = ctx.make()
    uft = os.path.join(ctx.src, "uftrace")
    if not okm:
        print("build failed\n" + log[-2000:])
        return 2
    root = os.path.join(ctx.scratch, "dirs")
    os.makedirs(root, exist_ok=True)
    raw, mres, mlines = evaluate(ctx, [case], uft, root)
    res, mism, bad = assess(case, raw[0], mres)
    for mode in case["modes"]:
        print("== uftrace replay %s  (rc=%s)" % (" ".join(mode_args(case, mode)), raw[0][0][mode][0]))
        print(raw[0][0][mode][1])
        for fx in sorted({rep_variant(case, v) for v in VARIANTS}):
            print("   model %s: %s" % (fx, mres[(case["idx"], mode, fx)]))
    for mode, args, (rc, out, err) in raw[0][1]:
        print("== form of %s: uftrace replay %s  (rc=%s) %s" % (mode, " ".join(args), rc, "same output" if (rc, out, err) == tuple(raw[0][0][mode]) else "DIFFERENT:\n" + out + err))
    best = min(VARIANTS, key=lambda fx: (len(mism[fx]), VARIANTS.index(fx)))
    print("monitor failures:", json.dumps([list(b) for b in bad], indent=1))
    print("model/implementation differences (variant %s):" % best, json.dumps(mism[best], indent=1))
    return 1 if ([b for b in bad if b[2] is None] or mism[best]) else 0
