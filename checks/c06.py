"""C06 — Replay shows all tasks in time order with correct nesting and durations.
Lean: Uft/Model/Merge.lean, Uft/Model/Replay.lean, Uft/Props/C06.lean.
Tie: correspondence (H3): data directories synthesized with lib/datadir.py (1-6 tasks, threads and
forked children, forced timestamp ties, open calls at the end) are replayed by the snapshot's
`uftrace replay` in five modes (default, --no-merge, -f <all time fields>, --tid, --column-view);
the printed graph is parsed back into canonical lines and compared with the model's lines, and
monitors evaluate the property itself on the implementation's output."""
import hashlib
import json
import os
import re
import shutil
from concurrent.futures import ThreadPoolExecutor

from lib import common as C
from lib import datadir as D

FIELDS = "time,delta,elapsed,tid,duration,addr"
FORKLIKE = ("fork", "vfork", "daemon")
NAMES = ["main", "alpha", "beta", "gamma", "delta", "eps", "zeta", "eta"] + list(FORKLIKE)
T0 = 2000           # every record is later than the TASK/FORK lines of task.txt


# ---------------------------------------------------------------- formatting as print_time_unit()
def fmt_unit(ns):
    """utils/debug.c __print_time_unit(): '%3d.%03d %2s', blank for 0."""
    if ns == 0:
        return ""
    units = ["us", "ms", " s", " m", " h"]
    limit = [1000, 1000, 1000, 60, 24, 1 << 31]
    delta, small = ns, 0
    idx = 0
    for idx in range(len(units)):
        small = delta % limit[idx]
        delta = delta // limit[idx]
        if delta < limit[idx + 1]:
            break
    if delta > 999:
        delta = small = 999
    return "%3d.%03d %s" % (delta, small, units[idx])


# ---------------------------------------------------------------- case generator
class TaskDesc:
    def __init__(self, tid, kind, parent=None):
        self.tid, self.kind, self.parent = tid, kind, parent     # kind: 'main' | 'thread' | 'child'
        self.recs = []          # (typ, time, depthfield, addr)
        self.true_depth = []    # nesting depth of each record in the process stack, None if ill-formed
        self.match = []         # for X: index of its E in recs (or None = inherited frame)
        self.wellformed = True
        self.open = []          # addresses of calls open at the end, outermost first (own ENTRYs only)
        self.inherited = 0      # frames inherited at start
        self.fork_time = None


def walk(rng, td, start_frames, first_exit_addr, t, step, nrec, maxdepth, addrs, fork_addrs, p_fork, jitter, extra_exit,
         p_entry=0.55):
    """random ENTRY/EXIT walk; `start_frames` inherited open frames (a forked child)."""
    stack = [None] * start_frames        # entries: index into td.recs or None (inherited)
    td.inherited = start_frames
    if start_frames and first_exit_addr is not None:
        stack.pop()
        td.recs.append(("X", t, len(stack), first_exit_addr))
        td.true_depth.append(len(stack))
        td.match.append(None)
    leaf_next = False
    while len(td.recs) < nrec:
        t += step()
        d = len(stack)
        if leaf_next:
            kind = "X"
        elif d == 0:
            kind = "E" if not (extra_exit and rng.random() < 0.15) else "XX"
        elif d >= maxdepth:
            kind = "X"
        else:
            kind = "E" if rng.random() < p_entry else "X"
        leaf_next = False
        if kind == "E":
            a = rng.choice(fork_addrs) if (fork_addrs and rng.random() < p_fork) else rng.choice(addrs)
            df = d
            if jitter and rng.random() < 0.08:
                df = max(0, d + rng.choice([-1, 1]))
                td.wellformed = False
            stack.append(len(td.recs))
            td.recs.append(("E", t, df, a))
            td.true_depth.append(d)
            td.match.append(None)
            leaf_next = rng.random() < (0.45 if p_entry < 0.7 else 0.15)
        elif kind == "X":
            top = stack.pop()
            a = td.recs[top][3] if top is not None else rng.choice(addrs)
            df = len(stack)
            if jitter and rng.random() < 0.08:
                df = max(0, df + rng.choice([-1, 1]))
                td.wellformed = False
            td.recs.append(("X", t, df, a))
            td.true_depth.append(len(stack))
            td.match.append(top)
        else:   # an EXIT with nothing open (ill-formed stream)
            td.wellformed = False
            td.recs.append(("X", t, 0, rng.choice(addrs)))
            td.true_depth.append(None)
            td.match.append(None)
    td.open = [td.recs[i][3] for i in stack if i is not None]
    td.open_frames = len(stack)
    return t


def gen_case(rng, idx, tier):
    """one data directory description + the option sets to run"""
    r = rng.random()
    ntask = 1 if r < 0.08 else rng.randint(2, 6)
    ties = rng.random() < 0.45
    jitter = rng.random() < 0.10
    extra_exit = rng.random() < 0.08
    big = tier == "thorough" and rng.random() < 0.2
    maxdepth = rng.choice([1, 2, 3, 5, 8] + ([40] if big else []))
    p_entry = 0.8 if rng.random() < 0.25 else 0.55
    syms = [(0x100 * (k + 1), 0x40, n) for k, n in enumerate(NAMES)]
    addr = {n: D.BASE + rel for rel, _, n in syms}
    normal = [addr[n] for n in NAMES if n not in FORKLIKE]
    forks = [addr[n] for n in FORKLIKE]
    tids = rng.sample(range(100, 30000), ntask)

    if ties:
        grid = rng.choice([1, 10, 100])
        def step():
            return grid * rng.choice([0, 0, 0, 1, 1, 2])
    else:
        def step():
            x = rng.random()
            if x < 0.85:
                return rng.randint(1, 900)
            if x < 0.95:
                return rng.randint(1000, 2000000)
            return rng.randint(10 ** 6, 7 * 10 ** 10)

    tasks = []
    for k in range(ntask):
        nrec = rng.choice(([] if k == 0 else [0]) + [1, 2, 3, 6, 12, 25] + ([120] if big else []))
        if k == 0:
            td = TaskDesc(tids[k], "main")
        elif rng.random() < 0.5:
            td = TaskDesc(tids[k], "thread", parent=tasks[0].tid if rng.random() < 0.8 else rng.choice(tasks).tid)
        else:
            td = TaskDesc(tids[k], "child", parent=rng.choice(tasks).tid)
        t = T0 + (rng.randint(0, 3) * (grid if ties else rng.randint(0, 3000)))
        if td.kind == "child":
            par = next(x for x in tasks if x.tid == td.parent)
            fcalls = [(i, rc) for i, rc in enumerate(par.recs) if rc[0] == "E" and rc[3] in forks and par.true_depth[i] is not None]
            x = rng.random()
            if fcalls and x < 0.75:          # returns from a fork() the parent is seen to call
                i, rc = rng.choice(fcalls)
                dt = rng.choice([0, 0, 1]) * (grid if ties else 1) if rng.random() < 0.4 else step()
                t = rc[1] + dt
                start = par.true_depth[i] + 1
                walk(rng, td, start, rc[3], t, step, max(nrec, 1), max(maxdepth, start), normal, forks, 0.1, jitter, extra_exit, p_entry)
                td.proper_fork = (i, rc)
            else:                             # a child whose parent's fork() is not in the data
                start = rng.randint(0, 3)
                walk(rng, td, start, rng.choice(forks) if (start and rng.random() < 0.8) else None, t, step, nrec,
                     max(maxdepth, start), normal, forks, 0.1, jitter, extra_exit, p_entry)
                td.proper_fork = None
        else:
            walk(rng, td, 0, None, t, step, nrec, maxdepth, normal, forks, 0.25 if k == 0 else 0.08, jitter, extra_exit, p_entry)
            td.proper_fork = None
        tasks.append(td)

    order = list(range(ntask))
    if rng.random() < 0.6:
        rng.shuffle(order)               # info.tids order = merge index order
    modes = ["default", "nomerge", "fields", "tid", "column"]
    sel = sorted(rng.sample(range(ntask), rng.choice([1, 1, 2]) if ntask > 1 else 1))
    return {
        "idx": idx, "syms": syms, "tasks": tasks, "order": order, "ties": ties, "jitter": jitter,
        "extra_exit": extra_exit, "maxdepth": maxdepth, "forks": forks, "sel": sel,
        "col_off": rng.choice([None, None, 3, 5]), "tid_extra": rng.choice([[], ["--no-merge"], []]), "modes": modes,
    }


def task_txt(case):
    tasks = case["tasks"]
    main = tasks[0]
    lines = ['SESS timestamp=%s pid=%d sid=%s exename="%s"' % (D.ts(1000), main.tid, D.SID, D.EXE)]
    for k, td in enumerate(tasks):
        if td.kind == "child":
            lines.append("FORK timestamp=%s pid=%d ppid=%d" % (D.ts(1002 + k), td.tid, td.parent))
        else:
            pid = main.tid if td.kind == "main" else td.parent
            # a thread's pid is its process: the main task or the forked child it belongs to
            lines.append("TASK timestamp=%s tid=%d pid=%d" % (D.ts(1001 + (k > 0)), td.tid, pid))
    return ("\n".join(lines) + "\n").encode()


def ordered(case):
    return [case["tasks"][k] for k in case["order"]]


def write_dir(case, d):
    ts = ordered(case)
    dd = D.DataDir(case["syms"], [D.Task(td.tid, [D.Rec(t, typ, dep, a) for typ, t, dep, a in td.recs]) for td in ts])
    shutil.rmtree(d, ignore_errors=True)
    dd.write(d, overrides={"task.txt": task_txt(case)})


def mode_args(case, mode):
    ts = ordered(case)
    if mode == "default":
        return []
    if mode == "nomerge":
        return ["--no-merge", "-f", FIELDS]
    if mode == "fields":
        return ["-f", FIELDS]
    if mode == "tid":
        return ["--tid", ",".join(str(ts[i].tid) for i in case["sel"]), "-f", FIELDS] + case["tid_extra"]
    if mode == "column":
        return ["--column-view"] + (["--column-offset=%d" % case["col_off"]] if case["col_off"] is not None else [])
    raise ValueError(mode)


def parent_index(case, td):
    """get_task_handle(h, t->ppid): only FORK lines give a ppid"""
    if td.kind != "child":
        return None
    for i, x in enumerate(ordered(case)):
        if x.tid == td.parent:
            return i
    return None


def model_line(case, mode):
    ts = ordered(case)
    merge = "0" if (mode == "nomerge" or (mode == "tid" and "--no-merge" in case["tid_extra"])) else "1"
    col = "0"
    if mode == "column":
        col = str(8 if case["col_off"] is None else case["col_off"])
    sel = ",".join(str(i) for i in case["sel"]) if mode == "tid" else "-"
    w = ["R", merge, col, ",".join(str(a) for a in case["forks"]), sel]
    for td in ts:
        p = parent_index(case, td)
        w += ["|", "-" if p is None else str(p)] + ["%s:%d:%d:%d" % (typ, t, dep, a) for typ, t, dep, a in td.recs]
    return " ".join(w)


# ---------------------------------------------------------------- parsing uftrace's output
BODY_E = re.compile(r"^(\S+)\(\) \{$")
BODY_L = re.compile(r"^(\S+)\(\);$")
BODY_X = re.compile(r"^\} /\* (\S+) \*/$")


def parse_output(text, with_fields, name2addr):
    """-> (lines, remaining, problems); a line is a dict kind,tid,indent,fn,dur(text)[,addr,time,delta,elapsed]"""
    lines, rem, problems = [], [], []
    rows = text.split("\n")
    i = 0
    n = len(rows)
    while i < n:
        row = rows[i]
        i += 1
        if row.startswith("#") or row == "":
            continue
        if row.startswith("uftrace stopped tracing with remaining functions"):
            break
        bar = row.find(" | ")
        if bar < 0:
            problems.append("unparsed line: %r" % row)
            continue
        left, right = row[:bar], row[bar + 3:]
        ind = len(right) - len(right.lstrip(" "))
        body = right[ind:]
        e = {}
        try:
            e["dur"] = left[1:11].strip()
            e["tid"] = int(left[12:21].strip("[] "))
            if with_fields:
                a = left[22:34].strip()
                e["addr"] = int(a, 16) if a else None
                sec, nsec = left[35:53].strip().split(".")
                e["time"] = int(sec) * 10 ** 9 + int(nsec)
                e["delta"] = left[54:64].strip()
                e["elapsed"] = left[65:75].strip()
                if len(left) != 75:
                    problems.append("field area has width %d: %r" % (len(left), row))
            elif len(left) != 21:
                problems.append("field area has width %d: %r" % (len(left), row))
        except (ValueError, IndexError):
            problems.append("unparsed fields: %r" % row)
            continue
        m = BODY_E.match(body)
        if m:
            e["kind"] = "e"
        else:
            m = BODY_L.match(body)
            if m:
                e["kind"] = "l"
            else:
                m = BODY_X.match(body)
                if m:
                    e["kind"] = "x"
        if not m:
            problems.append("unparsed graph part: %r" % row)
            continue
        if ind % 2:
            problems.append("odd indentation: %r" % row)
        e["indent2"] = ind
        e["fn"] = name2addr.get(m.group(1), m.group(1))
        lines.append(e)
    # remaining functions
    cur = None
    while i < n:
        row = rows[i]
        i += 1
        if row.startswith("====") or row == "":
            continue
        m = re.match(r"^task: (\d+)$", row)
        if m:
            cur = (int(m.group(1)), [])
            rem.append(cur)
            continue
        m = re.match(r"^\[(\d+)\] (\S+)$", row)
        if m and cur is not None:
            cur[1].append((int(m.group(1)), name2addr.get(m.group(2), m.group(2))))
            continue
        problems.append("unparsed remaining-stack line: %r" % row)
    return lines, rem, problems


def canon_impl(lines, rem, with_fields):
    out = []
    for e in lines:
        c = [e["kind"], e["tid"], e["indent2"], e["fn"], e["dur"]]
        if with_fields:
            c += [e["addr"], e["time"], e["delta"], e["elapsed"]]
        out.append(tuple(c))
    return out, [(t, tuple(l)) for t, l in rem]


def canon_model(mline, tids, with_fields):
    """model output line -> same canonical form"""
    if " # " in mline + " ":
        evpart, _, rempart = (mline + " ").partition(" # ")
    else:
        evpart, rempart = mline, ""
    evpart = evpart.strip()
    if evpart.startswith("#"):
        evpart, rempart = "", evpart[1:]
    out = []
    for item in [x for x in evpart.split(" ; ") if x.strip()]:
        k, task, ind, fn, addr, dur, time, delta, elapsed = item.split()
        c = [k, tids[int(task)], 2 * int(ind), int(fn), fmt_unit(int(dur)).strip()]
        if with_fields:
            c += [int(addr), int(time), fmt_unit(int(delta)).strip(), fmt_unit(int(elapsed)).strip()]
        out.append(tuple(c))
    rem = []
    for item in [x for x in rempart.split(" ; ") if x.strip()]:
        w = item.split()
        rem.append((tids[int(w[0])], tuple((int(q.split(":")[0]), int(q.split(":")[1])) for q in w[1:])))
    return out, rem


# ---------------------------------------------------------------- the property, on the implementation's output
def unfold_impl(lines):
    """canonical with-fields lines; a folded leaf stands for its ENTRY and EXIT lines"""
    out = []
    for e in lines:
        if e["kind"] != "l":
            out.append(dict(e))
            continue
        a = dict(e, kind="e", dur="")
        b = dict(e, kind="x")
        b["time"] = None        # the EXIT's own timestamp is not printed; compared through dur
        out += [a, b]
    return out


def monitors(case, res):
    """res: mode -> (lines, rem).  Returns list of (name, description)."""
    bad = []
    ts = ordered(case)
    tids = [td.tid for td in ts]
    idx_of = {td.tid: i for i, td in enumerate(ts)}
    by_tid = {td.tid: td for td in ts}
    nm = res.get("nomerge")
    if nm is None:
        return bad
    L = nm[0]
    # (1) every record of every task shown exactly once, each task in its own order
    for td in ts:
        mine = [e for e in L if e["tid"] == td.tid]
        exp = [("e" if typ == "E" else "x", a, t) for typ, t, dep, a in td.recs]
        got = [(e["kind"], e["fn"], e["time"]) for e in mine]
        if got != exp:
            bad.append(("per-task-order", "task %d: --no-merge shows %d lines that are not its %d records in order" % (td.tid, len(got), len(exp))))
            break
    # (2) global time order, ties: lowest task index first
    keys = [(e["time"], idx_of.get(e["tid"], -1)) for e in L]
    for a, b in zip(keys, keys[1:]):
        if b < a:
            bad.append(("merge-order", "line (time=%d, task#%d) is printed before (time=%d, task#%d)" % (a[0], a[1], b[0], b[1])))
            break
    # (3) indentation = nesting depth (the record's depth in its process stack) for well-formed tasks
    first_seen = {}
    for pos, e in enumerate(L):
        first_seen.setdefault(e["tid"], pos)
    for td in ts:
        if not td.wellformed:
            continue
        if td.kind == "child":
            if not td.proper_fork:
                continue
            par = by_tid[td.parent]
            if not par.wellformed or par.kind == "child":
                continue
            # the parent's fork() line must be printed before the child's first line
            fpos = next((p for p, e in enumerate(L) if e["tid"] == par.tid and e["kind"] == "e" and e["time"] == td.proper_fork[1][1]
                         and e["fn"] == td.proper_fork[1][3]), None)
            anyfork = next((p for p, e in enumerate(L) if e["tid"] == par.tid and e["kind"] == "e" and e["fn"] in case["forks"]), None)
            if fpos is None or td.tid not in first_seen or not (fpos < first_seen[td.tid]):
                continue
            # the inherited depth is that of the parent's most recent fork() before the child's first line
            last = [p for p, e in enumerate(L) if p < first_seen[td.tid] and e["tid"] == par.tid and e["kind"] == "e" and e["fn"] in case["forks"]]
            if last[-1] != fpos:
                continue
        mine = [e for e in L if e["tid"] == td.tid]
        for e, d in zip(mine, td.true_depth):
            if d is not None and e["indent2"] != 2 * d:
                bad.append(("indent-is-depth", "task %d: %s of %s at time %d has nesting depth %d but is printed at indent %d" % (
                    td.tid, e["kind"], e["fn"], e["time"], d, e["indent2"] // 2)))
                break
    # (4) duration = exit - entry
    for td in ts:
        mine = [e for e in L if e["tid"] == td.tid]
        if len(mine) != len(td.recs):
            continue
        for k, (e, rc) in enumerate(zip(mine, td.recs)):
            if rc[0] == "X" and td.match[k] is not None and td.wellformed:
                want = fmt_unit(rc[1] - td.recs[td.match[k]][1]).strip()
                if e["dur"] != want:
                    bad.append(("duration-exact", "task %d: call %s entered %d left %d is shown with duration %r, expected %r" % (
                        td.tid, rc[3], td.recs[td.match[k]][1], rc[1], e["dur"], want)))
                    break
            if rc[0] == "E" and e["dur"] != "":
                bad.append(("duration-exact", "an ENTRY line shows a duration"))
                break
    # (4b) the time fields: delta = since the task's previous line, elapsed = since the first record
    for mode in ("nomerge", "fields"):
        if mode not in res or not res[mode][0]:
            continue
        LL = res[mode][0]
        alltimes = [rc[1] for td in ts for rc in td.recs[:1]]
        first = min(alltimes) if alltimes else 0
        prev = {}
        for e in LL:
            want_d = fmt_unit(e["time"] - prev[e["tid"]]).strip() if prev.get(e["tid"]) else ""
            want_e = fmt_unit(e["time"] - first).strip()
            prev[e["tid"]] = e["time"]
            if e["delta"] != want_d or e["elapsed"] != want_e:
                bad.append(("time-fields", "%s: line of task %d at time %d shows delta %r elapsed %r, expected %r %r" % (
                    mode, e["tid"], e["time"], e["delta"], e["elapsed"], want_d, want_e)))
                break
    # (5) folding is presentation only
    def strip(e, keys):
        return tuple(e.get(k) for k in keys)
    fl = res.get("fields")
    if fl is not None:
        u = unfold_impl(fl[0])
        k5 = ("kind", "tid", "indent2", "fn", "dur", "addr")
        if [strip(e, k5) for e in u] != [strip(e, k5) for e in L]:
            bad.append(("folding-is-presentation", "unfolding the default output does not give the --no-merge output"))
        elif [e["time"] for e in u if e["time"] is not None] != [e["time"] for e, f in zip(L, u) if f["time"] is not None]:
            bad.append(("folding-is-presentation", "timestamps differ between folded and --no-merge output"))
        if fl[1] != nm[1]:
            bad.append(("folding-is-presentation", "remaining-functions listing differs between default and --no-merge"))
        # leaves are folded only when the EXIT is the very next line
        df = res.get("default")
        if df is not None:
            k4 = ("kind", "tid", "indent2", "fn", "dur")
            if [strip(e, k4) for e in df[0]] != [strip(e, k4) for e in fl[0]] or df[1] != fl[1]:
                bad.append(("fields-are-projection", "-f %s changes the calls shown" % FIELDS))
    # (6) --tid = projection
    td_ = res.get("tid")
    if td_ is not None:
        selt = [tids[i] for i in case["sel"]]
        u = unfold_impl(td_[0])
        want = [e for e in L if e["tid"] in selt]
        closed = all(parent_index(case, ts[i]) is None or parent_index(case, ts[i]) in case["sel"] for i in case["sel"])
        k6 = ("kind", "tid", "fn", "dur", "addr") + (("indent2",) if closed else ())
        if [strip(e, k6) for e in u] != [strip(e, k6) for e in want]:
            bad.append(("tid-is-projection", "--tid %s output is not the full output restricted to these tasks" % selt))
        else:
            tw = [e["time"] for e, f in zip(want, u) if f["time"] is not None]
            if [e["time"] for e in u if e["time"] is not None] != tw:
                bad.append(("tid-is-projection", "--tid changes timestamps"))
            ew = [e["elapsed"] for e, f in zip(want, u) if f["time"] is not None and f["kind"] != "x"]
            if [e["elapsed"] for e in u if e["time"] is not None and e["kind"] != "x"] != ew and "--no-merge" in case["tid_extra"]:
                bad.append(("tid-is-projection", "--tid changes the elapsed field"))
        if td_[1] != [x for x in nm[1] if x[0] in selt]:
            bad.append(("tid-is-projection", "--tid changes the remaining-functions listing of the selected tasks"))
    # (7) --column-view shifts each task by a constant column
    cv = res.get("column")
    df = res.get("default")
    if cv is not None and df is not None:
        off = 8 if case["col_off"] is None else case["col_off"]
        cols = {}
        ok = len(cv[0]) == len(df[0])
        for a, b in zip(cv[0], df[0]):
            c = cols.setdefault(a["tid"], len(cols))
            if (a["kind"], a["tid"], a["fn"], a["dur"]) != (b["kind"], b["tid"], b["fn"], b["dur"]) or a["indent2"] != b["indent2"] + 2 * off * c:
                ok = False
        if not ok or cv[1] != df[1]:
            bad.append(("column-view-is-presentation", "--column-view changes more than each task's column"))
    # (8) calls still open at the end are listed, innermost first
    for td in ts:
        if not td.wellformed:
            continue
        lst = dict(nm[1]).get(td.tid)
        want = [(k, a) for k, a in reversed(list(enumerate(td.open)))]
        if list(lst or []) != want:
            bad.append(("open-calls-listed", "task %d: open calls %s, listed %s" % (td.tid, want, lst)))
            break
    return bad


# ---------------------------------------------------------------- running
def case_json(case):
    return {
        "tasks_in_creation_order": [{
            "tid": td.tid, "kind": td.kind, "parent": td.parent,
            "records": ["%s:%d:%d:%s" % (typ, t, dep, hex(a)) for typ, t, dep, a in td.recs],
            "meta": {"true_depth": td.true_depth, "match": td.match, "wellformed": td.wellformed, "open": td.open,
                     "inherited": td.inherited, "proper_fork": (list(td.proper_fork[1]) if td.proper_fork else None)},
        } for td in case["tasks"]],
        "info_tids_order": case["order"], "task_txt": task_txt(case).decode(),
        "symbols": [[r, sz, n] for r, sz, n in case["syms"]], "forks": case["forks"],
        "sel": case["sel"], "col_off": case["col_off"], "tid_extra": case["tid_extra"], "modes": case["modes"],
        "flags": {k: case[k] for k in ("ties", "jitter", "extra_exit", "maxdepth")},
    }


def case_from_json(j, idx=0):
    tasks = []
    for t in j["tasks_in_creation_order"]:
        td = TaskDesc(t["tid"], t["kind"], t["parent"])
        for w in t["records"]:
            typ, tm, dep, a = w.split(":")
            td.recs.append((typ, int(tm), int(dep), int(a, 16)))
        m = t["meta"]
        td.true_depth, td.match, td.wellformed, td.open, td.inherited = m["true_depth"], m["match"], m["wellformed"], m["open"], m["inherited"]
        td.proper_fork = (None, tuple(m["proper_fork"])) if m["proper_fork"] else None
        tasks.append(td)
    case = {"idx": idx, "syms": [tuple(x) for x in j["symbols"]], "tasks": tasks, "order": j["info_tids_order"],
            "forks": j["forks"], "sel": j["sel"], "col_off": j["col_off"], "tid_extra": j["tid_extra"], "modes": j["modes"]}
    case.update(j["flags"])
    return case


def run_case_modes(uft, case, root):
    d = os.path.join(root, "c%d" % case["idx"])
    write_dir(case, d)
    out = {}
    for mode in case["modes"]:
        out[mode] = D.run_uftrace(uft, "replay", d, mode_args(case, mode), timeout=30)
    shutil.rmtree(d, ignore_errors=True)
    return out


def evaluate(ctx, cases, uft, root):
    with ThreadPoolExecutor(max_workers=12) as ex:
        raw = list(ex.map(lambda c: run_case_modes(uft, c, root), cases))
    mlines, keys = [], []
    for case in cases:
        for mode in case["modes"]:
            mlines.append(model_line(case, mode))
            keys.append((case["idx"], mode))
    mout = C.run_model("C06", mlines)
    if len(mout) != len(mlines):
        raise RuntimeError("uvmodel C06 returned %d lines for %d queries" % (len(mout), len(mlines)))
    return raw, dict(zip(keys, mout)), dict(zip(keys, mlines))


def assess(case, rr, mres):
    """-> (res, mismatches, bad): parsed output per mode, model/impl differences, monitor failures"""
    ts = ordered(case)
    tids = [td.tid for td in ts]
    name2addr = {n: D.BASE + r for r, _, n in case["syms"]}
    res, mism, crashed = {}, [], []
    for mode in case["modes"]:
        rc, out, err = rr[mode]
        wf = mode not in ("default", "column")
        if rc != 0 or err.strip():
            crashed.append((mode, rc, err[-300:]))
            continue
        lines, rem, probs = parse_output(out, wf, name2addr)
        if probs:
            crashed.append((mode, "parse", probs[:3]))
        res[mode] = (lines, rem)
        ci = canon_impl(lines, rem, wf)
        cm = canon_model(mres[(case["idx"], mode)], tids, wf)
        if ci != cm:
            k = next((i for i, (a, b) in enumerate(zip(ci[0], cm[0])) if a != b), min(len(ci[0]), len(cm[0])))
            mism.append({"mode": mode, "args": mode_args(case, mode), "first_difference_at_line": k,
                         "impl": [list(x) for x in ci[0][k:k + 3]], "model": [list(x) for x in cm[0][k:k + 3]],
                         "impl_remaining": ci[1], "model_remaining": cm[1]})
    if crashed:
        bad = [("output", "uftrace replay failed or printed something unparsable: %r" % (crashed[:2],))]
    else:
        bad = monitors(case, res)
    return res, mism, bad


def closed_sel(case):
    ts = ordered(case)
    return all(parent_index(case, ts[i]) is None or parent_index(case, ts[i]) in case["sel"] for i in case["sel"])


def run(ctx):
    ok, problems = C.prove(ctx, "C06")
    proof_broken = not ok
    okm, log = ctx.make()
    uft = os.path.join(ctx.src, "uftrace")
    if not okm or not os.path.exists(uft):
        C.violation(ctx, "build", {"kind": "harness-build-failed", "log": log[-3000:]}, True)
        return C.finish(ctx)
    rng = ctx.rng
    ncase = 400 if ctx.tier == "quick" else 40000
    root = os.path.join(ctx.scratch, "dirs")
    os.makedirs(root, exist_ok=True)

    evaluations = disagreements = monitor_fail = replays = 0
    distinct = set()
    dist = {"tasks": {}, "with_ties": 0, "cross_task_ties": 0, "with_fork_child": 0, "proper_fork_child": 0, "with_threads": 0,
            "with_open_calls": 0, "depth_field_jitter": 0, "unbalanced_exit": 0, "max_depth": 0, "records": 0,
            "folded_leaves": 0, "unfolded_leaf_because_other_task_between": 0, "tid_selection_not_parent_closed": 0,
            "child_first_index_lower_than_parent": 0}
    samples = []
    done = 0
    while done < ncase:
        chunk = [gen_case(rng, done + i, ctx.tier) for i in range(min(1000, ncase - done))]
        done += len(chunk)
        raw, mres, mlines = evaluate(ctx, chunk, uft, root)
        for case, rr in zip(chunk, raw):
            ts = ordered(case)
            evaluations += len(case["modes"])
            res, mism, bad = assess(case, rr, mres)
            # statistics
            if sum(len(td.recs) for td in ts) >= 2:
                distinct.add(hashlib.sha1(json.dumps([[td.tid, td.kind, td.parent, td.recs] for td in ts]).encode()).hexdigest())
            dist["tasks"][len(ts)] = dist["tasks"].get(len(ts), 0) + 1
            dist["with_ties"] += case["ties"]
            seen, cross = {}, False
            for i, td in enumerate(ts):
                for _, t, _, _ in td.recs:
                    if seen.setdefault(t, i) != i:
                        cross = True
            dist["cross_task_ties"] += cross
            dist["with_fork_child"] += any(td.kind == "child" for td in ts)
            dist["proper_fork_child"] += any(td.kind == "child" and td.proper_fork for td in ts)
            dist["child_first_index_lower_than_parent"] += any(
                td.kind == "child" and parent_index(case, td) is not None and parent_index(case, td) > i for i, td in enumerate(ts))
            dist["with_threads"] += any(td.kind == "thread" for td in ts)
            dist["with_open_calls"] += any(td.open for td in ts)
            dist["depth_field_jitter"] += case["jitter"]
            dist["unbalanced_exit"] += case["extra_exit"]
            dist["max_depth"] = max([dist["max_depth"]] + [d for td in ts for d in td.true_depth if d is not None])
            dist["records"] += sum(len(td.recs) for td in ts)
            if "fields" in res and "nomerge" in res:
                nl = sum(1 for e in res["fields"][0] if e["kind"] == "l")
                dist["folded_leaves"] += nl
                L = res["nomerge"][0]
                adj = 0
                for td in ts:
                    adj += sum(1 for ra, rb in zip(td.recs, td.recs[1:]) if ra[0] == "E" and rb[0] == "X" and ra[2] == rb[2])
                dist["unfolded_leaf_because_other_task_between"] += adj - nl
            dist["tid_selection_not_parent_closed"] += not closed_sel(case)
            if len(samples) < 3 and case["idx"] % 41 == 7:
                samples.append({"model_input": mlines[(case["idx"], "default")][:400], "impl_default_output": rr["default"][1][:600]})
            disagreements += bool(mism)
            monitor_fail += bool(bad)
            if (bad or mism) and replays < 3:
                replays += 1
                C.violation(ctx, "case%d" % case["idx"], {
                    "kind": "property-violated-on-implementation" if bad else "model-code-disagreement",
                    "what": [list(b) for b in bad], "case": case_json(case),
                    "model_vs_impl": mism[:3],
                    "model_inputs": {m: mlines[(case["idx"], m)] for m in case["modes"]},
                    "theorem": "c06_* (Props/C06.lean) / correspondence Merge+Replay",
                }, no_failing_input=not bad)
    if proof_broken:
        C.violation(ctx, "proof", {"kind": "proof-obligation-broken", "problems": problems,
                                   "searched": "%d (directory, mode) runs; monitor failures %d" % (evaluations, monitor_fail)},
                    no_failing_input=(monitor_fail == 0))
    ctx.coverage.update({
        "evaluations": evaluations, "distinct_nontrivial": len(distinct),
        "rule": "random data directories: 1-6 tasks (main, threads, forked children incl. grand-children) in random info.tids "
                "order, each a random ENTRY/EXIT walk (depth <= 1..8, quick; 40 thorough) possibly stopped with open calls; 45%% of the "
                "directories draw all timestamps from a coarse grid (ties within and across tasks); children start as the return "
                "of a fork()/vfork()/daemon() the parent is seen to call, or at an arbitrary depth; 10%% carry wrong depth fields, "
                "8%% EXITs with nothing open (model fidelity only, monitors skip them). Each directory is replayed in 5 modes: "
                "default, --no-merge -f F, -f F, --tid <1-2 tasks> -f F [--no-merge], --column-view [--column-offset=N] with "
                "F = %s. distinct = distinct record sets with >= 2 records" % FIELDS,
        "input_distribution": dist, "model_code_disagreements": disagreements, "monitor_failures_on_impl": monitor_fail,
        "directories": ncase, "exhaustive": False, "samples": samples,
    })
    ctx.assumptions += [
        "user ENTRY/EXIT records only (no kernel, perf, event, LOST records), no filter/trigger/time-range options",
        "per-task timestamps non-decreasing; nesting depth below max_stack (1024)",
        "durations/deltas are compared as the text print_time_unit() produces (exact ns below 1 ms, 3 digits of the unit above)",
    ]
    ctx.notes += [
        "--tid <forked child> without its parent task: the child's inherited display depth is lost (the parent is not replayed), "
        "so its first lines are indented differently from the full output; order, names, durations and times are unchanged. "
        "Modelled as is (theorem c06_tid_is_projection has the closure hypothesis; c06_tid_orphan_child_witness shows the difference); "
        "the --tid monitor compares indentation only for parent-closed selections.",
    ]
    return C.finish(ctx)


def replay(ctx, path):
    """re-run the stored case against the current tree and the model"""
    r = json.load(open(path))
    if "case" not in r:
        print(json.dumps(r, indent=1))
        return 0
    case = case_from_json(r["case"])
    okm, log = ctx.make()
    uft = os.path.join(ctx.src, "uftrace")
    if not okm:
        print("build failed\n" + log[-2000:])
        return 2
    root = os.path.join(ctx.scratch, "dirs")
    os.makedirs(root, exist_ok=True)
    raw, mres, mlines = evaluate(ctx, [case], uft, root)
    res, mism, bad = assess(case, raw[0], mres)
    for mode in case["modes"]:
        print("== uftrace replay %s  (rc=%s)" % (" ".join(mode_args(case, mode)), raw[0][mode][0]))
        print(raw[0][mode][1])
        print("   model: " + mres[(case["idx"], mode)])
    print("monitor failures:", json.dumps([list(b) for b in bad], indent=1))
    print("model/implementation differences:", json.dumps(mism, indent=1))
    return 1 if (bad or mism) else 0
