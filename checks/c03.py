"""C03 — No record is lost, duplicated or torn between tracee and recorder.
Lean: Uft/Model/{Writers,Shmem,Crash}.lean, Uft/Lemmas/{Writers,Shmem}.lean, Uft/Props/C03.lean.
Tie (a) H1: the real libmcount (record.c, misc.c, mcount.c, utils/shmem.c) as the producer, driven in-process
        by harness/h1_c03_driver.c under a scripted schedule with tiny buffers and injected allocation
        failures; the driver plays the recorder by hand against the real shared memory and FIFO; the whole
        state (buffer flags and contents, curr, losts, messages, queues, files) is compared with the model
        after every step.
    (b) e2e: generated multi-threaded programs with a ground-truth log run under the snapshot's real
        `uftrace record -b 4k --num-thread N`; every <tid>.dat is decoded and compared with the thread's log.
    (c) e2e identity: generated programs whose threads vfork (+_exit / +exec in the child), fork (the child traces
        on), pthread_exit from nested calls and exec from a non-initial thread, each inside two open traced calls and
        followed by enough calls to fill several 4k buffers; ground truth per thread / child / image from the program's
        own log; monitor = C03's statement per <tid>.dat (corpus/C03/identity_scripts.json first).
    (d) vfork probes (control / another thread returns from a library call during the vfork / second vfork from an
        uninstrumented caller) against the identity machine Shmem.idRun (c03_messages_carry_own_tid and the two
        pre-fix witnesses); a tree that behaves like a pre-fix variant is reported per finding (open entry of
        known_findings.json -> KNOWN-FINDING, fixed entry -> VIOLATION, no entry yet -> PENDING-FINDING, exit 0).
    (e) H2 writer pool: harness/c03_writer.c #includes the snapshot's cmds/record.c; read_record_mmap (REC_START /
        REC_END), record_mmap_file, copy_to_buffer, 1-4 real writer_thread()s, write_buf_list, stop_all_writers,
        flush_shmem_list and record_remaining_buffer run as they are, stepped by generated schedules (many tasks x many
        pending buffers, a buffer announced twice, buffers left to the final flush) and compared step by step with
        Writers.Sess; monitor: each task's file gets its buffers once each, in order (harness/c03_writers.py).
A monitor evaluates the property itself (conservation, order, no foreign records, LOST placement) on the
implementation's output in all of them."""
import glob
import json
import os
import re
import struct
import subprocess
from concurrent.futures import ThreadPoolExecutor

from lib import common as C, h1

DRIVER = "h1_c03_driver.c"


def _load(name):
    import importlib.util
    spec = importlib.util.spec_from_file_location(name, os.path.join(C.VERIF, "harness", name + ".py"))
    mod = importlib.util.module_from_spec(spec)
    spec.loader.exec_module(mod)
    return mod


WRITERS = _load("c03_writers")


def run_model(name, lines):
    """C.run_model, tolerant of another builder relinking uvmodel at this very moment"""
    import time
    last = None
    for _ in range(40):
        try:
            return C.run_model(name, lines)
        except (FileNotFoundError, PermissionError, OSError, RuntimeError) as e:
            last = e
            time.sleep(3)
    raise last


# --------------------------------------------------------------------------------------------------
# H1 tie: schedule generator
# --------------------------------------------------------------------------------------------------
class Gen:
    """One case: configuration + list of ops.  Each op is (harness_line, [model_lines])."""

    def __init__(self, rng, nthreads, nwriters, maxsize, nops, pfail, payloads, finish_mode="finish"):
        self.rng = rng
        self.nt = nthreads
        self.nw = nwriters
        self.maxsize = maxsize
        self.pfail = pfail
        self.payloads = payloads
        self.ops = []
        self.next_ip = 1
        self.prepared = set()
        self.stopped = set()
        self.emitted = {k: [] for k in range(1, nthreads + 1)}   # (id, batch_ok)
        self.ops.append(("RESET %d %d 1" % (nwriters, maxsize), ["RESET %d %d 1" % (nwriters, maxsize)]))
        self.finish_mode = finish_mode
        self.closed = False
        for _ in range(nops):
            self.random_op()
        self.drain()

    def rec_size(self, payload):
        return 16 + payload

    def rtd(self, k):
        rng = self.rng
        np_ = rng.choice([0, 0, 0, 1, 1, 2, 3, 5]) if self.maxsize >= 48 else rng.choice([0, 0, 1])
        ok = 0 if rng.random() < self.pfail else 1
        failkind = rng.randrange(4)
        frames = []
        for _ in range(np_ + 1):
            ip = self.next_ip
            self.next_ip += 1
            pl = rng.choice(self.payloads)
            if 16 + pl > self.maxsize:
                pl = 0
            frames.append((ip, pl))
        # a WRITTEN frame has only WRITTEN frames below it (record_trace_data relies on that, lines 1090-1116)
        ownwritten = 1 if (np_ == 0 and rng.random() < 0.35) else 0
        ex = 1 if (ownwritten or rng.random() < 0.7) else 0
        recs = [(2 * ip, 16 + pl, 1 if pl else 0, "P") for ip, pl in frames[:-1]]
        if not ownwritten:
            recs.append((2 * frames[-1][0], 16 + frames[-1][1], 1 if frames[-1][1] else 0, "O"))
        if ex:
            recs.append((2 * frames[-1][0] + 1, 16, 0, "X"))
        n = len(recs)
        toks = []
        for i, (rid, sz, pl, kind) in enumerate(recs):
            extra = (n - i - 1) if kind == "P" else 0
            toks += [str(rid), str(sz), str(pl), str(extra), str(ok)]
            self.emitted[k].append((rid, ok))
        h = "P %d rtd %d %d %d %s %d %d %d %d" % (
            k, ok, failkind, np_, " ".join("%d %d" % f for f in frames[:-1]), frames[-1][0], frames[-1][1],
            ownwritten, ex)
        m = "P %d batch %s" % (k, " ".join(toks))
        self.ops.append((C.norm(h), [m]))

    def random_op(self):
        rng = self.rng
        r = rng.random()
        live = [k for k in self.prepared if k not in self.stopped]
        if r < 0.07 or not self.prepared:
            cand = [k for k in range(1, self.nt + 1) if k not in self.prepared]
            if cand and not self.closed:
                k = rng.choice(cand)
                self.prepared.add(k)
                self.ops.append(("P %d prepare" % k, ["P %d prepare" % k]))
                return
        if r < 0.55 and live and not self.closed:
            self.rtd(rng.choice(live))
        elif r < 0.58:
            # the recorder catches up (lets the producer reuse and shrink its ring)
            for _ in range(rng.choice([5, 20, 60])):
                self.ops.append(("R read", ["R read"]))
                w = rng.randrange(self.nw)
                for what in ("pick", "write", "splice"):
                    self.ops.append(("W %d %s" % (w, what), ["W %d %s" % (w, what)]))
        elif r < 0.70:
            self.ops.append(("R read", ["R read"]))
        elif r < 0.95:
            w = rng.randrange(self.nw)
            what = rng.choice(["pick", "write", "write", "splice"])
            self.ops.append(("W %d %s" % (w, what), ["W %d %s" % (w, what)]))
        elif r < 0.97 and live and len(self.emitted[live[0]]) > 3:
            k = rng.choice(live)
            self.stopped.add(k)
            self.ops.append(("P %d finish" % k, ["P %d finish" % k]))
        else:
            self.ops.append(("R read", ["R read"]))

    def drain(self):
        """normal end: every thread exits through mtd_dtor, the recorder reads and writes everything"""
        for k in sorted(self.prepared):
            if k not in self.stopped:
                self.stopped.add(k)
                self.ops.append(("P %d finish" % k, ["P %d finish" % k]))
        nmsg = 3 * sum(len(v) for v in self.emitted.values()) + 8 * self.nt + 8
        for _ in range(min(nmsg, 400)):
            self.ops.append(("R read", ["R read"]))
            w = self.rng.randrange(self.nw)
            for what in ("pick", "write", "splice"):
                self.ops.append(("W %d %s" % (w, what), ["W %d %s" % (w, what)]))
        for w in range(self.nw):
            for _ in range(6):
                for what in ("pick", "write", "write", "write", "splice"):
                    self.ops.append(("W %d %s" % (w, what), ["W %d %s" % (w, what)]))


def run_harness(ctx, exe, case_id, bufsize, script, extra_env=None, timeout=60):
    """Run one script in a fresh process of the H1 driver (FIFO created here, consumed by the driver)."""
    d = os.path.join(ctx.scratch, "c03run-%d-%d" % (os.getpid(), case_id))
    os.makedirs(d, exist_ok=True)
    fifo = os.path.join(d, ".channel")
    if os.path.exists(fifo):
        os.unlink(fifo)
    os.mkfifo(fifo)
    rfd = os.open(fifo, os.O_RDONLY | os.O_NONBLOCK)
    env = {"PATH": os.environ.get("PATH", "/usr/bin:/bin"), "UFTRACE_DIR": d, "UFTRACE_BUFFER": str(bufsize)}
    env.update(extra_env or {})
    p = subprocess.Popen([exe], stdin=subprocess.PIPE, stdout=subprocess.PIPE, stderr=subprocess.PIPE, text=True, env=env)
    try:
        out, err = p.communicate("\n".join(script) + "\n", timeout=timeout)
        rc = p.returncode
    except subprocess.TimeoutExpired:
        p.kill()
        out, err = p.communicate()
        rc, err = -999, (err or "") + "TIMEOUT"
    rest = b""
    while True:
        try:
            chunk = os.read(rfd, 1 << 16)
        except BlockingIOError:
            break
        if not chunk:
            break
        rest += chunk
    os.close(rfd)
    lines = out.split("\n")
    if lines and lines[-1] == "":
        lines.pop()
    sess = None
    for l in lines + (err or "").split("\n"):
        if l.startswith("SESS ") and len(l.split()) > 1:
            sess = l.split()[1]
    # messages the driver did not consume (SEGVSELF): find the session there
    msgs = parse_msgs(rest)
    for typ, payload in msgs:
        if typ in ("REC_START", "REC_END") and sess is None:
            m = re.match(rb"/uftrace-([0-9a-f]{16})-", payload)
            if m:
                sess = m.group(1).decode()
    return {"lines": lines, "rc": rc, "stderr": err, "sess": sess, "msgs": msgs, "dir": d}


def cleanup_run(r):
    if r.get("sess"):
        for f in glob.glob("/dev/shm/uftrace-%s-*" % r["sess"]):
            try:
                os.unlink(f)
            except OSError:
                pass
    d = r.get("dir")
    if d and os.path.isdir(d):
        for f in glob.glob(os.path.join(d, "*")) + glob.glob(os.path.join(d, ".channel")):
            try:
                os.unlink(f)
            except OSError:
                pass
        try:
            os.rmdir(d)
        except OSError:
            pass


def parse_msgs(data):
    msgs, off = [], 0
    while off + 8 <= len(data):
        magic, typ, ln = struct.unpack_from("<HHI", data, off)
        if magic != 0xface:
            msgs.append(("BADMAGIC", data[off:off + 16]))
            break
        msgs.append((h1.MSG_NAMES.get(typ, str(typ)), data[off + 8: off + 8 + ln]))
        off += 8 + ln
    return msgs


DONE_BUFS = re.compile(r"(T\d+ alive=\d done=1 curr=- losts=\d+) bufs=\[[^\]]*\]")


DONE_LOSTS = re.compile(r"(T\d+ alive=\d done=1 curr=- losts=)\d+")


def norm_state(line, dead_losts=False):
    """After mtd_dtor the producer has unmapped its buffers (clear_shmem_buffer): the driver cannot show
    them any more, the model keeps them.  Compare everything else.
    `dead_losts` (C04 schedules with a finish trigger): shmem_finish clears `losts` after handing the count to
    uftrace_send_message, which drops it once the finish trigger has closed the pipe; the model keeps the count of a
    loss it could not report.  The field is dead after mtd_dtor (the thread emits nothing more): not compared there."""
    line = C.norm(line)
    if " STEPS " in line:
        m = re.search(r"views=(\S*)", line)
        bad = " agree=0" in line or (" exit=" in line and " exit=0 " not in line)
        return "ok STEPS %sviews=%s" % ("BROKEN " if bad else "", m.group(1) if m else "?")
    line = DONE_BUFS.sub(r"\1 bufs=[*]", line)
    if dead_losts:
        line = DONE_LOSTS.sub(r"\1*", line)
    return line


# --------------------------------------------------------------------------------------------------
# the property as a monitor on the implementation's own output
# --------------------------------------------------------------------------------------------------
def parse_state(line):
    st = {"threads": {}, "files": {}}
    for m in re.finditer(r"T(\d+) alive=(\d) done=(\d) curr=(\S+) losts=(\d+) bufs=\[([^\]]*)\]", line):
        bufs = []
        if m.group(6) != "*":
            for b in m.group(6).split(";") if m.group(6) else []:
                fl, _, items = b.partition(":")
                bufs.append((fl, [x for x in items.split(",") if x]))
        st["threads"][int(m.group(1))] = {"done": m.group(3) == "1", "curr": m.group(4), "losts": int(m.group(5)),
                                           "bufs": bufs}
    for m in re.finditer(r"F(\d+)=\[([^\]]*)\]", line):
        st["files"][int(m.group(1))] = [x for x in m.group(2).split(",") if x]
    for key in ("PIPE", "SHM", "WL"):
        m = re.search(key + r"=\[([^\]]*)\]", line)
        st[key] = [x for x in m.group(1).split(",") if x] if m else []
    m = re.search(r"WR=\[([^\]]*)\]", line)
    st["WR"] = m.group(1).split(";") if m else []
    m = re.search(r"LOST=(\d+)", line)
    st["LOST"] = int(m.group(1)) if m else 0
    return st


def monitor_stream(items, emitted, complete):
    """`items`: what reached the file (+ what is still in flight, in order) for one thread; `emitted`:
    [(id, batch_ok)] in emission order.  Property: items = emitted minus whole runs of dropped records, in
    order, nothing duplicated or foreign; every run of drops starts in a batch with a failed allocation and is
    followed by exactly one LOST marker (count > 0) placed before the next surviving record; no LOST marker
    elsewhere.  `complete`: the thread has ended and everything was written (otherwise `items` may stop early)."""
    pos = 0
    n = len(emitted)
    i = 0
    while i < len(items):
        it = items[i]
        if it.startswith("~"):
            return "torn record %s in the stream" % it
        if it.startswith("TRAIL"):
            return "partial record bytes at the end (%s)" % it
        if it.startswith("L"):
            cnt = int(it[1:])
            if cnt <= 0:
                return "LOST marker with count %d" % cnt
            if i + 1 >= len(items):
                if complete:
                    return "LOST marker %s is not followed by a record" % it
                i += 1
                continue
            nxt = items[i + 1]
            if nxt.startswith("L") or nxt.startswith("~"):
                return "LOST marker %s followed by %s" % (it, nxt)
            j = pos
            while j < n and str(emitted[j][0]) != nxt:
                j += 1
            if j == n:
                return "record %s after %s was not emitted by this thread (or is duplicated/reordered)" % (nxt, it)
            if j == pos:
                return "LOST marker %s although no record was dropped before %s" % (it, nxt)
            if emitted[pos][1]:
                return "records from %s dropped although no allocation failed in their batch" % emitted[pos][0]
            pos = j
            i += 1
            continue
        if pos < n and str(emitted[pos][0]) == it:
            pos += 1
            i += 1
            continue
        j = pos
        while j < n and str(emitted[j][0]) != it:
            j += 1
        if j == n:
            return "record %s was not emitted by this thread, or is duplicated / out of order" % it
        return "records %s..%s are missing before %s without a LOST marker" % (emitted[pos][0], emitted[j - 1][0], it)
    if complete and pos < n:
        # a trailing run of drops (the thread ended without another surviving record) is allowed only if it
        # starts in a failed batch
        if emitted[pos][1]:
            return "records from %s on never reached the file although nothing failed" % emitted[pos][0]
    return None


def ensure_version_h(ctx):
    ctx.snapshot()
    # version.h is generated by the Makefile; /repo may have been cleaned
    if not os.path.exists(os.path.join(ctx.src, "version.h")):
        C.sh(["make", "-C", ctx.src, "-s", os.path.join(ctx.src, "version.h")])


_MAKE_POOL = ThreadPoolExecutor(1)


def start_make(ctx):
    """build uftrace + libmcount of the snapshot in the background (needed only by the e2e part)"""
    ensure_version_h(ctx)
    return _MAKE_POOL.submit(ctx.make)


def build_h1(ctx, extra_cflags=(), out="h1c03"):
    ensure_version_h(ctx)
    return h1.build(ctx, "normal", extra_cflags=extra_cflags, driver=DRIVER, out=out)


def run_h1_cases(ctx, exe, cases, model_name="C03", extra_env=None):
    """cases: list of Gen.  Returns list of dict(case, impl, model, first_diff, monitor)."""
    # pass 1: the model alone on the generous schedule; ops that are not enabled (no state change) are
    # pruned from the schedule (a few are kept), so that the harness runs only what matters
    mlines = []
    spans = []
    for g in cases:
        idx = []
        for h, ms in g.ops:
            mlines += ms
            idx.append(len(mlines) - 1)
        spans.append(idx)
    mout = run_model(model_name, mlines)
    for g, idx in zip(cases, spans):
        keep = []
        nd = 0
        for j, i in enumerate(idx):
            if mout[i].startswith("disabled"):
                nd += 1
                if nd % 17 != 0:
                    continue
            keep.append(j)
        g.ops = [g.ops[j] for j in keep]
        idx[:] = [idx[j] for j in keep]

    def one(ic):
        i, g = ic
        r = run_harness(ctx, exe, i, g.maxsize + 16, [o[0] for o in g.ops], extra_env=extra_env)
        cleanup_run(r)
        return r
    with ThreadPoolExecutor(8) as ex:
        rs = list(ex.map(one, enumerate(cases)))
    res = []
    for g, r, idx in zip(cases, rs, spans):
        impl = [l for l in r["lines"] if l.startswith(("ok", "disabled", "bad-op"))]
        model = [mout[i] for i in idx]
        d = {"gen": g, "raw": r, "impl": impl, "model": model, "first_diff": None, "monitor": None}
        if len(impl) != len(g.ops):
            d["first_diff"] = (len(impl), "harness produced %d lines for %d ops (rc=%s, stderr=%s)" % (
                len(impl), len(g.ops), r["rc"], r["stderr"][-300:]), "")
        else:
            dl = getattr(g, "dead_losts", False)
            for j, (a, b) in enumerate(zip(impl, model)):
                if norm_state(a, dl) != norm_state(b, dl):
                    d["first_diff"] = (j, norm_state(a, dl), norm_state(b, dl))
                    break
        # monitor on the implementation's final state
        if impl and " STEPS " not in impl[-1]:
            st = parse_state(norm_state(impl[-1]))
            drained = not st["PIPE"] and not st["WL"] and all(w.startswith("-") for w in st["WR"])
            for k, f in st["files"].items():
                complete = drained and st["threads"].get(k, {}).get("done", False)
                bad = monitor_stream(f, g.emitted.get(k, []), complete)
                if bad:
                    d["monitor"] = "thread %d: %s" % (k, bad)
                    break
            # intermediate states: what is in the file is always a prefix-consistent stream
            if not d["monitor"]:
                for j in range(0, len(impl), max(1, len(impl) // 25)):
                    stj = parse_state(norm_state(impl[j]))
                    for k, f in stj["files"].items():
                        bad = monitor_stream(f, g.emitted.get(k, []), False)
                        if bad:
                            d["monitor"] = "after op %d, thread %d: %s" % (j, k, bad)
                            break
                    if d["monitor"]:
                        break
        res.append(d)
    return res


# --------------------------------------------------------------------------------------------------
# e2e: generated multi-threaded programs with a ground-truth log, under the real `uftrace record`
# --------------------------------------------------------------------------------------------------
E2E_HDR = r'''
#define _GNU_SOURCE
#include <stdio.h>
#include <stdlib.h>
#include <stdint.h>
#include <string.h>
#include <pthread.h>
#include <unistd.h>
#include <fcntl.h>
#include <signal.h>
#include <sys/mman.h>
#include <sys/syscall.h>
#define NI __attribute__((noinline))
#define NOINST __attribute__((no_instrument_function))
#define MAXEV %(maxev)d
#define NT %(nt)d
struct tlog { volatile uint32_t tid, n, exited, pad; volatile uint8_t ev[MAXEV]; };
static struct tlog *logs;
static __thread struct tlog *me;
static __thread int my_idx = -1;
static int kill_thread = -1, kill_at = -1, kill_mode = 0;
static char *self_exe;
NI void finish_trigger_fn(void) { asm volatile("" ::: "memory"); }
static NOINST void die(void)
{
	switch (kill_mode) {
	case 1: kill(getpid(), SIGKILL); for (;;) pause();
	case 2: { volatile int *p = 0; *p = 1; } break;
	case 3: abort();
	case 4: _exit(7);
	case 5: { char *a[] = { "/bin/true", 0 }; execv("/bin/true", a); _exit(9); }
	case 6: finish_trigger_fn(); break;
	case 7: exit(5);
	case 8: kill(getpid(), SIGUSR1); break;     /* --signal SIGUSR1@finish */
	}
}
static inline __attribute__((always_inline)) void ev(int code)
{
	struct tlog *l = me;
	uint32_t n = l->n;
	if (n < MAXEV) l->ev[n] = code;
	__sync_synchronize();
	l->n = n + 1;
	if (my_idx == kill_thread && (int)(n + 1) == kill_at) die();
}
'''


def gen_program(rng, nt, nfun_per_thread=6, scale=1, pace=0):
    """Thread k uses only functions fI with I % nt == k, so that a foreign record is recognisable.
    Function I calls functions J > I of the same thread (no recursion), loop counts from its argument."""
    nf = nt * nfun_per_thread
    src = []
    calls = {}
    for i in range(nf - 1, -1, -1):
        cands = [j for j in range(i + nt, nf, nt)]
        body = []
        for j in rng.sample(cands, min(len(cands), rng.randint(0, 3))):
            kind = rng.random()
            if kind < 0.4:
                body.append("f%d(x + %d);" % (j, rng.randint(0, 3)))
            elif kind < 0.7:
                body.append("if ((x & %d) == 0) f%d(x >> 1);" % (rng.choice([1, 3]), j))
            else:
                body.append("for (int i = 0; i < (x %% %d) + 1; i++) f%d(x + i);" % (rng.randint(2, 4), j))
        calls[i] = body
        src.append("NI void f%d(int x) { ev(%d); %s %s ev(%d); }\n" % (
            i, 2 * i, " ".join(body), "if (pace_us) usleep(pace_us);" if (pace and i >= nf - nt) else "", 2 * i + 1))
    protos = "".join("NI void f%d(int x);\n" % i for i in range(nf))
    iters = [rng.randint(40, 120) * scale for _ in range(nt)]
    main = r'''
static int iters[NT] = { %s };
static NOINST void *work(void *arg)
{
	long k = (long)arg;
	my_idx = k;
	me = &logs[k];
	me->tid = syscall(SYS_gettid);
	for (int i = 0; i < iters[k]; i++)
		ROOT(k, i);
	me->exited = 1;
	return 0;
}
int main(int argc, char **argv)
{
	int fd = open(argv[1], O_RDWR | O_CREAT | O_TRUNC, 0600);
	if (fd < 0 || ftruncate(fd, sizeof(struct tlog) * NT) < 0) return 99;
	logs = mmap(0, sizeof(struct tlog) * NT, PROT_READ | PROT_WRITE, MAP_SHARED, fd, 0);
	if (argc > 4) { kill_thread = atoi(argv[2]); kill_at = atoi(argv[3]); kill_mode = atoi(argv[4]); }
	if (argc > 5) pace_us = atoi(argv[5]);
	self_exe = argv[0];
	pthread_t t[NT];
	for (long i = 1; i < NT; i++) pthread_create(&t[i], 0, work, (void *)i);
	work((void *)0);
	for (int i = 1; i < NT; i++) pthread_join(t[i], 0);
	return 0;
}
''' % ", ".join(map(str, iters))
    root = "#define ROOT(k, i) do { switch (k) { %s } } while (0)\n" % " ".join(
        "case %d: f%d(i); break;" % (k, k) for k in range(nt))
    hdr = E2E_HDR % {"maxev": 400000, "nt": nt}
    return hdr + "static int pace_us;\n" + protos + "".join(reversed(src)) + root + main, nf


FORK_MAIN = r'''
#include <sys/wait.h>
/* main() is not instrumented and forks before anything of this process was traced: libmcount meets the forking
 * thread for the first time inside its atfork handlers.  Task k > 0 is a fork child (function family k), which
 * ends by _exit (odd k: nothing of libmcount runs any more) or by returning from main. */
NOINST int main(int argc, char **argv)
{
	int fd = open(argv[1], O_RDWR | O_CREAT | O_TRUNC, 0600);
	pid_t pids[NT];
	if (fd < 0 || ftruncate(fd, sizeof(struct tlog) * NT) < 0) return 99;
	logs = mmap(0, sizeof(struct tlog) * NT, PROT_READ | PROT_WRITE, MAP_SHARED, fd, 0);
	self_exe = argv[0];
	for (long i = 1; i < NT; i++) {
		pids[i] = fork();
		if (pids[i] == 0) {
			work((void *)i);
			if (i & 1) _exit(0);
			return 0;
		}
	}
	if (PARENT_WORKS) work((void *)0);
	else { logs[0].tid = syscall(SYS_gettid); logs[0].exited = 1; }
	for (int i = 1; i < NT; i++) waitpid(pids[i], 0, 0);
	return 0;
}
'''


def gen_fork_program(rng, nt, scale=1):
    """gen_program's functions, but the tasks are processes: an uninstrumented main() forks nt-1 children before it
    has made any traced call; some children trace less than one buffer, others several."""
    src, nf = gen_program(rng, nt, scale=scale)
    head = src[:src.index("int main(int argc, char **argv)")]
    iters = [rng.randint(40, 120) * scale] + [rng.choice([1, 3, 8, rng.randint(40, 120) * scale]) for _ in range(nt - 1)]
    head = re.sub(r"static int iters\[NT\] = \{[^}]*\};", "static int iters[NT] = { %s };" % ", ".join(map(str, iters)), head)
    parent_works = rng.random() < 0.6
    return head + "#define PARENT_WORKS %d\n" % parent_works + FORK_MAIN, nf, parent_works


def build_program(path_c, exe, flavour):
    flags = {"pg": ["-pg"], "cyg": ["-finstrument-functions"], "fentry": ["-pg", "-mfentry"]}[flavour]
    r = C.sh(["gcc", "-O1", "-g", "-no-pie"] + flags + ["-o", exe, path_c, "-lpthread"])
    return r.returncode == 0, r.stdout


def sym_ranges(exe, with_main=False):
    nm = subprocess.run(["nm", "-S", exe], stdout=subprocess.PIPE, text=True).stdout
    out = []
    for l in nm.split("\n"):
        p = l.split()
        if len(p) == 4 and re.fullmatch(r"f\d+", p[3]):
            out.append((int(p[0], 16), int(p[1], 16), int(p[3][1:])))
        elif with_main and len(p) == 4 and p[3] == "main":
            out.append((int(p[0], 16), int(p[1], 16), -3))
        elif len(p) == 4 and p[3] == "finish_trigger_fn":
            out.append((int(p[0], 16), int(p[1], 16), -2))
    return sorted(out)


def read_ground_truth(path, nt, maxev=400000):
    raw = open(path, "rb").read()
    out = []
    sz = 16 + maxev
    for k in range(nt):
        tid, n, exited, _ = struct.unpack_from("<IIII", raw, k * sz)
        out.append({"tid": tid, "n": n, "exited": exited, "ev": list(raw[k * sz + 16: k * sz + 16 + min(n, maxev)])})
    return out


def decode_dat(path, syms):
    """-> (codes of records of the program's own functions, problems, number of records)"""
    data = open(path, "rb").read()
    problems = []
    codes = []
    off = 0
    last_t = 0
    nrec = 0
    starts = [s[0] for s in syms]
    import bisect
    while off + 16 <= len(data):
        t, w = struct.unpack_from("<QQ", data, off)
        typ, more, magic, depth, addr = w & 3, (w >> 2) & 1, (w >> 3) & 7, (w >> 6) & 0x3ff, w >> 16
        off += 16
        nrec += 1
        if magic != 5:
            problems.append("bad magic %d at offset %d" % (magic, off - 16))
            break
        if more:
            problems.append("record with payload at offset %d although no argument was requested" % (off - 16))
            break
        if typ == 3:
            codes.append(("LOST", addr))
            continue
        if typ == 2:
            continue
        if t < last_t:
            problems.append("timestamps go backwards at offset %d" % (off - 16))
        last_t = t
        i = bisect.bisect_right(starts, addr) - 1
        if i >= 0 and syms[i][0] <= addr < syms[i][0] + syms[i][1]:
            fn = syms[i][2]
            if fn >= 0:
                codes.append(2 * fn + typ)
            elif fn == -3:
                codes.append(("MAIN", typ))
            else:
                codes.append(("FIN", typ))
    if off != len(data):
        problems.append("%d trailing bytes: not a whole number of records" % (len(data) - off))
    return codes, problems, nrec


def run_record(ctx, exe, datadir, gtfile, args, prog_args=(), timeout=40, taskset=None):
    uftrace = os.path.join(ctx.src, "uftrace")
    cmd = []
    if taskset:
        cmd += ["taskset", "-c", taskset]
    cmd += [uftrace, "record", "--libmcount-path=" + os.path.join(ctx.src, "libmcount"), "--no-pager", "--no-event",
            "-d", datadir] + list(args) + [exe, gtfile] + [str(a) for a in prog_args]
    # cwd: a -pg program may drop gmon.out
    # own process group, killed as a whole afterwards: a tracee that outlives `uftrace record` (deadlocked in a
    # broken libmcount) would otherwise keep the pipes open and the check would wait for ever
    rc, out, err, timed_out = C.run_bounded(cmd, timeout, cwd=os.path.dirname(exe))
    return (137 if timed_out else rc), out, err


def shm_leftovers(datadir, remove=True):
    """session ids of the run -> files left in /dev/shm (removed: a cluttered /dev/shm slows everything down)"""
    left = []
    try:
        txt = open(os.path.join(datadir, "task.txt")).read()
    except OSError:
        return left
    for sid in set(re.findall(r"sid=([0-9a-f]{16})", txt)):
        for f in glob.glob("/dev/shm/uftrace-%s-*" % sid):
            left.append(f)
            if remove:
                try:
                    os.unlink(f)
                except OSError:
                    pass
    return left


def check_exact(datadir, exe, gt, nt, main_traced=True):
    """C03 monitor on a normally terminated run: every thread's file is exactly its ground truth."""
    syms = sym_ranges(exe, with_main=True)
    bad = []
    tids = {g["tid"] for g in gt if g["tid"]}
    dats = {int(os.path.basename(f)[:-4]) for f in glob.glob(os.path.join(datadir, "*.dat"))
            if os.path.basename(f)[:-4].isdigit()}
    need = {g["tid"] for g in gt if g["tid"] and g["n"]}      # a task that emitted nothing has no file
    if need - dats:
        bad.append("no data file for thread(s) %s" % sorted(need - dats))
    if dats - tids:
        bad.append("data file(s) for unknown task(s) %s" % sorted(dats - tids))
    nrecs = 0
    for k, g in enumerate(gt):
        f = os.path.join(datadir, "%d.dat" % g["tid"])
        if not os.path.exists(f):
            continue
        codes, problems, n = decode_dat(f, syms)
        nrecs += n
        bad += ["thread %d: %s" % (k, p) for p in problems]
        foreign = [c for c in codes if isinstance(c, int) and (c // 2) % nt != k]
        if foreign:
            bad.append("thread %d: file contains %d record(s) of another thread's functions (first f%d)" % (
                k, len(foreign), foreign[0] // 2))
        if any(isinstance(c, tuple) and c[0] == "LOST" for c in codes):
            bad.append("thread %d: LOST record although no allocation can have failed" % k)
        # the tail of a thread: the initial thread runs everything inside main(), which returns normally; its first
        # record of the program's own functions is main's ENTRY and its last one main's EXIT (whenever libmcount
        # emits it: from the return hook, or with --estimate-return when the process ends)
        mainrecs = [(i, c[1]) for i, c in enumerate(codes) if isinstance(c, tuple) and c[0] == "MAIN"]
        prog = [i for i, c in enumerate(codes) if isinstance(c, int) or (isinstance(c, tuple) and c[0] == "MAIN")]
        if k == 0 and main_traced:
            if [t for _, t in mainrecs] != [0, 1] or (prog and (mainrecs[0][0] != prog[0] or mainrecs[-1][0] != prog[-1])):
                bad.append("thread 0: main() returned normally, but its records in the file are %s at positions %s of %d "
                           "(expected ENTRY first and EXIT last): records emitted at the end of the thread are missing" % (
                               ["ENTRY" if t == 0 else "EXIT" for _, t in mainrecs], [i for i, _ in mainrecs], len(codes)))
        elif mainrecs:
            bad.append("thread %d: file contains records of main()" % k)
        own = [c for c in codes if isinstance(c, int)]
        if own != g["ev"]:
            j = next((i for i, (a, b) in enumerate(zip(own, g["ev"])) if a != b), min(len(own), len(g["ev"])))
            bad.append("thread %d: stream differs from the executed calls at record %d (file has %d records, "
                       "executed %d events; file %s vs executed %s)" % (k, j, len(own), len(g["ev"]), own[j:j + 4],
                                                                         g["ev"][j:j + 4]))
    return bad, nrecs


# --------------------------------------------------------------------------------------------------
# e2e: threads that change (or have changed under them) their process / thread identity
# --------------------------------------------------------------------------------------------------
# Every thread runs a script of steps; between two steps it makes enough traced calls to fill several 4k buffers
# (255 records each).  Steps: V vfork + _exit in the child, VE vfork + exec in the child, F fork (the child makes
# traced calls of its own, enough for several buffers, and _exits), PX pthread_exit from nested calls (terminal),
# TX exec from this thread (terminal for the whole process; the other workers have ended by then; the new image makes
# traced calls and exits).  The op happens inside two open traced calls.  Function families (8 functions each):
# thread k = family k, the fork child of thread k = family 4 + k, the image after exec = family 8; every thread,
# child and image takes a slot of the shared ground-truth file in the order it starts.
ID_KINDS = {"C": 0, "V": 1, "VE": 2, "F": 3, "PX": 4, "TX": 5}
ID_NAMES = {"V": "vfork + _exit in the child", "VE": "vfork + exec in the child", "F": "fork, the child traces on and _exits",
            "PX": "pthread_exit from nested calls", "TX": "exec from this thread"}
ID_POST_FAMILY = 8
ID_MAXEV = 120000
ID_NSLOT = 16
ID_SRC = r"""
#define _GNU_SOURCE
#include <stdio.h>
#include <stdlib.h>
#include <stdint.h>
#include <string.h>
#include <pthread.h>
#include <unistd.h>
#include <fcntl.h>
#include <signal.h>
#include <sys/mman.h>
#include <sys/syscall.h>
#include <sys/wait.h>
#define NI __attribute__((noinline))
#define NOINST __attribute__((no_instrument_function))
#define MAXEV %(maxev)d
#define NSLOT %(nslot)d
#define NT %(nt)d
#define MAXSTEP 8
struct slot { volatile uint32_t tid, n, done, role; volatile uint8_t ev[MAXEV]; };
struct shared { volatile uint32_t nslots, ended, nchild, started, joined, pad[3]; volatile uint32_t child_pid[32], child_kind[32];
		struct slot slots[NSLOT]; };
struct step { int kind, arg; };
static struct shared *sh;
static __thread struct slot *me;
static __thread int my_k;
static char *self_exe, *gt_path;
static int npost;
static int tx_thread = %(txw)d;
static volatile int op_lock;
/* waiting without a library call: while one thread is inside vfork() no other thread of this program returns from a
 * call through the PLT (libmcount keeps its vfork state in process-wide variables, see the vfork-race probe) */
static NOINST void nap(void)
{
	struct timespec ts = { 0, 200000 };
	long ret;
	asm volatile("syscall" : "=a"(ret) : "0"(35L), "D"(&ts), "S"(0L) : "rcx", "r11", "memory");
}
static NOINST void wait_for(volatile uint32_t *p, uint32_t v)
{
	while (*p < v) nap();
}
/* the lock that serialises vfork()/fork() is taken and released without a library call as well: the exit hook of a
 * pthread_mutex_unlock() runs after the mutex is free, i.e. possibly while the next thread is already inside vfork() */
static NOINST void op_enter(void)
{
	while (__sync_lock_test_and_set(&op_lock, 1)) nap();
}
static NOINST void op_leave(void)
{
	__sync_lock_release(&op_lock);
}
static NOINST void new_slot(int role)
{
	uint32_t i = __sync_fetch_and_add(&sh->nslots, 1);
	me = &sh->slots[i < NSLOT ? i : NSLOT - 1];
	me->role = role;
	me->tid = syscall(SYS_gettid);
}
static NOINST void note_child(pid_t pid, int kind)
{
	uint32_t i = __sync_fetch_and_add(&sh->nchild, 1);
	if (i < 32) { sh->child_pid[i] = pid; sh->child_kind[i] = kind; }
}
static inline __attribute__((always_inline)) void ev(int code)
{
	struct slot *l = me;
	uint32_t n = l->n;
	if (n < MAXEV) l->ev[n] = code;
	__sync_synchronize();
	l->n = n + 1;
}
static NOINST void root(int fam, int n);
/* vfork()/fork() are serialised: libmcount keeps the vfork state in process-wide variables */
static NOINST void do_op(int kind, int arg)
{
	pid_t pid;
	switch (kind) {
	case 1: case 2:
		op_enter();
		pid = vfork();
		if (pid == 0) {
			if (kind == 2) execl("/bin/true", "true", (char *)0);
			_exit(0);
		}
		waitpid(pid, 0, 0);
		note_child(pid, kind);
		op_leave();
		break;
	case 3:
		op_enter();
		pid = fork();
		if (pid == 0) {
			new_slot(4 + my_k);
			root(4 + my_k, arg);
			me->done = 1;
			_exit(0);
		}
		waitpid(pid, 0, 0);
		note_child(pid, kind);
		op_leave();
		break;
	case 4:
		me->done = 2;
		wait_for(&sh->ended, NT);                          /* nobody is in vfork() any more */
		pthread_exit(0);
	case 5: {
		char a[16];
		wait_for(&sh->joined, 1);                          /* every other worker has ended */
		snprintf(a, sizeof(a), "%%d", npost);
		me->done = 3;
		execl(self_exe, self_exe, gt_path, "post", a, (char *)0);
		_exit(127);
	}
	}
}
%(funcs)s
static NOINST void root(int fam, int n)
{
	switch (fam) { %(roots)s }
}
static NOINST void op(int fam, int kind, int arg)
{
	switch (fam) { %(ops)s }
}
static struct step script[NT][MAXSTEP] = { %(script)s };
static NOINST void run_script(int k)
{
	__sync_fetch_and_add(&sh->started, 1);
	wait_for(&sh->started, NT);
	for (int i = 0; i < MAXSTEP && script[k][i].kind >= 0; i++) {
		if (script[k][i].kind == 0) root(k, script[k][i].arg);
		else {
			if (script[k][i].kind >= 4) __sync_fetch_and_add(&sh->ended, 1);
			op(k, script[k][i].kind, script[k][i].arg);
		}
	}
	__sync_fetch_and_add(&sh->ended, 1);
}
static NOINST void *work(void *arg)
{
	my_k = (long)arg;
	new_slot(my_k);
	run_script(my_k);
	me->done = 1;
	return 0;
}
int main(int argc, char **argv)
{
	pthread_t t[NT];
	int fd;
	if (argc < 2) return 98;
	self_exe = argv[0];
	gt_path = argv[1];
	fd = open(gt_path, O_RDWR | O_CREAT, 0600);
	if (fd < 0 || ftruncate(fd, sizeof(struct shared)) < 0) return 99;
	sh = mmap(0, sizeof(struct shared), PROT_READ | PROT_WRITE, MAP_SHARED, fd, 0);
	if (argc > 3 && !strcmp(argv[2], "post")) {
		new_slot(%(postfam)d);
		root(%(postfam)d, atoi(argv[3]));
		me->done = 1;
		return 0;
	}
	npost = %(npost)d;
	for (long i = 1; i < NT; i++) pthread_create(&t[i], 0, work, (void *)i);
	my_k = 0;
	new_slot(0);
	run_script(0);
	me->done = 1;
	wait_for(&sh->ended, NT);
	for (int i = 1; i < NT; i++) if (i != tx_thread) pthread_join(t[i], 0);
	sh->joined = 1;
	if (tx_thread > 0) pthread_join(t[tx_thread], 0);
	return 0;
}
"""


def gen_identity_program(rng, nt=None, fixed=None):
    """-> (C source, description).  Every program has a vfork, a fork, a pthread_exit and (half of them) an exec
    from a thread, spread over its threads; the main thread only vforks / forks.  `fixed`: a corpus entry
    (threads, steps per thread, exec_from_thread) instead of drawn ones."""
    nt = fixed["threads"] if fixed else (nt or rng.randint(3, 4))
    fams = list(range(nt)) + [4 + k for k in range(nt)] + [ID_POST_FAMILY]
    funcs = []
    for r in fams:
        b = 8 * r
        body = "".join("NI void f%d(int x);\n" % (b + i) for i in range(3))
        body += "NI void f%d(int kind, int arg);\nNI void f%d(int kind, int arg);\n" % (b + 3, b + 4)
        body += "NI void f%d(int x) { ev(%d); ev(%d); }\n" % (b + 2, 2 * (b + 2), 2 * (b + 2) + 1)
        body += "NI void f%d(int x) { ev(%d); f%d(x); if (x & 1) f%d(x + 1); ev(%d); }\n" % (
            b + 1, 2 * (b + 1), b + 2, b + 2, 2 * (b + 1) + 1)
        body += "NI void f%d(int n) { ev(%d); for (int i = 0; i < n; i++) f%d(i); ev(%d); }\n" % (
            b, 2 * b, b + 1, 2 * b + 1)
        body += "NI void f%d(int kind, int arg) { ev(%d); do_op(kind, arg); ev(%d); }\n" % (
            b + 4, 2 * (b + 4), 2 * (b + 4) + 1)
        body += "NI void f%d(int kind, int arg) { ev(%d); f%d(0); f%d(kind, arg); ev(%d); }\n" % (
            b + 3, 2 * (b + 3), b + 2, b + 4, 2 * (b + 3) + 1)
        funcs.append(body)
    # which thread does what: the ops are dealt to the threads, each followed by calls that fill several buffers
    workers = list(range(1, nt))
    rng.shuffle(workers)
    steps = {k: [] for k in range(nt)}
    deal = ["V", "VE", "F"]
    rng.shuffle(deal)
    deal = deal + [rng.choice(["V", "VE", "F"]) for _ in range(nt - 2)]
    for i, kind in enumerate(deal):
        # the first op always goes to a worker thread (a thread whose tid is not the pid)
        k = workers[i % len(workers)] if i < 2 or rng.random() < 0.7 else 0
        if len(steps[k]) >= 5:
            k = min(steps, key=lambda x: len(steps[x]))
        if not steps[k] or rng.random() < 0.7:
            steps[k].append(("C", rng.randint(5, 150)))
        steps[k].append((kind, rng.randint(150, 400) if kind == "F" else 0))
        steps[k].append(("C", rng.randint(130, 420)))
    term = {}
    pxw = workers[-1]
    term[pxw] = "PX"
    txw = -1
    if rng.random() < 0.5 and len(workers) > 1:
        txw = workers[0]
        term[txw] = "TX"
    for k in range(nt):
        if not steps[k]:
            steps[k].append(("C", rng.randint(100, 400)))
        if k in term:
            steps[k].append((term[k], 0))
        steps[k] = steps[k][:7]
    if fixed:
        steps = {int(k): [(a, n) for a, n in v][:7] for k, v in fixed["steps"].items()}
        txw = fixed.get("exec_from_thread", -1)
    script = ", ".join("{ %s, { -1, 0 } }" % ", ".join("{ %d, %d }" % (ID_KINDS[a], n) for a, n in steps[k])
                       for k in range(nt))
    roots = " ".join("case %d: f%d(n); break;" % (r, 8 * r) for r in fams)
    ops = " ".join("case %d: f%d(kind, arg); break;" % (r, 8 * r + 3) for r in fams)
    src = ID_SRC % {"maxev": ID_MAXEV, "nslot": ID_NSLOT, "nt": nt, "funcs": "".join(funcs), "roots": roots, "ops": ops,
                    "script": script, "txw": txw, "postfam": ID_POST_FAMILY, "npost": rng.randint(150, 400)}
    desc = {"threads": nt, "steps": {str(k): ["%s%s" % (a, (":%d" % n) if n else "") for a, n in steps[k]] for k in steps},
            "exec_from_thread": txw}
    return src, desc


# the vfork race probe: thread 1 vforks (the child stays for a while, then _exits) while thread 2 keeps returning from a
# library call (getppid through the PLT; control: the same system call made inline).  Same log layout as above.
RACE_SRC = r"""
#define _GNU_SOURCE
#include <stdio.h>
#include <stdlib.h>
#include <stdint.h>
#include <string.h>
#include <pthread.h>
#include <unistd.h>
#include <fcntl.h>
#include <sys/mman.h>
#include <sys/syscall.h>
#include <sys/wait.h>
#define NI __attribute__((noinline))
#define NOINST __attribute__((no_instrument_function))
#define MAXEV %(maxev)d
#define NSLOT %(nslot)d
struct slot { volatile uint32_t tid, n, done, role; volatile uint8_t ev[MAXEV]; };
struct shared { volatile uint32_t nslots, ended, nchild, started, joined, pad[3]; volatile uint32_t child_pid[32], child_kind[32];
		struct slot slots[NSLOT]; };
static struct shared *sh;
static __thread struct slot *me;
static int use_plt, nvfork, nafter;
static volatile int a_done;
static NOINST long raw(long nr, long a, long b)
{
	long ret;
	asm volatile("syscall" : "=a"(ret) : "0"(nr), "D"(a), "S"(b) : "rcx", "r11", "memory");
	return ret;
}
static NOINST void nap(long ns) { struct timespec ts = { 0, ns }; raw(35, (long)&ts, 0); }
static NOINST void new_slot(int role)
{
	uint32_t i = __sync_fetch_and_add(&sh->nslots, 1);
	me = &sh->slots[i < NSLOT ? i : NSLOT - 1];
	me->role = role;
	me->tid = raw(186, 0, 0);
}
static inline __attribute__((always_inline)) void ev(int code)
{
	struct slot *l = me;
	uint32_t n = l->n;
	if (n < MAXEV) l->ev[n] = code;
	__sync_synchronize();
	l->n = n + 1;
}
volatile long sink;
NI void f10(int x) { ev(20); ev(21); }
NI void f9(int x) { ev(18); f10(x); ev(19); }
NI void f8(int n) { ev(16); for (int i = 0; i < n; i++) f9(i); ev(17); }
NI void f18(int x) { ev(36); ev(37); }
NI void f17(int x) { ev(34); f18(x); sink += use_plt ? getppid() : raw(110, 0, 0); f18(x + 1); ev(35); }
static NOINST void *thread_a(void *arg)
{
	new_slot(1);
	__sync_fetch_and_add(&sh->started, 1);
	while (sh->started < 3) nap(100000);   /* main is back from pthread_create(), too */
	f8(40);
	for (int i = 0; i < nvfork; i++) {
		pid_t pid = vfork();
		if (pid == 0) {
			nap(20000000);
			_exit(0);
		}
		waitpid(pid, 0, 0);
		if (sh->nchild < 32) { sh->child_pid[sh->nchild] = pid; sh->child_kind[sh->nchild] = 1; sh->nchild++; }
		f8(nafter);
	}
	me->done = 1;
	a_done = 1;
	return 0;
}
static NOINST void *thread_b(void *arg)
{
	new_slot(2);
	__sync_fetch_and_add(&sh->started, 1);
	while (sh->started < 3) nap(100000);   /* main is back from pthread_create(), too */
	for (int i = 0; !a_done || i < 300; i++) {
		f17(i);
		if ((i & 7) == 7) nap(300000);
	}
	me->done = 1;
	return 0;
}
int main(int argc, char **argv)
{
	pthread_t a, b;
	int fd;
	if (argc < 5) return 98;
	fd = open(argv[1], O_RDWR | O_CREAT, 0600);
	if (fd < 0 || ftruncate(fd, sizeof(struct shared)) < 0) return 99;
	sh = mmap(0, sizeof(struct shared), PROT_READ | PROT_WRITE, MAP_SHARED, fd, 0);
	use_plt = atoi(argv[2]);
	nvfork = atoi(argv[3]);
	nafter = atoi(argv[4]);
	new_slot(0);
	pthread_create(&a, 0, thread_a, 0);
	pthread_create(&b, 0, thread_b, 0);
	__sync_fetch_and_add(&sh->started, 1);      /* from here on this thread makes no library call until both are done */
	while (!sh->slots[1].done || !sh->slots[2].done) {
		if (sh->nslots >= 3 && sh->slots[1].done && sh->slots[2].done) break;
		nap(1000000);
	}
	pthread_join(a, 0);
	pthread_join(b, 0);
	me->done = 1;
	return 0;
}
"""


def read_identity_log(path):
    raw = open(path, "rb").read()
    nslots, _, nchild, _ = struct.unpack_from("<IIII", raw, 0)   # nslots, ended, nchild, started
    pids = struct.unpack_from("<32I", raw, 32)
    kinds = struct.unpack_from("<32I", raw, 32 + 128)
    base = 32 + 256
    sz = 16 + ID_MAXEV
    slots = []
    for k in range(min(nslots, ID_NSLOT)):
        tid, cnt, done, role = struct.unpack_from("<IIII", raw, base + k * sz)
        slots.append({"tid": tid, "n": cnt, "done": done, "role": role,
                      "ev": list(raw[base + k * sz + 16: base + k * sz + 16 + min(cnt, ID_MAXEV)])})
    children = [(pids[i], kinds[i]) for i in range(min(nchild, 32))]
    return slots, children


def role_name(r):
    return ("thread %d" % r) if r < 4 else ("fork child of thread %d" % (r - 4)) if r < 8 else "image after exec"


def check_identity_run(datadir, exe, slots, children, libcall, rc, err):
    """C03's statement per <tid>.dat: the file of a task is exactly the in-order concatenation of the records of the
    threads / images that ran under that tid (ground truth: the program's own log), nothing of another thread."""
    syms = sym_ranges(exe)
    bad = []
    by_tid = {}
    for s in slots:
        by_tid.setdefault(s["tid"], []).append(s)
    vfork_pids = {p for p, kind in children if kind in (1, 2)}
    dats = {int(os.path.basename(f)[:-4]) for f in glob.glob(os.path.join(datadir, "*.dat"))
            if os.path.basename(f)[:-4].isdigit()}
    extra = dats - set(by_tid) - {p for p, _ in children}
    if extra:
        bad.append("data file(s) for unknown task(s) %s" % sorted(extra))
    nrec = 0
    for tid in sorted(dats & vfork_pids - set(by_tid)):
        codes, problems, n = decode_dat(os.path.join(datadir, "%d.dat" % tid), syms)
        nrec += n
        own = [c for c in codes if isinstance(c, int)]
        if own:
            bad.append("task %d (a vfork child that called no traced function): file has %d record(s) of %s" % (
                tid, len(own), role_name((own[0] // 2) // 8)))
    for tid, ss in by_tid.items():
        f = os.path.join(datadir, "%d.dat" % tid)
        what = "task %d (%s)" % (tid, " then ".join(role_name(s["role"]) for s in ss))
        if not os.path.exists(f):
            if any(s["ev"] for s in ss):
                bad.append("%s: no data file, %d events executed" % (what, sum(len(s["ev"]) for s in ss)))
            continue
        codes, problems, n = decode_dat(f, syms)
        nrec += n
        bad += ["%s: %s" % (what, p) for p in problems]
        if any(isinstance(c, tuple) and c[0] == "LOST" for c in codes):
            bad.append("%s: LOST record although no allocation can have failed" % what)
        own = [c for c in codes if isinstance(c, int)]
        roles = {s["role"] for s in ss}
        foreign = [c for c in own if (c // 2) // 8 not in roles]
        if foreign:
            bad.append("%s: file contains %d record(s) of another thread's functions (first f%d of %s)" % (
                what, len(foreign), foreign[0] // 2, role_name((foreign[0] // 2) // 8)))
            own = [c for c in own if (c // 2) // 8 in roles]
        pos = 0
        for s in ss:
            j = pos
            while j < len(own) and (own[j] // 2) // 8 == s["role"]:
                j += 1
            got, ev = own[pos:j], s["ev"]
            pos = j
            w = "task %d, %s" % (tid, role_name(s["role"]))
            if got != ev[:len(got)]:
                i = next((i for i, (a, b) in enumerate(zip(got, ev)) if a != b), min(len(got), len(ev)))
                bad.append("%s: stream differs from the executed calls at record %d (file has %d records, executed %d "
                           "events; file %s vs executed %s)" % (w, i, len(got), len(ev), got[i:i + 4], ev[i:i + 4]))
                continue
            if s["done"] == 3:
                # exec from this thread: the open calls are flushed by the exec wrapper when library calls are hooked;
                # otherwise everything up to the last completed return is in a buffer
                need = len(ev) if libcall else max([i + 1 for i in range(len(ev) - 1) if ev[i] % 2 == 1] or [0])
            else:
                need = len(ev)
            if len(got) < need:
                bad.append("%s: %d of its %d records are in the file (%s)" % (
                    w, len(got), need, {1: "ended normally", 2: "ended by pthread_exit", 3: "called exec",
                                        0: "waiting in pthread_join when another thread called exec"}[s["done"]]))
        if pos != len(own):
            bad.append("task %d: %d record(s) of %s out of order at record %d" % (
                tid, len(own) - pos, role_name((own[pos] // 2) // 8), pos))
    if rc != 0:
        bad.append("uftrace record exited with %d: %s" % (rc, err[-200:]))
    if "LOST" in err:
        bad.append("recorder reported LOST records: " + err[-200:])
    return bad, nrec


def finding_status(fid):
    """'open' / 'fixed' / None (not recorded yet) according to known_findings.json"""
    try:
        kf = json.load(open(os.path.join(C.VERIF, "known_findings.json")))
    except (OSError, ValueError):
        return None
    for f in kf.get("findings", []):
        if f.get("id") == fid:
            return f.get("status")
    return None


def report_finding(ctx, fid, what, obj, fix):
    """a genuine defect of /repo recognised by its shape: open entry -> KNOWN-FINDING, fixed entry -> VIOLATION
    (regression), no entry yet -> PENDING-FINDING (exit status 0; the repair is in proposed_fixes/)"""
    st = finding_status(fid)
    if st == "open":
        C.known(ctx, {"id": fid}, "%s %s" % (fid, what))
    elif st == "fixed":
        C.violation(ctx, fid, dict(obj, finding=fid, what=what, note="recorded as fixed in known_findings.json: regression"))
    else:
        msg = "PENDING-FINDING: property=%s %s %s [not yet recorded in known_findings.json; proposed fix %s]" % (
            ctx.prop, fid, what, fix)
        ctx.notes.append(msg)
        ctx.coverage.setdefault("pending_findings", []).append(dict(obj, id=fid, what=what, proposed_fix=fix))
        print(msg)


def keep_source(ctx, src_path, name):
    keep = os.path.join(C.VERIF, "replays", name)
    os.makedirs(os.path.dirname(keep), exist_ok=True)
    try:
        import shutil
        shutil.copy(src_path, keep)
        return keep
    except OSError:
        return None


def run_identity_family(ctx):
    """(c) threads that vfork / fork / pthread_exit / exec, each followed by enough calls for several 4k buffers;
    (d) the vfork probes.  -> statistics"""
    st = {"programs": 0, "runs": 0, "records": 0, "failures": 0, "ops": {}, "probe": {}}
    quick = ctx.tier == "quick"
    flavours = ["pg", "cyg", "fentry"]
    jobs = []
    try:
        corpus = json.load(open(os.path.join(C.VERIF, "corpus", "C03", "identity_scripts.json")))["programs"]
    except (OSError, ValueError, KeyError):
        corpus = []
    plan = [("corpus%d" % i, c) for i, c in enumerate(corpus)] + [("ident%d" % i, None) for i in range(1 if quick else 6)]
    for i, (pname, fixed) in enumerate(plan):
        rng = ctx.rng
        src, desc = gen_identity_program(rng, fixed=fixed)
        d = os.path.join(ctx.scratch, pname)
        os.makedirs(d)
        open(os.path.join(d, "p.c"), "w").write(src)
        for steps in desc["steps"].values():
            for a in steps:
                a = a.split(":")[0]
                if a != "C":
                    st["ops"][a] = st["ops"].get(a, 0) + 1
        st["programs"] += 1
        for fl in ([flavours[(i + ctx.seed) % 3]] if quick else flavours):
            okb, blog = build_program(os.path.join(d, "p.c"), os.path.join(d, "p_" + fl), fl)
            if not okb:
                C.violation(ctx, "identbuild", {"kind": "generated-program-does-not-compile", "log": blog[-2000:]}, True)
                continue
            # library calls hooked (vfork / exec / pthread_exit go through libmcount's PLT hook) and not
            for rep, extra in enumerate([[]] if (fixed and quick) else [[], [], ["--no-libcall"]] if quick else
                                        [[], [], [], ["--no-libcall"]]):
                opts = ["-b", "4k", "--num-thread", str(rng.randint(1, 4))] + extra
                jobs.append((d, fl, desc, opts, rng.choice([None, None, "0,1"]), rep))

    def one(job):
        d, fl, desc, opts, ts, rep = job
        dd = os.path.join(d, "data_%s_%d" % (fl, rep))
        gtf = os.path.join(d, "gt_%s_%d.bin" % (fl, rep))
        exe = os.path.join(d, "p_" + fl)
        rc, out, err = run_record(ctx, exe, dd, gtf, opts, timeout=60, taskset=ts)
        if rc in (-9, 137):
            shm_leftovers(dd)
            return job, ["uftrace record did not terminate within 60 s (killed by the check)"], 0
        if not os.path.exists(gtf):
            return job, ["program did not start: " + err[-300:]], 0
        slots, children = read_identity_log(gtf)
        bad, n = check_identity_run(dd, exe, slots, children, "--no-libcall" not in opts, rc, err)
        shm_leftovers(dd)
        return job, bad, n
    with ThreadPoolExecutor(3) as ex:
        outs = list(ex.map(one, jobs))
    for (d, fl, desc, opts, ts, rep), bad, n in outs:
        st["runs"] += 1
        st["records"] += n
        if bad and "TX" in json.dumps(desc["steps"]):
            # open finding F-C04-THREAD-EXEC-ORDER (listed for C03 too): after exec from a non-initial thread the
            # recorder can flush the new image's own first buffer early; timing dependent (about 1 run in 50 under
            # load).  It counts as that finding only if the very same job passes when it is run again: a defect
            # that is really in the tree fails both times and is reported.
            bad2 = one((d, fl, desc, opts, ts, rep + 100))[1]
            ent = next((f for f in C.known_findings("C03") if f["id"] == "F-C04-THREAD-EXEC-ORDER" and f["status"] == "open"), None)
            if not bad2 and ent is not None:
                st["known_thread_exec_order"] = st.get("known_thread_exec_order", 0) + 1
                C.known(ctx, ent, "F-C04-THREAD-EXEC-ORDER exec from a non-initial thread: the image after exec lost the order of "
                                  "its buffers in one run and not in the repeated run (timing dependent; %s)" % bad[0][:140])
                bad = None
        if bad:
            st["failures"] += 1
            if st["failures"] <= 2:
                keep = keep_source(ctx, os.path.join(d, "p.c"), "C03-identity-seed%d-%s.c" % (ctx.seed, os.path.basename(d)))
                C.violation(ctx, "identity-%s-%s-%d" % (os.path.basename(d), fl, rep), {
                    "kind": "property-violated-on-implementation", "what": bad[:6], "program": keep,
                    "scripts_per_thread": desc["steps"], "legend": ID_NAMES,
                    "build": "gcc -O1 -g -no-pie %s p.c -lpthread" % {"pg": "-pg", "cyg": "-finstrument-functions",
                                                                      "fentry": "-pg -mfentry"}[fl],
                    "command": "uftrace record --no-event %s ./p gt.bin" % " ".join(opts), "taskset": ts,
                    "expected": "<tid>.dat of every thread / forked child / image after exec = exactly the calls its own "
                                "log (gt.bin) says it executed, in order; no record of another thread's functions",
                    "theorem": "c03_quiescent_exact, c03_no_cross_tid, c03_messages_carry_own_tid"})

    # ---- (d) vfork probes ---------------------------------------------------------------------------------
    d = os.path.join(ctx.scratch, "vfprobe")
    os.makedirs(d)
    open(os.path.join(d, "r.c"), "w").write(RACE_SRC % {"maxev": ID_MAXEV, "nslot": ID_NSLOT})
    PROBES = [("control", 0, 1, None, None),
              ("other-thread-returns-from-a-library-call-during-vfork", 1, 1, "F-C03-VFORK-MT", "proposed_fixes/C03-VFORK-MT.diff"),
              ("second-vfork-from-an-uninstrumented-caller", 0, 2, "F-C03-VFORK-AGAIN", "proposed_fixes/C03-VFORK-AGAIN.diff")]
    for fl in ([flavours[(ctx.seed + 1) % 3]] if quick else flavours):
        exe = os.path.join(d, "r_" + fl)
        okb, blog = build_program(os.path.join(d, "r.c"), exe, fl)
        if not okb:
            C.violation(ctx, "probebuild", {"kind": "generated-program-does-not-compile", "log": blog[-2000:]}, True)
            continue
        nafter = ctx.rng.randint(150, 300)

        def probe(pr):
            name, plt, nv, fid, fix = pr
            dd = os.path.join(d, "data_%s_%s" % (fl, name[:8]))
            gtf = os.path.join(d, "gt_%s_%s.bin" % (fl, name[:8]))
            rc, out, err = run_record(ctx, exe, dd, gtf, ["-b", "4k"], prog_args=[plt, nv, nafter], timeout=60)
            if not os.path.exists(gtf):
                return ["program did not start: " + err[-300:]], 0
            slots, children = read_identity_log(gtf)
            bad, n = check_identity_run(dd, exe, slots, children, True, rc, err)
            shm_leftovers(dd)
            return bad, n
        with ThreadPoolExecutor(3) as ex:
            pouts = list(ex.map(probe, PROBES))
        control_bad = pouts[0][0]
        # the identity machine (Shmem.idRun) on the three schedules: which variant of it is this tree?
        again, mt = (0 if pouts[2][0] else 1), (0 if pouts[1][0] else 1)
        sched = ["TID %d %d 100 101 g v200 d0 g" % (again, mt),                       # control: one vfork of thread 101
                 "TID %d %d 100 102 g o101 g" % (again, mt),                          # thread 102 while 101 vforks
                 "TID %d %d 100 101 g v200 d0 g v201 d1 g" % (again, mt)]             # second vfork, stale frame
        mo = run_model("C03", sched + [l.replace("TID %d %d" % (again, mt), "TID 1 1") for l in sched])
        own = [" own=1" in (" " + l) for l in mo]
        st["identity_model"] = {"variant": {"again": again, "mt": mt}, "model_says_own": own[:3], "repaired_model_says_own": own[3:],
                                "impl_probe_ok": [not p[0] for p in pouts]}
        if own[:3] != [not p[0] for p in pouts] or own[3:] != [True, True, True]:
            C.violation(ctx, "identity-model-%s" % fl, {
                "kind": "model-code-disagreement", "model_lines": sched, "model_answers": mo,
                "impl_probe_failures": [p[0][:3] for p in pouts],
                "theorem": "c03_messages_carry_own_tid / c03_prefix_vfork_again_witness / c03_prefix_vfork_mt_witness "
                           "(Shmem.idStep vs libmcount/plthook.c prepare_vfork, setup_vfork, restore_vfork)"}, True)
        for (name, plt, nv, fid, fix), (bad, n) in zip(PROBES, pouts):
            st["runs"] += 1
            st["records"] += n
            pv = st["probe"].setdefault(name, {"runs": 0, "failures": 0})
            pv["runs"] += 1
            if not bad:
                continue
            pv["failures"] += 1
            obj = {"kind": "property-violated-on-implementation", "what": bad[:6],
                   "program": keep_source(ctx, os.path.join(d, "r.c"), "C03-vfork-probe.c"),
                   "build": "gcc -O1 -g -no-pie <%s flags> r.c -lpthread" % fl,
                   "command": "uftrace record --no-event -b 4k ./r gt.bin %d %d %d   (use_plt, number of vforks, calls "
                              "after each)" % (plt, nv, nafter),
                   "theorem": "c03_no_cross_tid, c03_quiescent_exact, c03_messages_carry_own_tid"}
            bad = sorted(bad, key=lambda b: ("another thread" not in b, "exited with" not in b))
            if fid is None or control_bad:
                st["failures"] += 1
                C.violation(ctx, "vfork-probe-%s-%s" % (name[:12], fl), obj)
            elif name.startswith("other"):
                report_finding(ctx, fid, "while one thread is inside vfork() every other thread of the process that returns "
                               "from a library call runs restore_vfork() (libmcount/plthook.c: `if (vfork_parent)` is a "
                               "process-wide flag): it takes over the vforking thread's rstack index, record depth and "
                               "shared-memory buffers - records of one thread land in another thread's <tid>.dat, "
                               "buffers are written concurrently, the traced program usually dies with SIGSEGV "
                               "(%s; control without the library call passes)" % bad[0][:200], obj, fix)
            else:
                report_finding(ctx, fid, "the second vfork() of a thread from a caller that is not instrumented (rstack depth 0), "
                               "the child calling only _exit/exec (their PLT entry stays resolved, no frame is pushed): the "
                               "parent restores the saved vfork frame with MCOUNT_FL_VFORK still set and runs setup_vfork() "
                               "itself - its tid cache becomes getpid(), it announces itself as a forked child of `uftrace "
                               "record` and starts buffers under the main thread's name: its records land in <pid>.dat, the "
                               "buffer it was filling is never written, no LOST report (%s; one vfork passes)" % bad[0][:200],
                               obj, fix)
    return st


def h1_case_set(ctx, n):
    cases = []
    for i in range(n):
        rng = ctx.rng
        nt = rng.choice([1, 1, 2, 2, 3])
        cases.append(Gen(rng, nt, rng.randint(1, 3), rng.choice([48, 48, 64, 96, 160, 496, 4080]),
                         rng.randint(20, 90), rng.choice([0, 0, 0.1, 0.3]),
                         rng.choice([[0], [0, 0, 8, 16], [0, 24], [0, 8, 40]])))
    return cases


def run(ctx):
    ok, problems = C.prove(ctx, "C03")
    if not ok:
        C.violation(ctx, "proof", {"kind": "proof-obligation-broken", "problems": problems}, True)
        return C.finish(ctx)
    ctx.snapshot()
    make_job = start_make(ctx)

    # ---- (a) H1: real producer vs model, step by step ------------------------------------------
    exe, log = build_h1(ctx)
    if not exe:
        C.violation(ctx, "build", {"kind": "harness-build-failed", "log": log[-3000:]}, True)
        return C.finish(ctx)
    ncase = 60 if ctx.tier == "quick" else 1500
    cases = h1_case_set(ctx, ncase)
    res = run_h1_cases(ctx, exe, cases)
    nsteps = sum(len(d["impl"]) for d in res)
    disagree = sum(1 for d in res if d["first_diff"])
    monfail = sum(1 for d in res if d["monitor"])
    distinct = set()
    stats = {"lost_markers": 0, "ring_shrinks": 0, "max_ring": 0, "reuse_of_written_buffer": 0,
             "buffers_passed_to_busy_writer": 0, "alloc_failures_requested": 0}
    samples = []
    reported = 0
    for ci, d in enumerate(res):
        g = d["gen"]
        prevn = {}
        for l in d["impl"]:
            nl = norm_state(l)
            distinct.add(hash(nl))
            st = parse_state(nl)
            for k, t in st["threads"].items():
                n = len(t["bufs"])
                if not t["done"]:
                    if k in prevn and n < prevn[k]:
                        stats["ring_shrinks"] += 1
                    prevn[k] = n
                stats["max_ring"] = max(stats["max_ring"], n)
                stats["reuse_of_written_buffer"] += sum(1 for fl, _ in t["bufs"] if fl == "RW")
            stats["buffers_passed_to_busy_writer"] += sum(1 for w in st["WR"] if w.count(":") == 2 and w.split(":")[2])
        if d["impl"]:
            st = parse_state(norm_state(d["impl"][-1]))
            stats["lost_markers"] += sum(1 for f in st["files"].values() for x in f if x.startswith("L"))
        stats["alloc_failures_requested"] += sum(1 for h, _ in g.ops if " rtd 0 " in h)
        if ci % 37 == 3 and len(samples) < 3 and d["impl"]:
            j = len(d["impl"]) // 2
            samples.append({"threads": g.nt, "writers": g.nw, "maxsize": g.maxsize, "op": g.ops[j][0],
                            "impl": norm_state(d["impl"][j])[:400], "model": norm_state(d["model"][j])[:400]})
        if (d["first_diff"] or d["monitor"]) and reported < 3:
            reported += 1
            fd = d["first_diff"]
            C.violation(ctx, "h1case%d" % ci, {
                "kind": "property-violated-on-implementation" if d["monitor"] else "model-code-disagreement",
                "what": d["monitor"],
                "config": {"threads": g.nt, "writers": g.nw, "maxsize": g.maxsize, "bufsize": g.maxsize + 16},
                "harness_script": [o[0] for o in g.ops][: (fd[0] + 1 if fd else len(g.ops))],
                "model_script": [m for o in g.ops[: (fd[0] + 1 if fd else len(g.ops))] for m in o[1]],
                "first_difference_at_op": fd[0] if fd else None,
                "impl_state": fd[1] if fd else None, "model_state": fd[2] if fd else None,
                "theorem": "c03_conservation / c03_lost_only_on_alloc_failure_and_whole" if d["monitor"] else
                           "correspondence Shmem.step vs libmcount/record.c",
            }, no_failing_input=not d["monitor"])

    # ---- (b) e2e: real recorder -------------------------------------------------------------------
    okm, mlog = make_job.result()
    e2e = {"runs": 0, "records": 0, "threads": 0, "failures": 0, "estimate_return_runs": 0,
           "fork_from_unseen_thread_runs": 0, "tasks_with_less_than_one_buffer": 0}
    if not okm:
        C.violation(ctx, "make", {"kind": "snapshot-build-failed", "log": mlog[-3000:]}, True)
    else:
        nprog = 3 if ctx.tier == "quick" else 40
        jobs = []
        for i in range(nprog):
            rng = ctx.rng
            nt = rng.randint(2, 5)
            src, nf = gen_program(rng, nt, scale=rng.choice([4, 10] if ctx.tier == "quick" else [4, 10, 20]))
            d = os.path.join(ctx.scratch, "e2e%d" % i)
            os.makedirs(d)
            open(os.path.join(d, "p.c"), "w").write(src)
            fl = ["pg", "cyg", "fentry"][i % 3]
            okb, blog = build_program(os.path.join(d, "p.c"), os.path.join(d, "p"), fl)
            if not okb:
                C.violation(ctx, "e2ebuild", {"kind": "generated-program-does-not-compile", "log": blog[-2000:]}, True)
                continue
            for rep in range(2 if ctx.tier == "quick" else 4):
                nthr = rng.randint(1, 4)
                opts = ["-b", "4k", "--num-thread", str(nthr)] + (["--no-libcall"] if rng.random() < 0.5 else [])
                # options that change WHEN libmcount emits records (no draw from ctx.rng: the schedule of the other
                # families stays what it was): --estimate-return writes the EXIT of a call at the next call of the
                # thread and everything still open when the process ends
                if rep % 2 == 1:
                    opts.append("--estimate-return")
                jobs.append((d, fl, nt, opts, rng.choice([None, None, "0", "0,1"]), rep))

        # fork from a thread libmcount has not seen (uninstrumented main forks first; own generator: the draws of the
        # families above and below stay what they were): the child's first buffer is announced by mcount_prepare and
        # again by the atfork handler; children with less than one buffer are written by the final flush only
        import random as _random
        frng = _random.Random(ctx.seed * 977 + 5)
        fork_dirs = set()
        for i in range(2 if ctx.tier == "quick" else 12):
            nt = frng.randint(2, 5)
            src, nf, pw = gen_fork_program(frng, nt, scale=frng.choice([2, 4]))
            d = os.path.join(ctx.scratch, "e2ef%d" % i)
            os.makedirs(d)
            open(os.path.join(d, "p.c"), "w").write(src)
            fl = ["pg", "fentry", "cyg"][i % 3]
            okb, blog = build_program(os.path.join(d, "p.c"), os.path.join(d, "p"), fl)
            if not okb:
                C.violation(ctx, "e2ebuild", {"kind": "generated-program-does-not-compile", "log": blog[-2000:]}, True)
                continue
            fork_dirs.add(d)
            for rep in range(2):
                opts = ["-b", "4k", "--num-thread", str(frng.randint(1, 4))] + (["--no-libcall"] if rep == 0 else [])
                jobs.append((d, fl, nt, opts, None, rep))

        def one(job):
            d, fl, nt, opts, ts, rep = job
            dd = os.path.join(d, "data%d" % rep)
            gtf = os.path.join(d, "gt%d.bin" % rep)
            rc, out, err = run_record(ctx, os.path.join(d, "p"), dd, gtf, opts, taskset=ts)
            if not os.path.exists(gtf):
                return job, rc, ["program did not start: " + err[-300:]], 0, []
            gt = read_ground_truth(gtf, nt)
            bad, n = check_exact(dd, os.path.join(d, "p"), gt, nt, main_traced=d not in fork_dirs)
            shm_leftovers(dd)
            if rc != 0:
                bad.append("uftrace record exited with %d: %s" % (rc, err[-200:]))
            if "LOST" in err:
                bad.append("recorder reported LOST records: " + err[-200:])
            return job, rc, bad, n, [g["n"] for g in gt]
        with ThreadPoolExecutor(4) as ex:
            outs = list(ex.map(one, jobs))
        for (d, fl, nt, opts, ts, rep), rc, bad, n, evs in outs:
            e2e["runs"] += 1
            e2e["estimate_return_runs"] += "--estimate-return" in opts
            e2e["fork_from_unseen_thread_runs"] += d in fork_dirs
            e2e["tasks_with_less_than_one_buffer"] += sum(1 for x in evs if 0 < x < 255)
            e2e["records"] += n
            e2e["threads"] += nt
            if bad:
                e2e["failures"] += 1
                if e2e["failures"] <= 2:
                    keep = os.path.join(C.VERIF, "replays", "C03-e2e-seed%d-%s.c" % (ctx.seed, os.path.basename(d)))
                    os.makedirs(os.path.dirname(keep), exist_ok=True)
                    try:
                        import shutil
                        shutil.copy(os.path.join(d, "p.c"), keep)
                    except OSError:
                        keep = None
                    C.violation(ctx, "e2e-%s-%d" % (os.path.basename(d), rep), {
                        "kind": "property-violated-on-implementation", "what": bad[:5], "program": keep,
                        "build": "gcc -O1 -g -no-pie %s p.c -lpthread" % fl,
                        "command": "uftrace record --no-event %s ./p gt.bin" % " ".join(opts), "taskset": ts,
                        "events_per_thread": evs, "theorem": "c03_quiescent_exact, c03_no_cross_tid"})

    # ---- (c) e2e: threads that change their identity; (d) vfork probes ------------------------------------------
    ident = {}
    if okm:
        ident = run_identity_family(ctx)

    # ---- (e) H2: the recorder's writer pool, real code of cmds/record.c, scripted schedules -----------------------
    wpool = {}
    if okm:
        wpool = WRITERS.run_family(ctx, C, run_model)

    ctx.coverage.update({
        "writer_pool": wpool,
        "evaluations": nsteps + e2e["records"] + ident.get("records", 0) + wpool.get("steps_compared", 0),
        "distinct_nontrivial": len(distinct),
        "rule": "H1: %d random schedules (1-3 producer threads x 1-3 writers x buffer payload sizes "
                "48..4080 B x record sizes 16..56 B x allocation-failure rate 0/0.1/0.3), every step compared "
                "(full state: flags, contents, curr, losts, messages, queues, files); distinct = distinct global "
                "states seen. e2e: generated multi-threaded programs under the real recorder, -b 4k, "
                "--num-thread 1..4, optional CPU pinning, every second run with --estimate-return, streams compared "
                "record by record with the program's own ground-truth log, the initial thread's file begins with main's "
                "ENTRY and ends with main's EXIT; the same functions as processes: an uninstrumented main() forks 1-4 "
                "children before anything was traced (some trace less than one buffer, some end by _exit), with and "
                "without --no-libcall. e2e identity: generated programs whose threads vfork (+_exit / +exec in the "
                "child), fork (the child traces on), pthread_exit from nested calls and exec from a non-initial thread, "
                "each op inside two open traced calls and followed by enough calls for several 4k buffers, with and "
                "without --no-libcall; every <tid>.dat (threads, fork children, image after exec) = the task's own log. "
                "vfork probes: control / another thread returning from a library call during the vfork / a second vfork "
                "from an uninstrumented caller. H2 writer pool: cmds/record.c itself (REC_START/REC_END handling, "
                "copy_to_buffer, 1-4 real writer threads, final flush) under generated schedules of 2-6 tasks with the "
                "producer 1-8x ahead of the writers, first buffers announced twice, every step compared with Writers.Sess"
                % len(res),
        "h1_schedules": len(res), "h1_steps_compared": nsteps, "model_code_disagreements": disagree,
        "monitor_failures_on_impl": monfail, "h1_features_exercised": stats,
        "e2e": e2e, "e2e_identity": ident, "exhaustive": False, "samples": samples,
    })
    ctx.assumptions += [
        "x86-64 TSO: the producer's stores (bytes, then size) and the recorder's (size = 0, then flag = WRITTEN) "
        "become visible in program order; no torn 32-bit stores",
        "a record is never larger than a buffer (uftrace -b rounds up to the page size, records are at most "
        "16 + 1024 bytes); a thread that has run mtd_dtor emits nothing more",
        "H1 plays the recorder with a stand-in (same list discipline as cmds/record.c); the real recorder code runs in "
        "the H2 writer-pool harness (harness/c03_writer.c: cmds/record.c #included, writer threads stepped at poll(), "
        "per buffer write and the second critical section; trace buffers are memfds with tagged contents, no real "
        "tracee) and in the e2e runs, where the schedule is whatever the kernel does",
        "H2 schedules run each critical section of writer_thread/copy_to_buffer atomically (they are under "
        "write_list_lock in the code); a buffer is filled once (no reuse of a written buffer inside one H2 schedule: "
        "reuse is covered by H1 and e2e)",
        "FIFO writes of one message are atomic (PIPE_BUF) and messages of one thread arrive in order",
        "e2e identity programs: while one thread is inside vfork() no other thread returns from a call through the PLT "
        "(barriers and locks are taken with inline system calls): the interleaving that does is the vfork probe "
        "(finding F-C03-VFORK-MT); two threads inside vfork() at once are not generated (libmcount keeps one process-wide "
        "vfork state: `it's crazy to call vfork() concurrently`)",
        "the identity machine Shmem.idRun is tied to libmcount only by the three probe schedules and the e2e programs "
        "(no in-process harness reaches plthook.c's vfork path)",
    ]
    return C.finish(ctx)


def replay(ctx, path):
    r = json.load(open(path))
    print(json.dumps({k: v for k, v in r.items() if k not in ("harness_script", "model_script")}, indent=1))
    if "writer_script" in r:
        ctx.snapshot()
        ensure_version_h(ctx)
        okm, mlog = ctx.make()
        if not okm:
            print(mlog[-2000:])
            return 1
        return WRITERS.replay_script(ctx, C, run_model, r)
    if "harness_script" in r:
        ctx.snapshot()
        exe, log = build_h1(ctx)
        if exe:
            rr = run_harness(ctx, exe, 0, r["config"]["bufsize"], r["harness_script"])
            cleanup_run(rr)
            mout = run_model("C03", r["model_script"])
            impl = [l for l in rr["lines"] if l.startswith(("ok", "disabled", "bad-op"))]
            print("IMPL :", norm_state(impl[-1]) if impl else rr["stderr"][-300:])
            print("MODEL:", norm_state(mout[-1]) if mout else None)
            return 0 if impl and mout and norm_state(impl[-1]) == norm_state(mout[-1]) else 1
    return 0
