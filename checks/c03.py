"""C03 — No record is lost, duplicated or torn between tracee and recorder.
Lean: Uft/Model/{Writers,Shmem,Crash}.lean, Uft/Lemmas/{Writers,Shmem}.lean, Uft/Props/C03.lean.
Tie (a) H1: the real libmcount (record.c, misc.c, mcount.c, utils/shmem.c) as the producer, driven in-process
        by harness/h1_c03_driver.c under a scripted schedule with tiny buffers and injected allocation
        failures; the driver plays the recorder by hand against the real shared memory and FIFO; the whole
        state (buffer flags and contents, curr, losts, messages, queues, files) is compared with the model
        after every step.
    (b) e2e: generated multi-threaded programs with a ground-truth log run under the snapshot's real
        `uftrace record -b 4k --num-thread N`; every <tid>.dat is decoded and compared with the thread's log.
A monitor evaluates the property itself (conservation, order, no foreign records, LOST placement) on the
implementation's output in both."""
import glob
import json
import os
import re
import struct
import subprocess
from concurrent.futures import ThreadPoolExecutor

from lib import common as C, h1

DRIVER = "h1_c03_driver.c"


def run_model(name, lines):
    """C.run_model, tolerant of another builder relinking uvmodel at this very moment"""
    import time
    last = None
    for _ in range(40):
        try:
            return C.run_model(name, lines)
        except (FileNotFoundError, PermissionError, OSError, RuntimeError) as e:
            last = e
            time.sleep(3)
    raise last


# --------------------------------------------------------------------------------------------------
# H1 tie: schedule generator
# --------------------------------------------------------------------------------------------------
class Gen:
    """One case: configuration + list of ops.  Each op is (harness_line, [model_lines])."""

    def __init__(self, rng, nthreads, nwriters, maxsize, nops, pfail, payloads, finish_mode="finish"):
        self.rng = rng
        self.nt = nthreads
        self.nw = nwriters
        self.maxsize = maxsize
        self.pfail = pfail
        self.payloads = payloads
        self.ops = []
        self.next_ip = 1
        self.prepared = set()
        self.stopped = set()
        self.emitted = {k: [] for k in range(1, nthreads + 1)}   # (id, batch_ok)
        self.ops.append(("RESET %d %d 1" % (nwriters, maxsize), ["RESET %d %d 1" % (nwriters, maxsize)]))
        self.finish_mode = finish_mode
        self.closed = False
        for _ in range(nops):
            self.random_op()
        self.drain()

    def rec_size(self, payload):
        return 16 + payload

    def rtd(self, k):
        rng = self.rng
        np_ = rng.choice([0, 0, 0, 1, 1, 2, 3, 5]) if self.maxsize >= 48 else rng.choice([0, 0, 1])
        ok = 0 if rng.random() < self.pfail else 1
        failkind = rng.randrange(4)
        frames = []
        for _ in range(np_ + 1):
            ip = self.next_ip
            self.next_ip += 1
            pl = rng.choice(self.payloads)
            if 16 + pl > self.maxsize:
                pl = 0
            frames.append((ip, pl))
        # a WRITTEN frame has only WRITTEN frames below it (record_trace_data relies on that, lines 1090-1116)
        ownwritten = 1 if (np_ == 0 and rng.random() < 0.35) else 0
        ex = 1 if (ownwritten or rng.random() < 0.7) else 0
        recs = [(2 * ip, 16 + pl, 1 if pl else 0, "P") for ip, pl in frames[:-1]]
        if not ownwritten:
            recs.append((2 * frames[-1][0], 16 + frames[-1][1], 1 if frames[-1][1] else 0, "O"))
        if ex:
            recs.append((2 * frames[-1][0] + 1, 16, 0, "X"))
        n = len(recs)
        toks = []
        for i, (rid, sz, pl, kind) in enumerate(recs):
            extra = (n - i - 1) if kind == "P" else 0
            toks += [str(rid), str(sz), str(pl), str(extra), str(ok)]
            self.emitted[k].append((rid, ok))
        h = "P %d rtd %d %d %d %s %d %d %d %d" % (
            k, ok, failkind, np_, " ".join("%d %d" % f for f in frames[:-1]), frames[-1][0], frames[-1][1],
            ownwritten, ex)
        m = "P %d batch %s" % (k, " ".join(toks))
        self.ops.append((C.norm(h), [m]))

    def random_op(self):
        rng = self.rng
        r = rng.random()
        live = [k for k in self.prepared if k not in self.stopped]
        if r < 0.07 or not self.prepared:
            cand = [k for k in range(1, self.nt + 1) if k not in self.prepared]
            if cand and not self.closed:
                k = rng.choice(cand)
                self.prepared.add(k)
                self.ops.append(("P %d prepare" % k, ["P %d prepare" % k]))
                return
        if r < 0.55 and live and not self.closed:
            self.rtd(rng.choice(live))
        elif r < 0.58:
            # the recorder catches up (lets the producer reuse and shrink its ring)
            for _ in range(rng.choice([5, 20, 60])):
                self.ops.append(("R read", ["R read"]))
                w = rng.randrange(self.nw)
                for what in ("pick", "write", "splice"):
                    self.ops.append(("W %d %s" % (w, what), ["W %d %s" % (w, what)]))
        elif r < 0.70:
            self.ops.append(("R read", ["R read"]))
        elif r < 0.95:
            w = rng.randrange(self.nw)
            what = rng.choice(["pick", "write", "write", "splice"])
            self.ops.append(("W %d %s" % (w, what), ["W %d %s" % (w, what)]))
        elif r < 0.97 and live and len(self.emitted[live[0]]) > 3:
            k = rng.choice(live)
            self.stopped.add(k)
            self.ops.append(("P %d finish" % k, ["P %d finish" % k]))
        else:
            self.ops.append(("R read", ["R read"]))

    def drain(self):
        """normal end: every thread exits through mtd_dtor, the recorder reads and writes everything"""
        for k in sorted(self.prepared):
            if k not in self.stopped:
                self.stopped.add(k)
                self.ops.append(("P %d finish" % k, ["P %d finish" % k]))
        nmsg = 3 * sum(len(v) for v in self.emitted.values()) + 8 * self.nt + 8
        for _ in range(min(nmsg, 400)):
            self.ops.append(("R read", ["R read"]))
            w = self.rng.randrange(self.nw)
            for what in ("pick", "write", "splice"):
                self.ops.append(("W %d %s" % (w, what), ["W %d %s" % (w, what)]))
        for w in range(self.nw):
            for _ in range(6):
                for what in ("pick", "write", "write", "write", "splice"):
                    self.ops.append(("W %d %s" % (w, what), ["W %d %s" % (w, what)]))


def run_harness(ctx, exe, case_id, bufsize, script, extra_env=None, timeout=60):
    """Run one script in a fresh process of the H1 driver (FIFO created here, consumed by the driver)."""
    d = os.path.join(ctx.scratch, "c03run-%d-%d" % (os.getpid(), case_id))
    os.makedirs(d, exist_ok=True)
    fifo = os.path.join(d, ".channel")
    if os.path.exists(fifo):
        os.unlink(fifo)
    os.mkfifo(fifo)
    rfd = os.open(fifo, os.O_RDONLY | os.O_NONBLOCK)
    env = {"PATH": os.environ.get("PATH", "/usr/bin:/bin"), "UFTRACE_DIR": d, "UFTRACE_BUFFER": str(bufsize)}
    env.update(extra_env or {})
    p = subprocess.Popen([exe], stdin=subprocess.PIPE, stdout=subprocess.PIPE, stderr=subprocess.PIPE, text=True, env=env)
    try:
        out, err = p.communicate("\n".join(script) + "\n", timeout=timeout)
        rc = p.returncode
    except subprocess.TimeoutExpired:
        p.kill()
        out, err = p.communicate()
        rc, err = -999, (err or "") + "TIMEOUT"
    rest = b""
    while True:
        try:
            chunk = os.read(rfd, 1 << 16)
        except BlockingIOError:
            break
        if not chunk:
            break
        rest += chunk
    os.close(rfd)
    lines = out.split("\n")
    if lines and lines[-1] == "":
        lines.pop()
    sess = None
    for l in lines + (err or "").split("\n"):
        if l.startswith("SESS ") and len(l.split()) > 1:
            sess = l.split()[1]
    # messages the driver did not consume (SEGVSELF): find the session there
    msgs = parse_msgs(rest)
    for typ, payload in msgs:
        if typ in ("REC_START", "REC_END") and sess is None:
            m = re.match(rb"/uftrace-([0-9a-f]{16})-", payload)
            if m:
                sess = m.group(1).decode()
    return {"lines": lines, "rc": rc, "stderr": err, "sess": sess, "msgs": msgs, "dir": d}


def cleanup_run(r):
    if r.get("sess"):
        for f in glob.glob("/dev/shm/uftrace-%s-*" % r["sess"]):
            try:
                os.unlink(f)
            except OSError:
                pass
    d = r.get("dir")
    if d and os.path.isdir(d):
        for f in glob.glob(os.path.join(d, "*")) + glob.glob(os.path.join(d, ".channel")):
            try:
                os.unlink(f)
            except OSError:
                pass
        try:
            os.rmdir(d)
        except OSError:
            pass


def parse_msgs(data):
    msgs, off = [], 0
    while off + 8 <= len(data):
        magic, typ, ln = struct.unpack_from("<HHI", data, off)
        if magic != 0xface:
            msgs.append(("BADMAGIC", data[off:off + 16]))
            break
        msgs.append((h1.MSG_NAMES.get(typ, str(typ)), data[off + 8: off + 8 + ln]))
        off += 8 + ln
    return msgs


DONE_BUFS = re.compile(r"(T\d+ alive=\d done=1 curr=- losts=\d+) bufs=\[[^\]]*\]")


def norm_state(line):
    """After mtd_dtor the producer has unmapped its buffers (clear_shmem_buffer): the driver cannot show
    them any more, the model keeps them.  Compare everything else."""
    line = C.norm(line)
    if " STEPS " in line:
        m = re.search(r"views=(\S*)", line)
        bad = " agree=0" in line or (" exit=" in line and " exit=0 " not in line)
        return "ok STEPS %sviews=%s" % ("BROKEN " if bad else "", m.group(1) if m else "?")
    line = DONE_BUFS.sub(r"\1 bufs=[*]", line)
    return line


# --------------------------------------------------------------------------------------------------
# the property as a monitor on the implementation's own output
# --------------------------------------------------------------------------------------------------
def parse_state(line):
    st = {"threads": {}, "files": {}}
    for m in re.finditer(r"T(\d+) alive=(\d) done=(\d) curr=(\S+) losts=(\d+) bufs=\[([^\]]*)\]", line):
        bufs = []
        if m.group(6) != "*":
            for b in m.group(6).split(";") if m.group(6) else []:
                fl, _, items = b.partition(":")
                bufs.append((fl, [x for x in items.split(",") if x]))
        st["threads"][int(m.group(1))] = {"done": m.group(3) == "1", "curr": m.group(4), "losts": int(m.group(5)),
                                           "bufs": bufs}
    for m in re.finditer(r"F(\d+)=\[([^\]]*)\]", line):
        st["files"][int(m.group(1))] = [x for x in m.group(2).split(",") if x]
    for key in ("PIPE", "SHM", "WL"):
        m = re.search(key + r"=\[([^\]]*)\]", line)
        st[key] = [x for x in m.group(1).split(",") if x] if m else []
    m = re.search(r"WR=\[([^\]]*)\]", line)
    st["WR"] = m.group(1).split(";") if m else []
    m = re.search(r"LOST=(\d+)", line)
    st["LOST"] = int(m.group(1)) if m else 0
    return st


def monitor_stream(items, emitted, complete):
    """`items`: what reached the file (+ what is still in flight, in order) for one thread; `emitted`:
    [(id, batch_ok)] in emission order.  Property: items = emitted minus whole runs of dropped records, in
    order, nothing duplicated or foreign; every run of drops starts in a batch with a failed allocation and is
    followed by exactly one LOST marker (count > 0) placed before the next surviving record; no LOST marker
    elsewhere.  `complete`: the thread has ended and everything was written (otherwise `items` may stop early)."""
    pos = 0
    n = len(emitted)
    i = 0
    while i < len(items):
        it = items[i]
        if it.startswith("~"):
            return "torn record %s in the stream" % it
        if it.startswith("TRAIL"):
            return "partial record bytes at the end (%s)" % it
        if it.startswith("L"):
            cnt = int(it[1:])
            if cnt <= 0:
                return "LOST marker with count %d" % cnt
            if i + 1 >= len(items):
                if complete:
                    return "LOST marker %s is not followed by a record" % it
                i += 1
                continue
            nxt = items[i + 1]
            if nxt.startswith("L") or nxt.startswith("~"):
                return "LOST marker %s followed by %s" % (it, nxt)
            j = pos
            while j < n and str(emitted[j][0]) != nxt:
                j += 1
            if j == n:
                return "record %s after %s was not emitted by this thread (or is duplicated/reordered)" % (nxt, it)
            if j == pos:
                return "LOST marker %s although no record was dropped before %s" % (it, nxt)
            if emitted[pos][1]:
                return "records from %s dropped although no allocation failed in their batch" % emitted[pos][0]
            pos = j
            i += 1
            continue
        if pos < n and str(emitted[pos][0]) == it:
            pos += 1
            i += 1
            continue
        j = pos
        while j < n and str(emitted[j][0]) != it:
            j += 1
        if j == n:
            return "record %s was not emitted by this thread, or is duplicated / out of order" % it
        return "records %s..%s are missing before %s without a LOST marker" % (emitted[pos][0], emitted[j - 1][0], it)
    if complete and pos < n:
        # a trailing run of drops (the thread ended without another surviving record) is allowed only if it
        # starts in a failed batch
        if emitted[pos][1]:
            return "records from %s on never reached the file although nothing failed" % emitted[pos][0]
    return None


def ensure_version_h(ctx):
    ctx.snapshot()
    # version.h is generated by the Makefile; /repo may have been cleaned
    if not os.path.exists(os.path.join(ctx.src, "version.h")):
        C.sh(["make", "-C", ctx.src, "-s", os.path.join(ctx.src, "version.h")])


_MAKE_POOL = ThreadPoolExecutor(1)


def start_make(ctx):
    """build uftrace + libmcount of the snapshot in the background (needed only by the e2e part)"""
    ensure_version_h(ctx)
    return _MAKE_POOL.submit(ctx.make)


def build_h1(ctx, extra_cflags=(), out="h1c03"):
    ensure_version_h(ctx)
    return h1.build(ctx, "normal", extra_cflags=extra_cflags, driver=DRIVER, out=out)


def run_h1_cases(ctx, exe, cases, model_name="C03", extra_env=None):
    """cases: list of Gen.  Returns list of dict(case, impl, model, first_diff, monitor)."""
    # pass 1: the model alone on the generous schedule; ops that are not enabled (no state change) are
    # pruned from the schedule (a few are kept), so that the harness runs only what matters
    mlines = []
    spans = []
    for g in cases:
        idx = []
        for h, ms in g.ops:
            mlines += ms
            idx.append(len(mlines) - 1)
        spans.append(idx)
    mout = run_model(model_name, mlines)
    for g, idx in zip(cases, spans):
        keep = []
        nd = 0
        for j, i in enumerate(idx):
            if mout[i].startswith("disabled"):
                nd += 1
                if nd % 17 != 0:
                    continue
            keep.append(j)
        g.ops = [g.ops[j] for j in keep]
        idx[:] = [idx[j] for j in keep]

    def one(ic):
        i, g = ic
        r = run_harness(ctx, exe, i, g.maxsize + 16, [o[0] for o in g.ops], extra_env=extra_env)
        cleanup_run(r)
        return r
    with ThreadPoolExecutor(8) as ex:
        rs = list(ex.map(one, enumerate(cases)))
    res = []
    for g, r, idx in zip(cases, rs, spans):
        impl = [l for l in r["lines"] if l.startswith(("ok", "disabled", "bad-op"))]
        model = [mout[i] for i in idx]
        d = {"gen": g, "raw": r, "impl": impl, "model": model, "first_diff": None, "monitor": None}
        if len(impl) != len(g.ops):
            d["first_diff"] = (len(impl), "harness produced %d lines for %d ops (rc=%s, stderr=%s)" % (
                len(impl), len(g.ops), r["rc"], r["stderr"][-300:]), "")
        else:
            for j, (a, b) in enumerate(zip(impl, model)):
                if norm_state(a) != norm_state(b):
                    d["first_diff"] = (j, norm_state(a), norm_state(b))
                    break
        # monitor on the implementation's final state
        if impl and " STEPS " not in impl[-1]:
            st = parse_state(norm_state(impl[-1]))
            drained = not st["PIPE"] and not st["WL"] and all(w.startswith("-") for w in st["WR"])
            for k, f in st["files"].items():
                complete = drained and st["threads"].get(k, {}).get("done", False)
                bad = monitor_stream(f, g.emitted.get(k, []), complete)
                if bad:
                    d["monitor"] = "thread %d: %s" % (k, bad)
                    break
            # intermediate states: what is in the file is always a prefix-consistent stream
            if not d["monitor"]:
                for j in range(0, len(impl), max(1, len(impl) // 25)):
                    stj = parse_state(norm_state(impl[j]))
                    for k, f in stj["files"].items():
                        bad = monitor_stream(f, g.emitted.get(k, []), False)
                        if bad:
                            d["monitor"] = "after op %d, thread %d: %s" % (j, k, bad)
                            break
                    if d["monitor"]:
                        break
        res.append(d)
    return res


# --------------------------------------------------------------------------------------------------
# e2e: generated multi-threaded programs with a ground-truth log, under the real `uftrace record`
# --------------------------------------------------------------------------------------------------
E2E_HDR = r'''
#define _GNU_SOURCE
#include <stdio.h>
#include <stdlib.h>
#include <stdint.h>
#include <string.h>
#include <pthread.h>
#include <unistd.h>
#include <fcntl.h>
#include <signal.h>
#include <sys/mman.h>
#include <sys/syscall.h>
#define NI __attribute__((noinline))
#define NOINST __attribute__((no_instrument_function))
#define MAXEV %(maxev)d
#define NT %(nt)d
struct tlog { volatile uint32_t tid, n, exited, pad; volatile uint8_t ev[MAXEV]; };
static struct tlog *logs;
static __thread struct tlog *me;
static __thread int my_idx = -1;
static int kill_thread = -1, kill_at = -1, kill_mode = 0;
static char *self_exe;
NI void finish_trigger_fn(void) { asm volatile("" ::: "memory"); }
static NOINST void die(void)
{
	switch (kill_mode) {
	case 1: kill(getpid(), SIGKILL); for (;;) pause();
	case 2: { volatile int *p = 0; *p = 1; } break;
	case 3: abort();
	case 4: _exit(7);
	case 5: { char *a[] = { "/bin/true", 0 }; execv("/bin/true", a); _exit(9); }
	case 6: finish_trigger_fn(); break;
	case 7: exit(5);
	}
}
static inline __attribute__((always_inline)) void ev(int code)
{
	struct tlog *l = me;
	uint32_t n = l->n;
	if (n < MAXEV) l->ev[n] = code;
	__sync_synchronize();
	l->n = n + 1;
	if (my_idx == kill_thread && (int)(n + 1) == kill_at) die();
}
'''


def gen_program(rng, nt, nfun_per_thread=6, scale=1, pace=0):
    """Thread k uses only functions fI with I % nt == k, so that a foreign record is recognisable.
    Function I calls functions J > I of the same thread (no recursion), loop counts from its argument."""
    nf = nt * nfun_per_thread
    src = []
    calls = {}
    for i in range(nf - 1, -1, -1):
        cands = [j for j in range(i + nt, nf, nt)]
        body = []
        for j in rng.sample(cands, min(len(cands), rng.randint(0, 3))):
            kind = rng.random()
            if kind < 0.4:
                body.append("f%d(x + %d);" % (j, rng.randint(0, 3)))
            elif kind < 0.7:
                body.append("if ((x & %d) == 0) f%d(x >> 1);" % (rng.choice([1, 3]), j))
            else:
                body.append("for (int i = 0; i < (x %% %d) + 1; i++) f%d(x + i);" % (rng.randint(2, 4), j))
        calls[i] = body
        src.append("NI void f%d(int x) { ev(%d); %s %s ev(%d); }\n" % (
            i, 2 * i, " ".join(body), "if (pace_us) usleep(pace_us);" if (pace and i >= nf - nt) else "", 2 * i + 1))
    protos = "".join("NI void f%d(int x);\n" % i for i in range(nf))
    iters = [rng.randint(40, 120) * scale for _ in range(nt)]
    main = r'''
static int iters[NT] = { %s };
static NOINST void *work(void *arg)
{
	long k = (long)arg;
	my_idx = k;
	me = &logs[k];
	me->tid = syscall(SYS_gettid);
	for (int i = 0; i < iters[k]; i++)
		ROOT(k, i);
	me->exited = 1;
	return 0;
}
int main(int argc, char **argv)
{
	int fd = open(argv[1], O_RDWR | O_CREAT | O_TRUNC, 0600);
	if (fd < 0 || ftruncate(fd, sizeof(struct tlog) * NT) < 0) return 99;
	logs = mmap(0, sizeof(struct tlog) * NT, PROT_READ | PROT_WRITE, MAP_SHARED, fd, 0);
	if (argc > 4) { kill_thread = atoi(argv[2]); kill_at = atoi(argv[3]); kill_mode = atoi(argv[4]); }
	if (argc > 5) pace_us = atoi(argv[5]);
	self_exe = argv[0];
	pthread_t t[NT];
	for (long i = 1; i < NT; i++) pthread_create(&t[i], 0, work, (void *)i);
	work((void *)0);
	for (int i = 1; i < NT; i++) pthread_join(t[i], 0);
	return 0;
}
''' % ", ".join(map(str, iters))
    root = "#define ROOT(k, i) do { switch (k) { %s } } while (0)\n" % " ".join(
        "case %d: f%d(i); break;" % (k, k) for k in range(nt))
    hdr = E2E_HDR % {"maxev": 400000, "nt": nt}
    return hdr + "static int pace_us;\n" + protos + "".join(reversed(src)) + root + main, nf


def build_program(path_c, exe, flavour):
    flags = {"pg": ["-pg"], "cyg": ["-finstrument-functions"], "fentry": ["-pg", "-mfentry"]}[flavour]
    r = C.sh(["gcc", "-O1", "-g", "-no-pie"] + flags + ["-o", exe, path_c, "-lpthread"])
    return r.returncode == 0, r.stdout


def sym_ranges(exe):
    nm = subprocess.run(["nm", "-S", exe], stdout=subprocess.PIPE, text=True).stdout
    out = []
    for l in nm.split("\n"):
        p = l.split()
        if len(p) == 4 and re.fullmatch(r"f\d+", p[3]):
            out.append((int(p[0], 16), int(p[1], 16), int(p[3][1:])))
        elif len(p) == 4 and p[3] == "finish_trigger_fn":
            out.append((int(p[0], 16), int(p[1], 16), -2))
    return sorted(out)


def read_ground_truth(path, nt, maxev=400000):
    raw = open(path, "rb").read()
    out = []
    sz = 16 + maxev
    for k in range(nt):
        tid, n, exited, _ = struct.unpack_from("<IIII", raw, k * sz)
        out.append({"tid": tid, "n": n, "exited": exited, "ev": list(raw[k * sz + 16: k * sz + 16 + min(n, maxev)])})
    return out


def decode_dat(path, syms):
    """-> (codes of records of the program's own functions, problems, number of records)"""
    data = open(path, "rb").read()
    problems = []
    codes = []
    off = 0
    last_t = 0
    nrec = 0
    starts = [s[0] for s in syms]
    import bisect
    while off + 16 <= len(data):
        t, w = struct.unpack_from("<QQ", data, off)
        typ, more, magic, depth, addr = w & 3, (w >> 2) & 1, (w >> 3) & 7, (w >> 6) & 0x3ff, w >> 16
        off += 16
        nrec += 1
        if magic != 5:
            problems.append("bad magic %d at offset %d" % (magic, off - 16))
            break
        if more:
            problems.append("record with payload at offset %d although no argument was requested" % (off - 16))
            break
        if typ == 3:
            codes.append(("LOST", addr))
            continue
        if typ == 2:
            continue
        if t < last_t:
            problems.append("timestamps go backwards at offset %d" % (off - 16))
        last_t = t
        i = bisect.bisect_right(starts, addr) - 1
        if i >= 0 and syms[i][0] <= addr < syms[i][0] + syms[i][1]:
            fn = syms[i][2]
            if fn >= 0:
                codes.append(2 * fn + typ)
            else:
                codes.append(("FIN", typ))
    if off != len(data):
        problems.append("%d trailing bytes: not a whole number of records" % (len(data) - off))
    return codes, problems, nrec


def run_record(ctx, exe, datadir, gtfile, args, prog_args=(), timeout=40, taskset=None):
    uftrace = os.path.join(ctx.src, "uftrace")
    cmd = ["timeout", "-s", "KILL", str(timeout)]
    if taskset:
        cmd += ["taskset", "-c", taskset]
    cmd += [uftrace, "record", "--libmcount-path=" + os.path.join(ctx.src, "libmcount"), "--no-pager", "--no-event",
            "-d", datadir] + list(args) + [exe, gtfile] + [str(a) for a in prog_args]
    # cwd: a -pg program may drop gmon.out
    r = subprocess.run(cmd, stdout=subprocess.PIPE, stderr=subprocess.PIPE, text=True, cwd=os.path.dirname(exe))
    return r.returncode, r.stdout, r.stderr


def shm_leftovers(datadir, remove=True):
    """session ids of the run -> files left in /dev/shm (removed: a cluttered /dev/shm slows everything down)"""
    left = []
    try:
        txt = open(os.path.join(datadir, "task.txt")).read()
    except OSError:
        return left
    for sid in set(re.findall(r"sid=([0-9a-f]{16})", txt)):
        for f in glob.glob("/dev/shm/uftrace-%s-*" % sid):
            left.append(f)
            if remove:
                try:
                    os.unlink(f)
                except OSError:
                    pass
    return left


def check_exact(datadir, exe, gt, nt):
    """C03 monitor on a normally terminated run: every thread's file is exactly its ground truth."""
    syms = sym_ranges(exe)
    bad = []
    tids = {g["tid"] for g in gt if g["tid"]}
    dats = {int(os.path.basename(f)[:-4]) for f in glob.glob(os.path.join(datadir, "*.dat"))
            if os.path.basename(f)[:-4].isdigit()}
    if tids - dats:
        bad.append("no data file for thread(s) %s" % sorted(tids - dats))
    if dats - tids:
        bad.append("data file(s) for unknown task(s) %s" % sorted(dats - tids))
    nrecs = 0
    for k, g in enumerate(gt):
        f = os.path.join(datadir, "%d.dat" % g["tid"])
        if not os.path.exists(f):
            continue
        codes, problems, n = decode_dat(f, syms)
        nrecs += n
        bad += ["thread %d: %s" % (k, p) for p in problems]
        foreign = [c for c in codes if isinstance(c, int) and (c // 2) % nt != k]
        if foreign:
            bad.append("thread %d: file contains %d record(s) of another thread's functions (first f%d)" % (
                k, len(foreign), foreign[0] // 2))
        if any(isinstance(c, tuple) and c[0] == "LOST" for c in codes):
            bad.append("thread %d: LOST record although no allocation can have failed" % k)
        own = [c for c in codes if isinstance(c, int)]
        if own != g["ev"]:
            j = next((i for i, (a, b) in enumerate(zip(own, g["ev"])) if a != b), min(len(own), len(g["ev"])))
            bad.append("thread %d: stream differs from the executed calls at record %d (file has %d records, "
                       "executed %d events; file %s vs executed %s)" % (k, j, len(own), len(g["ev"]), own[j:j + 4],
                                                                         g["ev"][j:j + 4]))
    return bad, nrecs


def h1_case_set(ctx, n):
    cases = []
    for i in range(n):
        rng = ctx.rng
        nt = rng.choice([1, 1, 2, 2, 3])
        cases.append(Gen(rng, nt, rng.randint(1, 3), rng.choice([48, 48, 64, 96, 160, 496, 4080]),
                         rng.randint(20, 90), rng.choice([0, 0, 0.1, 0.3]),
                         rng.choice([[0], [0, 0, 8, 16], [0, 24], [0, 8, 40]])))
    return cases


def run(ctx):
    ok, problems = C.prove(ctx, "C03")
    if not ok:
        C.violation(ctx, "proof", {"kind": "proof-obligation-broken", "problems": problems}, True)
        return C.finish(ctx)
    ctx.snapshot()
    make_job = start_make(ctx)

    # ---- (a) H1: real producer vs model, step by step ------------------------------------------
    exe, log = build_h1(ctx)
    if not exe:
        C.violation(ctx, "build", {"kind": "harness-build-failed", "log": log[-3000:]}, True)
        return C.finish(ctx)
    ncase = 60 if ctx.tier == "quick" else 1500
    cases = h1_case_set(ctx, ncase)
    res = run_h1_cases(ctx, exe, cases)
    nsteps = sum(len(d["impl"]) for d in res)
    disagree = sum(1 for d in res if d["first_diff"])
    monfail = sum(1 for d in res if d["monitor"])
    distinct = set()
    stats = {"lost_markers": 0, "ring_shrinks": 0, "max_ring": 0, "reuse_of_written_buffer": 0,
             "buffers_passed_to_busy_writer": 0, "alloc_failures_requested": 0}
    samples = []
    reported = 0
    for ci, d in enumerate(res):
        g = d["gen"]
        prevn = {}
        for l in d["impl"]:
            nl = norm_state(l)
            distinct.add(hash(nl))
            st = parse_state(nl)
            for k, t in st["threads"].items():
                n = len(t["bufs"])
                if not t["done"]:
                    if k in prevn and n < prevn[k]:
                        stats["ring_shrinks"] += 1
                    prevn[k] = n
                stats["max_ring"] = max(stats["max_ring"], n)
                stats["reuse_of_written_buffer"] += sum(1 for fl, _ in t["bufs"] if fl == "RW")
            stats["buffers_passed_to_busy_writer"] += sum(1 for w in st["WR"] if w.count(":") == 2 and w.split(":")[2])
        if d["impl"]:
            st = parse_state(norm_state(d["impl"][-1]))
            stats["lost_markers"] += sum(1 for f in st["files"].values() for x in f if x.startswith("L"))
        stats["alloc_failures_requested"] += sum(1 for h, _ in g.ops if " rtd 0 " in h)
        if ci % 37 == 3 and len(samples) < 3 and d["impl"]:
            j = len(d["impl"]) // 2
            samples.append({"threads": g.nt, "writers": g.nw, "maxsize": g.maxsize, "op": g.ops[j][0],
                            "impl": norm_state(d["impl"][j])[:400], "model": norm_state(d["model"][j])[:400]})
        if (d["first_diff"] or d["monitor"]) and reported < 3:
            reported += 1
            fd = d["first_diff"]
            C.violation(ctx, "h1case%d" % ci, {
                "kind": "property-violated-on-implementation" if d["monitor"] else "model-code-disagreement",
                "what": d["monitor"],
                "config": {"threads": g.nt, "writers": g.nw, "maxsize": g.maxsize, "bufsize": g.maxsize + 16},
                "harness_script": [o[0] for o in g.ops][: (fd[0] + 1 if fd else len(g.ops))],
                "model_script": [m for o in g.ops[: (fd[0] + 1 if fd else len(g.ops))] for m in o[1]],
                "first_difference_at_op": fd[0] if fd else None,
                "impl_state": fd[1] if fd else None, "model_state": fd[2] if fd else None,
                "theorem": "c03_conservation / c03_lost_only_on_alloc_failure_and_whole" if d["monitor"] else
                           "correspondence Shmem.step vs libmcount/record.c",
            }, no_failing_input=not d["monitor"])

    # ---- (b) e2e: real recorder -------------------------------------------------------------------
    okm, mlog = make_job.result()
    e2e = {"runs": 0, "records": 0, "threads": 0, "failures": 0}
    if not okm:
        C.violation(ctx, "make", {"kind": "snapshot-build-failed", "log": mlog[-3000:]}, True)
    else:
        nprog = 3 if ctx.tier == "quick" else 40
        jobs = []
        for i in range(nprog):
            rng = ctx.rng
            nt = rng.randint(2, 5)
            src, nf = gen_program(rng, nt, scale=rng.choice([4, 10] if ctx.tier == "quick" else [4, 10, 20]))
            d = os.path.join(ctx.scratch, "e2e%d" % i)
            os.makedirs(d)
            open(os.path.join(d, "p.c"), "w").write(src)
            fl = ["pg", "cyg", "fentry"][i % 3]
            okb, blog = build_program(os.path.join(d, "p.c"), os.path.join(d, "p"), fl)
            if not okb:
                C.violation(ctx, "e2ebuild", {"kind": "generated-program-does-not-compile", "log": blog[-2000:]}, True)
                continue
            for rep in range(2 if ctx.tier == "quick" else 4):
                nthr = rng.randint(1, 4)
                opts = ["-b", "4k", "--num-thread", str(nthr)] + (["--no-libcall"] if rng.random() < 0.5 else [])
                jobs.append((d, fl, nt, opts, rng.choice([None, None, "0", "0,1"]), rep))

        def one(job):
            d, fl, nt, opts, ts, rep = job
            dd = os.path.join(d, "data%d" % rep)
            gtf = os.path.join(d, "gt%d.bin" % rep)
            rc, out, err = run_record(ctx, os.path.join(d, "p"), dd, gtf, opts, taskset=ts)
            if not os.path.exists(gtf):
                return job, rc, ["program did not start: " + err[-300:]], 0, []
            gt = read_ground_truth(gtf, nt)
            bad, n = check_exact(dd, os.path.join(d, "p"), gt, nt)
            shm_leftovers(dd)
            if rc != 0:
                bad.append("uftrace record exited with %d: %s" % (rc, err[-200:]))
            if "LOST" in err:
                bad.append("recorder reported LOST records: " + err[-200:])
            return job, rc, bad, n, [g["n"] for g in gt]
        with ThreadPoolExecutor(4) as ex:
            outs = list(ex.map(one, jobs))
        for (d, fl, nt, opts, ts, rep), rc, bad, n, evs in outs:
            e2e["runs"] += 1
            e2e["records"] += n
            e2e["threads"] += nt
            if bad:
                e2e["failures"] += 1
                if e2e["failures"] <= 2:
                    keep = os.path.join(C.VERIF, "replays", "C03-e2e-seed%d-%s.c" % (ctx.seed, os.path.basename(d)))
                    os.makedirs(os.path.dirname(keep), exist_ok=True)
                    try:
                        import shutil
                        shutil.copy(os.path.join(d, "p.c"), keep)
                    except OSError:
                        keep = None
                    C.violation(ctx, "e2e-%s-%d" % (os.path.basename(d), rep), {
                        "kind": "property-violated-on-implementation", "what": bad[:5], "program": keep,
                        "build": "gcc -O1 -g -no-pie %s p.c -lpthread" % fl,
                        "command": "uftrace record --no-event %s ./p gt.bin" % " ".join(opts), "taskset": ts,
                        "events_per_thread": evs, "theorem": "c03_quiescent_exact, c03_no_cross_tid"})

    ctx.coverage.update({
        "evaluations": nsteps + e2e["records"],
        "distinct_nontrivial": len(distinct),
        "rule": "H1: %d random schedules (1-3 producer threads x 1-3 writers x buffer payload sizes "
                "48..4080 B x record sizes 16..56 B x allocation-failure rate 0/0.1/0.3), every step compared "
                "(full state: flags, contents, curr, losts, messages, queues, files); distinct = distinct global "
                "states seen. e2e: generated multi-threaded programs under the real recorder, -b 4k, "
                "--num-thread 1..4, optional CPU pinning, streams compared record by record with the "
                "program's own ground-truth log" % len(res),
        "h1_schedules": len(res), "h1_steps_compared": nsteps, "model_code_disagreements": disagree,
        "monitor_failures_on_impl": monfail, "h1_features_exercised": stats,
        "e2e": e2e, "exhaustive": False, "samples": samples,
    })
    ctx.assumptions += [
        "x86-64 TSO: the producer's stores (bytes, then size) and the recorder's (size = 0, then flag = WRITTEN) "
        "become visible in program order; no torn 32-bit stores",
        "a record is never larger than a buffer (uftrace -b rounds up to the page size, records are at most "
        "16 + 1024 bytes); a thread that has run mtd_dtor emits nothing more",
        "H1 plays the recorder with a stand-in (same list discipline as cmds/record.c); the real recorder is "
        "exercised by the e2e runs, where the schedule is whatever the kernel does",
        "FIFO writes of one message are atomic (PIPE_BUF) and messages of one thread arrive in order",
    ]
    return C.finish(ctx)


def replay(ctx, path):
    r = json.load(open(path))
    print(json.dumps({k: v for k, v in r.items() if k not in ("harness_script", "model_script")}, indent=1))
    if "harness_script" in r:
        ctx.snapshot()
        exe, log = build_h1(ctx)
        if exe:
            rr = run_harness(ctx, exe, 0, r["config"]["bufsize"], r["harness_script"])
            cleanup_run(rr)
            mout = run_model("C03", r["model_script"])
            impl = [l for l in rr["lines"] if l.startswith(("ok", "disabled", "bad-op"))]
            print("IMPL :", norm_state(impl[-1]) if impl else rr["stderr"][-300:])
            print("MODEL:", norm_state(mout[-1]) if mout else None)
            return 0 if impl and mout and norm_state(impl[-1]) == norm_state(mout[-1]) else 1
    return 0
