"""C05 — Record-time filters and triggers select exactly the documented calls.
Lean: Uft/Model/Mcount.lean (+ CallTree), Uft/Props/C05.lean.
Tie: C (H1): the real libmcount, configured through the real UFTRACE_* option strings
(-F/-N/-C/-D/-t/-Z/-L/-T; regex, glob and simple patterns), driven in-process with a
scripted clock, against the Lean model; monitors evaluate the property on the
implementation's output: filter state restored, nesting, method independence, and the
documented selection for the core options.
The hook model has the repair of finding F-C07-TRACEOFF-FLUSH (Cfg.f7fixed: flush of the pending ENTRY records
at the TRACE_OFF update of mcount_entry_filter_check); a libmcount that matches the model with f7fixed=0 instead
is reported as that finding (KNOWN-FINDING while it is listed open under C07, VIOLATION with the case otherwise)."""
import json
import re
import sys

from lib import common as C, h1, mcgen, mcheck
from checks.c02 import parse_script, structural
from translators import consts2lean

sys.setrecursionlimit(20000)
NO_TIME = 18446744073709551615


def doc_spec_stream(script, o):
    """Documented semantics for option sets made of -F, -N, -D, -t only (uftrace-record.md,
    FILTERS): -F f = f and everything it calls; -N f = without f and everything it calls;
    -D n = at most n nested visible levels (counted from the innermost -F match);
    -t n = calls longer than n, plus their callers."""
    roots = parse_script(script)
    optin = bool(o.F)
    D = o.D if o.D is not None else 1024
    thr = o.t or 0
    out = []

    def walk(n, inc, outc, budget, depth, emit):
        """returns list of record tokens for n and below, depth = number of kept open ancestors"""
        if outc > 0:
            vis, inc2, outc2, b2 = False, inc, outc, budget
        else:
            inc2, outc2, b2 = inc, outc, budget
            if n["fn"] in o.F:
                inc2, b2 = inc + 1, D
            elif n["fn"] in o.N:
                outc2 = outc + 1
            vis = outc2 == 0 and (not optin or inc2 > 0) and b2 > 0
            if vis:
                b2 -= 1
        kids = []
        for k in n["kids"]:
            kids += walk(k, inc2, outc2, b2, depth + (1 if vis else 0), emit)
        if not vis:
            return kids
        dur = (n["t1"] - n["t0"]) if n["t1"] is not None else None
        keep = bool(kids) or (dur is not None and dur >= thr) or dur is None and bool(kids)
        if not keep:
            return []
        me = ["E:%d:%d:%d" % (depth, n["fn"], n["t0"])] + kids
        if n["t1"] is not None:
            me.append("X:%d:%d:%d" % (depth, n["fn"], n["t1"]))
        return me
    for r in roots:
        out += walk(r, 0, 0, D, 0, True)
    return out


def leak_shape(o, script):
    """finding F4: on the -pg/fentry path a function whose trigger changes the filter state
    and which is then rejected by the location filter leaves that change behind."""
    if o.L is None:
        return False
    hidden = [f for f in list(range(9)) if (f in mcgen.FILES[o.L[0]]) != o.L[1]]
    trig = set(o.F) | set(o.N) | {fn for fn, acts in o.T if any(a in ("filter", "notrace", "depth", "time", "size", "trace_on", "trace_off") for a, _ in acts)}
    bad = trig & set(hidden)
    return any(re.match(r"E pg (\d+)", l) and int(l.split()[2]) in bad for l in script)



# ============================================================================ filters x non-local exits (FX)
# A frame that holds filter state is left by something other than its return: a C++ exception unwinds it
# (mcount_rstack_rehook_exception, also on a call made from a landing pad), a longjmp abandons it
# (restore_jmpbuf_rstack).  Harness: harness/h1_c11_driver.c in FX mode (fake activation frames, fake PLT
# module whose symbols are matched BY NAME against libmcount's tables, the real libmcount configured through
# the UFTRACE_* environment); model: `Mcount` with the ops FE/FR/FT/FUW/FC/FSJ/FLJ (unwindExc, padEntry*,
# pltEntry, jmpSave/jmpRestore of Model/Mcount.lean).  Used by checks/c11.py as well.
FX_FINDINGS = {
    "lj": ("C05-LONGJMP-FILTER-LEAK",
           "restore_jmpbuf_rstack() (libmcount/plthook.c) resets idx/record_idx but not the thread's filter state: a longjmp "
           "out of a -N function leaves out_count > 0 (every later call vanishes from the trace), out of a -F function "
           "leaves in_count > 0 (every later call is recorded) (theorem c05_prefix_longjmp_leak_witness)",
           "proposed_fixes/C05-LONGJMP-FILTER-LEAK.diff"),
    "pad": ("C05-EXC-PAD-FILTER",
            "__mcount_entry()/__plthook_entry() run mcount_entry_filter_check() BEFORE mcount_rstack_rehook_exception() drops "
            "the frames a C++ exception unwound: a call made from a landing pad (destructor) is filtered in the state of the "
            "dead callee (hidden under -N/-D although its caller is visible) and the depth/time/size saved for its exit are "
            "the dead callee's, which then leak into the later calls of the function that caught the exception "
            "(theorem c05_prefix_exc_pad_witness)",
            "proposed_fixes/C05-EXC-PAD-FILTER.diff"),
}
# child ids of harness/h1_c11_driver.c (100 + index in plt_names)
FX_PLAIN = (100, 112, 113)
FX_FLUSHING = (111,)              # fork: PLT_FL_FLUSH only
FX_SETJMP = {"setjmp": 101, "__sigsetjmp": 110, "_setjmp": 114, "sigsetjmp": 115}
FX_LONGJMP = {"longjmp": 102, "siglongjmp": 109, "__longjmp_chk": 116, "_longjmp": 117}


def fx_opts(rng, core):
    """an option set for the FX family: everything of lib/mcgen.py that the exits of a frame restore
    (no size filters: the fake PLT symbols have no size; no trace_on/off: global, not per frame; no --max-stack)"""
    o = mcgen.rand_opts(rng, rich=not core)
    o.Z, o.max_stack, o.trace_off = None, None, False
    fix = lambda f: f if f < 8 else rng.randrange(8)      # the C11 driver has f0..f7 only
    o.F = sorted(set(fix(f) for f in o.F))
    o.N = sorted(set(fix(f) for f in o.N) - set(o.F))
    o.C = [fix(f) for f in o.C]
    T = []
    for fn, acts in o.T:
        acts = [a for a in acts if a[0] not in ("size", "trace_on", "trace_off")]
        fn = fix(fn)
        if acts and all(fn != g for g, _ in T):
            T.append((fn, acts))
    o.T = T
    if core:
        o.C, o.L, o.T = [], None, []
        if not (o.F or o.N or o.D):
            # the family is about frames that hold filter state
            if rng.random() < 0.6:
                o.N = [rng.randrange(8)]
            else:
                o.D = rng.randint(1, 4)
    return o


def fx_env(o):
    env = mcgen.to_env(o)
    if "UFTRACE_LOCATION" in env:
        env["UFTRACE_LOCATION"] = env["UFTRACE_LOCATION"].replace("h1_driver.c", "h1_c11_driver.c")
    return env


class FXGen:
    """a random history of one thread with calls (hooked by mcount, through the PLT, or not hooked), returns,
    C++ exceptions (throw, unwinding k frames with optional cleanup landing pads that call destructors,
    _Unwind_Resume, catch) and setjmp/longjmp, as (a) script for harness/h1_c11_driver.c, (b) script for the
    model, (c) the plain call history (E/X/T lines) in which every frame left by an exception or a longjmp
    returns at that moment: the input of the documented-semantics monitor."""

    def __init__(self, rng, nops, lj=True, pads=True, lj_names=None, sj_names=None, flush_calls=True):
        self.rng, self.nops = rng, nops
        self.lj, self.pads = lj, pads
        # library calls that are only force-flushed (fork): the flush writes pending ENTRY records whatever -t says,
        # so they stay out of the histories judged by the documented-selection monitor
        self.plt_ids = FX_PLAIN + FX_PLAIN + (FX_FLUSHING if flush_calls else ())
        self.lj_ids = [FX_LONGJMP[n] for n in (lj_names or ["longjmp", "siglongjmp", "__longjmp_chk"])]
        self.sj_ids = [FX_SETJMP[n] for n in (sj_names or sorted(FX_SETJMP))]
        self.c, self.m, self.hist = ["FXMODE"], [], []
        self.frames = []            # live script frames: dict(slot, kind, fn, id)
        self.now = 1000
        self.orig = 1000
        self.fid = 0
        self.jbs = {}
        self.pad_calls = 0          # hooked calls made from a landing pad
        self.exceptions = 0
        self.longjmps = 0
        self.lj_over = set()        # functions whose frames a longjmp abandoned
        self.unw_over = set()       # functions whose frames an exception unwound

    def emit(self, c, m):
        self.c.append(c)
        self.m.append(m)

    def tick(self, lo=1):
        self.now += self.rng.choice([1, 2, 5, 9, 10, 11, 30, 60]) if lo else 0
        self.emit("T %d" % self.now, "T %d" % self.now)
        self.hist.append("T %d" % self.now)

    def top_slot(self):
        return self.frames[-1]["slot"] if self.frames else 63

    def new_orig(self):
        self.orig += 1
        return self.orig

    def call(self, k=None, slot=None, fpw=None, from_pad=False):
        rng = self.rng
        if k is None:
            k = rng.choice("mmmmmpn")
        top = self.top_slot()
        if slot is None:
            slot = top - rng.randint(2, 3)
        if slot < 4:
            return False
        if k == "p":
            fn = rng.choice(self.plt_ids)
        else:
            fn = rng.randrange(8)
        if fpw is None:
            fpw = (top - 1) if (k != "m" or rng.random() < 0.7) else 0
            if not self.frames:
                fpw = 0
        self.fid += 1
        self.frames.append({"slot": slot, "kind": k, "fn": fn, "id": self.fid})
        flush = 1 if fn in FX_FLUSHING else 0
        self.emit("CALL %s %d %d %d %d" % (k, fn, slot, self.new_orig(), fpw),
                  "FE %s %d %d" % ({"m": "pg", "p": "plt", "n": "none"}[k], fn, flush))
        if k != "n":
            self.hist.append("E %s %d" % ("pg" if k == "m" else "plt", fn))
        return True

    def ret(self):
        f = self.frames.pop()
        self.emit("RET %d" % f["slot"], "FR")
        if f["kind"] != "n":
            self.hist.append("X")

    def setjmp(self):
        slot = self.top_slot() - self.rng.randint(2, 3)
        if slot < 4 or not self.frames:
            return False
        j = self.rng.randrange(4)
        fn = self.rng.choice(self.sj_ids)
        self.jbs[j] = [dict(f) for f in self.frames]
        self.emit("SETJMP %d %d %d %d" % (j, fn, slot, self.new_orig()), "FSJ %d %d" % (j, fn))
        self.hist += ["E plt %d" % fn, "X"]
        return True

    def live_jbs(self):
        cur = [f["id"] for f in self.frames]
        return [j for j, fr in self.jbs.items() if [f["id"] for f in fr] == cur[:len(fr)]]

    def longjmp(self, j):
        slot = self.top_slot() - self.rng.randint(2, 3)
        if slot < 4:
            return False
        fn = self.rng.choice(self.lj_ids)
        keep = len(self.jbs[j])
        gone = self.frames[keep:]
        self.emit("LONGJMP %d %d %d %d" % (j, fn, slot, self.new_orig()), "FLJ %d %d 1" % (j, fn))
        # the history: the jump is a call that ends, with every abandoned frame, at the landing
        self.hist.append("E plt %d" % fn)
        self.hist.append("X")
        for f in reversed(gone):
            if f["kind"] != "n":
                self.hist.append("X")
                if f["kind"] == "m":
                    self.lj_over.add(f["fn"])
        self.frames = [dict(f) for f in self.jbs[j]]
        self.longjmps += 1
        return True

    def drop_dead(self, dead):
        """the history: the unwound frames end now"""
        for f in dead:
            if f["kind"] != "n":
                self.hist.append("X")
                if f["kind"] == "m":
                    self.unw_over.add(f["fn"])
        del dead[:]

    def exception(self):
        rng = self.rng
        self.exceptions += 1
        self.emit("THROW", "FT")
        dead = []                 # unwound frames whose entries are still on the shadow stack (innermost first)
        dead_slots = []
        while True:
            f = self.frames.pop()
            dead.append(f)
            dead_slots.append(f["slot"])
            self.emit("UNWIND", "FUW")
            if not self.frames:
                # no handler: the script ends (std::terminate)
                return False
            pad = self.frames[-1]
            r = rng.random()
            if self.pads and r < 0.3 and len(self.frames) >= 2:
                ncalls = rng.randint(1, 2)
                for _ in range(ncalls):
                    hi = pad["slot"] - 2
                    lo = max(dead_slots) if dead_slots else hi
                    slot = rng.choice([lo, lo, min(hi, lo + 1)]) if lo <= hi else hi
                    k = rng.choice("nmmmp")
                    fpw = (pad["slot"] - 1) if k == "m" else 0
                    if slot < 4:
                        continue
                    if k != "n":
                        # the repaired entry hooks drop the unwound frames at once
                        self.drop_dead(dead)
                        dead_slots = []
                        self.pad_calls += 1
                    # (no calls below a landing-pad call: as found, a pad call that the filter rejects leaves
                    # in_exception set, and what its callees would drop depends on their frame words)
                    self.call(k=k, slot=slot, fpw=fpw, from_pad=True)
                    self.tick()
                    self.ret()
                self.emit("RESUME", "FT")
                continue
            if r < 0.75 or len(self.frames) == 1:
                self.emit("CATCH %d" % (pad["slot"] - 1), "FC")
                self.drop_dead(dead)
                return True
            # no handler in this frame: keep unwinding

    def generate(self):
        rng = self.rng
        self.tick(0)
        self.call(k="m", slot=62, fpw=0)
        while len(self.c) < self.nops:
            self.tick(rng.random() < 0.85)
            r = rng.random()
            if r < 0.36:
                if not self.call():
                    self.ret()
            elif r < 0.62:
                if len(self.frames) > 1:
                    self.ret()
                else:
                    self.call()
            elif r < 0.72 and self.lj:
                self.setjmp()
            elif r < 0.82 and self.lj:
                lj = self.live_jbs()
                if lj:
                    self.longjmp(rng.choice(lj))
            elif r < 0.97:
                if len(self.frames) >= 2:
                    if not self.exception():
                        break
        while self.frames:
            self.tick(rng.random() < 0.85)
            self.ret()
        # two probe calls: a leaked filter state shows in the stream
        for _ in range(2):
            self.tick()
            self.call(k="m", slot=60, fpw=0)
            self.tick()
            self.ret()
        self.emit("END", "END")
        self.hist.append("END")
        return self


def fx_run(ctx, exe, sizes, cases, nlfix):
    """cases: dict(opts, gen).  Adds impl / model (normalised result lines, one per op)"""
    def one(ic):
        i, c = ic
        env = dict(fx_env(c["opts"]), UFTRACE_BUFFER="1048576")
        return h1.run(ctx, exe, env, c["gen"].c, 20000 + i)
    from concurrent.futures import ThreadPoolExecutor
    with ThreadPoolExecutor(16) as ex:
        rs = list(ex.map(one, enumerate(cases)))
    ml, spans = [], []
    for c in cases:
        pre = ["RESET"] + mcgen.to_model(c["opts"], sizes, False) + ["NLFIX %d %d" % (nlfix["lj"], nlfix["pad"])]
        spans.append((len(ml) + len(pre), len(c["gen"].m)))
        ml += pre + c["gen"].m
    mo = C.run_model("Mcount", ml)
    for c, r, (a, n) in zip(cases, rs, spans):
        c["impl"] = [C.norm(l[5:]) for l in r["lines"] if l.startswith("IMPL ")]
        c["model"] = [C.norm(x) for x in mo[a:a + n]]
        c["stderr"] = r["stderr"][-300:]
    return cases


def fx_stream(lines):
    out = []
    for l in lines:
        m = re.search(r"recs=(.*)$", l)
        if m and m.group(1).strip() != "-":
            out += m.group(1).split()
    return out


def fx_monitor(c):
    """the property on the implementation's output, independent of the model:
    (1) after everything returned the filter state is the initial one; (2) with -F/-N/-D/-t only, the records are
    the documented selection of the history in which the frames left by an exception returned at that moment
    (ENTRY records only when the history has a longjmp: the abandoned calls get no EXIT, replay closes them)"""
    o, g = c["opts"], c["gen"]
    st = fx_stream(c["impl"])
    end = c["impl"][-1] if c["impl"] else ""
    m = re.search(r"idx=(-?\d+) ridx=(-?\d+) filt=(-?\d+)/(-?\d+)/(-?\d+)/(-?\d+)/(\d+)/(\d+)", end)
    if not m:
        return "no END line (libmcount died?): %s %s" % (end[:80], c.get("stderr", "")[-120:])
    got = tuple(int(x) for x in m.groups())
    exp = (0, 0, 0, 0, 0, 65535, NO_TIME, 0)
    if got != exp:
        return ("filter state after all calls returned differs from the state before: idx/ridx/in/out/depth/max_depth/"
                "time/size = %s, expected %s" % (got, exp))
    if c["core"]:
        want = doc_spec_stream(g.hist, o)
        if g.longjmps:
            if o.t:
                return None
            a = [t for t in st if t[0] == "E"]
            b = [t for t in want if t[0] == "E"]
        else:
            a, b = st, want
        if a != b:
            k = next((i for i, (x, y) in enumerate(zip(a, b)) if x != y), min(len(a), len(b)))
            return "recorded calls differ from the documented selection at %srecord %d: got %s, documented %s" % (
                "ENTRY " if g.longjmps else "", k, a[k:k + 2], b[k:k + 2])
    return None


def fx_shapes(c):
    """which of the two findings can explain a monitor failure of this case"""
    o, g = c["opts"], c["gen"]
    sh = set()
    if g.pad_calls:
        sh.add("pad")
    trig = set(o.F) | set(o.N) | {fn for fn, acts in o.T if any(a in ("filter", "notrace") for a, _ in acts)}
    if g.lj_over & trig:
        sh.add("lj")
    return sh


# the inputs of the witness theorems (Props/C05.lean): -N f1; main calls setjmp, f1, which calls longjmp / f2 with an
# object calls f1 which throws, the destructor f3 runs from the landing pad, f2 catches, then calls f4
FX_PROBES = {
    "lj": (dict(N=[1]), ["FXMODE", "T 1000", "CALL m 0 62 1001 0", "T 1010", "SETJMP 0 101 58 1002", "T 1020",
                          "CALL m 1 59 1003 61", "T 1030", "LONGJMP 0 102 55 1004", "T 1040", "CALL m 2 59 1005 61",
                          "T 1050", "RET 59", "T 1060", "RET 62", "END"],
           ["T 1000", "FE pg 0 0", "T 1010", "FSJ 0 101", "T 1020", "FE pg 1 0", "T 1030", "FLJ 0 102 1", "T 1040",
            "FE pg 2 0", "T 1050", "FR", "T 1060", "FR", "END"]),
    "pad": (dict(N=[1]), ["FXMODE", "T 1000", "CALL m 0 62 1001 0", "T 1010", "CALL m 2 59 1002 61", "T 1020",
                           "CALL m 1 56 1003 58", "T 1030", "THROW", "UNWIND", "CALL m 3 56 1004 58", "T 1040", "RET 56",
                           "CATCH 58", "T 1050", "CALL m 4 56 1005 58", "T 1060", "RET 56", "T 1070", "RET 59", "T 1080",
                           "RET 62", "END"],
            ["T 1000", "FE pg 0 0", "T 1010", "FE pg 2 0", "T 1020", "FE pg 1 0", "T 1030", "FT", "FUW", "FE pg 3 0",
             "T 1040", "FR", "FC", "T 1050", "FE pg 4 0", "T 1060", "FR", "T 1070", "FR", "T 1080", "FR", "END"]),
}


def fx_probe(ctx, exe, sizes):
    """which variant of the two findings does this tree follow?  -> ({'lj': bool, 'pad': bool} (True = repaired), details)"""
    res, det = {}, {}
    for name, (od, cl, ml) in sorted(FX_PROBES.items()):
        o = mcgen.Opts()
        o.N = od["N"]
        r = h1.run(ctx, exe, dict(fx_env(o), UFTRACE_BUFFER="1048576"), cl, 29000 + len(res))
        impl = [C.norm(l[5:]) for l in r["lines"] if l.startswith("IMPL ")]
        outs = {}
        for v in (1, 0):
            pre = ["RESET"] + mcgen.to_model(o, sizes, False) + ["NLFIX %d %d" % (v, v)]
            outs[v] = [C.norm(x) for x in C.run_model("Mcount", pre + ml)[len(pre):]]
        if impl == outs[1]:
            res[name] = True
        elif impl == outs[0]:
            res[name] = False
        else:
            res[name] = None
        det[name] = {"script": cl, "env": fx_env(o), "impl": impl, "model_repaired": outs[1], "model_as_found": outs[0],
                     "stderr": r["stderr"][-300:]}
    return res, det


def fx_sym_sizes(exe):
    sizes = mcheck.sym_sizes(exe)
    sizes.pop(8, None)
    return sizes


def doc_filter_entries(entries, F=(), N=(), D=None):
    """The documented record-time selection (uftrace-record.md, FILTERS) applied to the ground-truth log of one
    thread of an e2e program: entries = [(fn, depth)] in call order, depth = true nesting depth below the thread's
    root function (main / the thread function, depth 0, traced but not logged).  -F f: f and what it calls; -N f:
    without f and what it calls; -D n: at most n nested visible levels, counted anew from a -F match.
    -> [(fn, shown depth)], shown depth = number of recorded ancestors."""
    optin = bool(F)
    D = D if D is not None else 1024
    root_vis = (not optin) and D > 0
    stack = [{"inc": 0, "outc": 0, "b": D - 1 if root_vis else D, "vis": root_vis}]
    out = []
    for fn, d in entries:
        del stack[max(d, 1):]
        par = stack[-1]
        if par["outc"] > 0:
            node = {"inc": par["inc"], "outc": par["outc"], "b": par["b"], "vis": False}
        else:
            inc, outc, b = par["inc"], par["outc"], par["b"]
            if fn in F:
                inc, b = inc + 1, D
            elif fn in N:
                outc += 1
            vis = outc == 0 and (not optin or inc > 0) and b > 0
            if vis:
                b -= 1
            node = {"inc": inc, "outc": outc, "b": b, "vis": vis}
        if node["vis"]:
            out.append((fn, sum(1 for x in stack if x["vis"])))
        stack.append(node)
    return out


class FXCase:
    """a stored FX case (corpus/C05/fx_cases.json) in the shape of a generated one"""

    def __init__(self, e):
        self.c, self.m, self.hist = e["c"], e["m"], e["hist"]
        self.exceptions, self.longjmps, self.pad_calls = e["exceptions"], e["longjmps"], e["pad_calls"]
        self.lj_over, self.unw_over = set(e["lj_over"]), set(e["unw_over"])
        self.name = e["name"]


def fx_corpus():
    try:
        doc = json.load(open(C.VERIF + "/corpus/C05/fx_cases.json"))
    except (OSError, ValueError):
        return []
    out = []
    for e in doc.get("cases", []):
        o = mcgen.Opts()
        o.F, o.N, o.D, o.t = e["opts"].get("F", []), e["opts"].get("N", []), e["opts"].get("D"), e["opts"].get("t")
        out.append({"opts": o, "gen": FXCase(e), "core": bool(e["core"]) and bool(e["hist"])})
    return out


def fx_finding_status(fid):
    try:
        kf = json.load(open(C.VERIF + "/known_findings.json"))
    except (OSError, ValueError):
        return None
    for f in kf.get("findings", []):
        if f.get("id") == fid:
            return f.get("status")
    return None


def fx_report_finding(ctx, key, obj):
    """an as-found variant recognised by its probe: open entry -> KNOWN-FINDING, fixed entry -> VIOLATION (regression),
    no entry yet -> PENDING-FINDING (exit status 0; the repair is in proposed_fixes/)"""
    fid, what, fixp = FX_FINDINGS[key]
    st = fx_finding_status(fid)
    if st == "open":
        C.known(ctx, {"id": fid}, "%s %s" % (fid, what))
    elif st == "fixed":
        C.violation(ctx, "finding-" + fid, dict(obj, kind="property-violated-on-implementation", finding=fid, what=what,
                                                note="recorded as fixed in known_findings.json: regression"))
    else:
        msg = "PENDING-FINDING: property=%s %s %s [not yet recorded in known_findings.json; proposed fix %s]" % (
            ctx.prop, fid, what, fixp)
        ctx.notes.append(msg)
        ctx.coverage.setdefault("pending_findings", []).append(dict(obj, id=fid, what=what, proposed_fix=fixp))
        print(msg)


def fx_family(ctx, exe, n, report=True, max_replays=3, rng=None):
    """generate, run and judge n FX cases.  Model/code disagreements and monitor failures that neither finding explains
    are violations; -> statistics"""
    sizes = fx_sym_sizes(exe)
    var, det = fx_probe(ctx, exe, sizes)
    st = {"cases": 0, "ops": 0, "disagreements": 0, "monitor_failures": 0, "attributed": {}, "variant": var,
          "exceptions": 0, "longjmps": 0, "pad_calls": 0, "unwound_filtered_frames": 0, "core_option_sets": 0,
          "violations": 0}
    for k, v in sorted(var.items()):
        if v is None:
            st["violations"] += 1
            C.violation(ctx, "fx-probe-" + k, dict(det[k], kind="model-code-disagreement",
                                                   what="the probe of %s matches neither the repaired nor the as-found model" % FX_FINDINGS[k][0],
                                                   theorem="c05_state_restored_unwind (correspondence Mcount, non-local exits)"), True)
        elif not v and report:
            fx_report_finding(ctx, k, {"probe": det[k]})
    nl = {"lj": 1 if var.get("lj") else 0, "pad": 1 if var.get("pad") else 0}
    rng = rng or ctx.rng
    cases = fx_corpus()
    st["corpus_cases"] = len(cases)
    for i in range(n):
        core = rng.random() < 0.55
        o = fx_opts(rng, core)
        # half of the histories leave the two findings' constructs out, so that their monitors judge every variant
        plain = rng.random() < 0.5
        g = FXGen(rng, rng.choice([15, 30, 60]), lj=(not plain) and rng.random() < 0.7, pads=(not plain) and rng.random() < 0.7,
                  flush_calls=not core)
        g.generate()
        cases.append({"opts": o, "gen": g, "core": core})
    fx_run(ctx, exe, sizes, cases, nl)
    replays = 0
    for i, c in enumerate(cases):
        g = c["gen"]
        st["cases"] += 1
        st["ops"] += len(g.m)
        st["exceptions"] += g.exceptions
        st["longjmps"] += g.longjmps
        st["pad_calls"] += g.pad_calls
        st["core_option_sets"] += c["core"]
        trig = set(c["opts"].F) | set(c["opts"].N) | {fn for fn, _ in c["opts"].T}
        st["unwound_filtered_frames"] += len(g.unw_over & trig)
        dis = c["impl"] != c["model"]
        bad = fx_monitor(c)
        sh = fx_shapes(c)
        unf = sorted(k for k in sh if not nl[k])
        st["disagreements"] += dis
        st["monitor_failures"] += bool(bad)
        if bad and not dis and unf:
            for k in unf:
                st["attributed"][k] = st["attributed"].get(k, 0) + 1
            continue
        if bad or dis:
            st["violations"] += 1
            if replays < max_replays:
                replays += 1
                first = next((j for j, (a, b) in enumerate(zip(c["impl"], c["model"])) if a != b),
                             min(len(c["impl"]), len(c["model"])) if dis else None)
                C.violation(ctx, "fx-case%d" % i, {
                    "kind": "property-violated-on-implementation" if bad else "model-code-disagreement",
                    "what": bad, "env": fx_env(c["opts"]), "script": g.c, "model_script": g.m, "history": g.hist[:200],
                    "variant": nl, "shapes": sorted(sh),
                    "first_line_difference": None if first is None else {
                        "line": first, "op": g.c[first + 1] if first + 1 < len(g.c) else None,
                        "impl": c["impl"][first][-300:] if first < len(c["impl"]) else None,
                        "model": c["model"][first][-300:] if first < len(c["model"]) else None},
                    "how": "harness/h1_c11_driver.c (built by checks/c11.py build_h1) with `env`, `script` on stdin",
                    "theorem": "c05_state_restored_unwind / c05_exception_trace_eq_returns (correspondence Mcount, non-local exits)",
                }, no_failing_input=not bad)
    return st


# ============================================================================ e2e: filters x non-local exits
def P(kind, a=0, b=0):
    return (kind, a, b)


def e2e_directed():
    """(name, ops, c++?, flavour, opt, dict(F,N,D), features): the function given to -N / -F / limited by -D is left by
    an exception or a longjmp, then more calls follow"""
    exc = [P("OP_TRYCALL", 1), P("OP_CALL", 3), P("OP_LEAF"), P("OP_CALL", 2), P("OP_LEAF"), P("OP_THROW", 5),
           P("OP_LEAF"), P("OP_CALL", 4), P("OP_LEAF"), P("OP_RET", 1), P("OP_LEAF"), P("OP_TRYCALL", 3), P("OP_LEAF"),
           P("OP_RET", 2), P("OP_LEAF"), P("OP_RET", 0)]
    lj = [P("OP_LEAF"), P("OP_SETJMP", 0), P("OP_LEAF"), P("OP_CALL", 1), P("OP_CALL", 3), P("OP_LEAF"), P("OP_CALL", 2),
          P("OP_LONGJMP", 0), P("OP_LEAF"), P("OP_CALL", 4), P("OP_LEAF"), P("OP_RET", 1), P("OP_LEAF"), P("OP_RET", 0)]
    dtor = [P("OP_TRYCALL", 1), P("OP_DTORCALL", 3), P("OP_LEAF"), P("OP_CALL", 2), P("OP_LEAF"), P("OP_THROW", 5),
            P("OP_LEAF"), P("OP_CALL", 4), P("OP_CALL", 5), P("OP_LEAF"), P("OP_RET", 1), P("OP_RET", 2), P("OP_LEAF"),
            P("OP_RET", 0)]
    out = [
        ("exc-N", exc, True, "pg", "-O0", dict(N={3}), set()),
        ("exc-N-fentry", exc, True, "fentry", "-O2", dict(N={3}), set()),
        ("exc-F", exc, True, "pg", "-O0", dict(F={3}), set()),
        ("exc-FN", exc, True, "pg", "-O0", dict(F={1}, N={3}), set()),
        ("exc-D", exc, True, "pg", "-O0", dict(D=3), set()),
        ("exc-N-cyg", exc, True, "cyg", "-O0", dict(N={3}), set()),
        ("lj-N", lj, False, "pg", "-O0", dict(N={3}), {"lj"}),
        ("lj-F", lj, False, "pg", "-O0", dict(F={3}), {"lj"}),
        ("lj-D", lj, False, "pg", "-O0", dict(D=3), set()),
        ("dtor-N", dtor, True, "pg", "-O0", dict(N={2}), {"pad"}),
        ("dtor-D", dtor, True, "pg", "-O0", dict(D=4), {"pad"}),
    ]
    return [(n, ops + [P("OP_EXIT", 42)], cpp, fl, opt, flt, ft) for n, ops, cpp, fl, opt, flt, ft in out]


def fn_name(i):
    return "f%d" % i if i < 10 else "t%d" % (i - 10)


def e2e_record_opts(flt):
    ro = []
    for f in sorted(flt.get("F", ())):
        ro += ["-F", "^%s$" % fn_name(f)]
    for f in sorted(flt.get("N", ())):
        ro += ["-N", "^%s$" % fn_name(f)]
    if flt.get("D") is not None:
        ro += ["-D", str(flt["D"])]
    return ro


def e2e_case(ctx, c11chk, d, case):
    """build, run natively (ground truth) and under `uftrace record <filter>`, compare the recorded ENTRY records of the
    main task (uftrace dump: name, record depth) with the documented selection of the ground-truth log"""
    import subprocess
    from lib import datadir
    name, ops, cpp, flavour, opt, flt, feats = case
    res = {"name": name, "problems": [], "features": sorted(feats), "filter": {k: sorted(v) if isinstance(v, set) else v for k, v in flt.items()},
           "flavour": flavour, "opt": opt, "cpp": cpp}
    exe, log, pd = c11chk.build_prog(d, "c05-" + name, ops, cpp, flavour, opt)
    if not exe:
        res["problems"].append("build failed: " + log[-300:])
        res["build_failed"] = True
        return res
    try:
        p = subprocess.run([exe], stdout=subprocess.PIPE, stderr=subprocess.PIPE, timeout=60, cwd=pd)
    except subprocess.TimeoutExpired:
        res["problems"].append("native run timed out (generator bug)")
        res["build_failed"] = True
        return res
    nrc, nout = p.returncode, p.stdout.decode("utf-8", "replace")
    dd = pd + "/data"
    ro = e2e_record_opts(flt)
    res["record_opts"] = ro
    cmd = ["timeout", "-s", "KILL", "60", ctx.src + "/uftrace", "record", "--libmcount-path=" + ctx.src + "/libmcount",
           "--no-event", "--no-pager", "-d", dd] + ro + [exe]
    p = subprocess.run(cmd, stdout=subprocess.PIPE, stderr=subprocess.PIPE, cwd=pd)
    tout, terr = p.stdout.decode("utf-8", "replace"), p.stderr.decode("utf-8", "replace")
    n_ent, n_tids, n_rest = c11chk.parse_gt(nout)
    t_ent, t_tids, t_rest = c11chk.parse_gt(tout)
    if n_rest != t_rest or (nrc == 0) != (p.returncode == 0):
        res["problems"].append("the program behaves differently under uftrace record (C01/C11): rc %d/%d %s" % (
            nrc, p.returncode, terr.strip()[-200:]))
        return res
    rc, out, err = datadir.run_uftrace(ctx.src + "/uftrace", "dump", dd, timeout=60)
    if rc != 0 and "No data available" in err:
        out = ""           # nothing was recorded at all (e.g. -F of a function that is never called)
    elif rc != 0:
        res["problems"].append("dump failed rc=%d %s" % (rc, err[-200:]))
        return res
    streams = c11chk.parse_dump(out)
    for tid, idx in sorted(t_tids.items()):
        got = [(c11chk.NAME_ID[nm], dp) for typ, dp, _, nm in streams.get(tid, []) if typ == 0 and nm in c11chk.NAME_ID]
        want = doc_filter_entries(t_ent.get(idx, []), F=flt.get("F", ()), N=flt.get("N", ()), D=flt.get("D"))
        res["entries"] = res.get("entries", 0) + len(t_ent.get(idx, []))
        res["recorded"] = res.get("recorded", 0) + len(got)
        if want != got:
            k = next((i for i in range(min(len(want), len(got))) if want[i] != got[i]), min(len(want), len(got)))
            res["problems"].append("record-time filter: task %d call #%d of the selection: documented (fn,depth)=%s, recorded %s "
                                   "(%d documented, %d recorded)" % (idx, k, want[k] if k < len(want) else None,
                                                                     got[k] if k < len(got) else None, len(want), len(got)))
            break
    return res


def e2e_family(ctx, nl, quick, rng):
    """C++ programs with exceptions / C programs with longjmp passing through -N / -F / -D-limited functions.
    nl: which of the two findings are repaired in this tree (from fx_probe) -> statistics"""
    from concurrent.futures import ThreadPoolExecutor
    from checks import c11 as c11chk
    st = {"programs": 0, "failures": 0, "attributed": {}, "entries": 0, "recorded": 0, "violations": 0}
    made, mlog = ctx.make()
    if not made:
        C.violation(ctx, "build", {"kind": "uftrace-build-failed", "log": mlog[-3000:]}, True)
        st["violations"] += 1
        return st
    d, log = c11chk.build_e2e_support(ctx)
    if not d:
        C.violation(ctx, "build", {"kind": "e2e-support-build-failed", "log": log[-2000:]}, True)
        st["violations"] += 1
        return st
    cases = e2e_directed()
    flv = ["pg", "fentry", "cyg"]
    for i in range(6 if quick else 150):
        cpp = rng.random() < 0.65
        for _ in range(30):
            if cpp:
                g = c11chk.E2EGen(rng, True, rng.choice([30, 60]), allow=(), plain_exc=True)
            else:
                g = c11chk.E2EGen(rng, False, rng.choice([30, 60]), allow=(), latest_only=True)
            ops = g.generate()
            called = sorted(set(a for k, a, _ in ops if k in ("OP_CALL", "OP_TRYCALL", "OP_RETHROWCALL", "OP_TAIL") and a != 0))
            nonlocal_exits = sum(1 for k, _, _ in ops if k in ("OP_THROW", "OP_LONGJMP", "OP_SIGLONGJMP"))
            if len(called) >= 2 and nonlocal_exits >= 1:
                break
        called = called or [3]
        r = rng.random()
        if r < 0.4:
            flt = dict(N={rng.choice(called)})
        elif r < 0.65:
            flt = dict(F={rng.choice(called)})
        elif r < 0.8:
            flt = dict(D=rng.randint(2, 5))
        else:
            a, b = rng.choice(called), rng.choice(called)
            flt = dict(F={a}, N={b}) if a != b else dict(N={b})
        feats = set()
        if "longjmp" in g.features and (flt.get("F") or flt.get("N")):
            feats.add("lj")
        cases.append(("prog%d" % i, ops, cpp, flv[i % 3], "-O2" if (i // 3) % 2 else "-O0", flt, feats))
    with ThreadPoolExecutor(12) as ex:
        res = list(ex.map(lambda c: e2e_case(ctx, c11chk, d, c), cases))
    replays = 0
    for c, r in zip(cases, res):
        st["programs"] += 1
        st["entries"] += r.get("entries", 0)
        st["recorded"] += r.get("recorded", 0)
        if r.get("build_failed"):
            st["violations"] += 1
            C.violation(ctx, "e2e-" + r["name"], {"kind": "harness-failed", "what": r["problems"]}, True)
            continue
        if not r["problems"]:
            continue
        st["failures"] += 1
        unf = sorted(k for k in c[6] if not nl.get(k))
        if unf:
            for k in unf:
                st["attributed"][k] = st["attributed"].get(k, 0) + 1
            continue
        st["violations"] += 1
        if replays < 3:
            replays += 1
            C.violation(ctx, "e2e-" + r["name"], dict(r, kind="property-violated-on-implementation", script=c[1],
                                                      how="script.h from `script` (checks/c11.py script_h), harness/c11_e2e.c built as "
                                                          "checks/c11.py build_prog() does, run natively and under uftrace record "
                                                          "<record_opts>, uftrace dump vs the documented selection of the program's own log",
                                                      theorem="c05_state_restored_unwind / c05_exception_stream_well_nested"))
    st["directed"] = {r["name"]: ("ok" if not r["problems"] else r["problems"][0][:160]) for r in res[:len(e2e_directed())]}
    return st


def run(ctx):
    ctx.snapshot()
    try:
        ch, _ = consts2lean.main(ctx.src, ctx.scratch)
        ctx.notes.append('Gen/Consts.lean regenerated (changed=%s)' % ch)
        ok, problems = C.prove(ctx, "C05")
    except Exception as e:
        ok, problems = False, ['translator failed: %s' % e]
    proof_broken = not ok
    if proof_broken:
        C.lake_build(["uv_Mcount"])       # the hook model's driver does not depend on the theorems
    from concurrent.futures import ThreadPoolExecutor
    from checks import c11 as c11chk
    with ThreadPoolExecutor(3) as ex:
        fut11 = ex.submit(c11chk.build_h1, ctx, "h1c11-c05")
        fut_make = ex.submit(ctx.make)
        exe, log = h1.build(ctx, "normal")
        exe11, log11 = fut11.result()
        fut_make.result()
    if not exe or not exe11:
        C.violation(ctx, "build", {"kind": "harness-build-failed", "log": (log or log11)[-3000:]}, True)
        return C.finish(ctx)
    sizes = mcheck.sym_sizes(exe)
    rng = ctx.rng
    nforest = 130 if ctx.tier == "quick" else 3000
    f4 = [f for f in C.known_findings("C05") if f["id"] == "F4"]

    cases = []
    for i in range(nforest):
        core = rng.random() < 0.4
        o = mcgen.rand_opts(rng, rich=not core)
        # --max-stack overflow is C02's subject; with filters the two hook families use the shadow
        # stack differently by design (cygprof must push a frame for every call), so it is kept out here
        o.max_stack = None
        if not core and rng.random() < 0.3:
            # directed family: a large -t with a trigger that lowers the threshold (or forces tracing) for
            # some function, so that short-running ancestors get their ENTRY flushed by a recorded descendant
            o = mcgen.Opts()
            o.t = rng.choice([60, 200, 1000])
            o.patt = rng.choice(["regex", "glob", "simple"])
            for fn in rng.sample(list(range(9)), rng.randint(1, 2)):
                o.T.append((fn, [rng.choice([("time", 1), ("time", 5), ("trace", None)])]))
            if rng.random() < 0.3:
                o.D = rng.randint(2, 5)
        if core:      # option sets whose documented meaning is unambiguous
            o.C, o.L, o.Z, o.T, o.trace_off, o.max_stack = [], None, None, [], False, None
        ops = mcgen.rand_forest(rng, max_calls=rng.choice([8, 20, 40]), max_depth=rng.choice([3, 5, 7]))
        # two probe siblings after the forest make a leaked filter state observable
        last_t = max(op[1] for op in ops if op[0] == "T")
        for p in range(2):
            fn = rng.randrange(9)
            ops += [("T", last_t + 100 + 40 * p), ("E", fn), ("T", last_t + 120 + 40 * p), ("X",)]
        for kind in ("pg", "cyg", "mix"):
            kf = (lambda fn, i, kind=kind: kind if kind != "mix" else ("pg" if (fn + i) % 2 else "cyg"))
            cases.append({"opts": o, "script": mcgen.script_lines(ops, kf), "kind": kind, "core": core, "forest": i})
    mcheck.run_cases(ctx, exe, sizes, cases)
    # finding F-C07-TRACEOFF-FLUSH (property C07; the hook model shared with C02/C07/C17/C18 has the repair, Cfg.f7fixed):
    # where libmcount does not behave like the hook model and the option set has a trace_off trigger, does it behave
    # like the model of the code before the repair (no flush of the pending ENTRY records at the TRACE_OFF update of
    # mcount_entry_filter_check)?
    tof = [f for f in C.known_findings("C07") if f["id"] == "F-C07-TRACEOFF-FLUSH"]
    odd = [c for c in cases if c["impl_cmp"] != c["model_cmp"] and
           any(a == "trace_off" for _, acts in c["opts"].T for a, _ in acts)]
    if odd:
        ml, spans = [], []
        for c in odd:
            pre = ["RESET"] + mcgen.to_model(c["opts"], sizes, False)
            pre[1] += " f7fixed=0"
            spans.append((len(ml) + len(pre), len(c["script"])))
            ml += pre + c["script"]
        mo = C.run_model("Mcount", ml)
        for c, (a, n) in zip(odd, spans):
            c["matches_prefix_F7_hook_model"] = [mcheck.strip_obs(C.norm(x), False) for x in mo[a:a + n]] == c["impl_cmp"]

    total = disagreements = monitor_fail = known_hits = prefix_f7 = 0
    replays = 0
    distinct = set()
    dist = {"core_option_sets": 0, "with_F": 0, "with_N": 0, "with_L": 0, "with_T": 0, "with_C": 0, "with_t": 0,
            "with_D": 0, "with_Z": 0, "trace_off_start": 0, "glob": 0, "simple": 0, "overflow": 0}
    samples = []
    by_forest = {}
    for c in cases:
        o = c["opts"]
        total += 1
        distinct.add(hash((json.dumps(o.describe(), sort_keys=True, default=str), tuple(c["script"]))))
        if c["kind"] == "pg":
            dist["core_option_sets"] += c["core"]
            for k, v in (("with_F", o.F), ("with_N", o.N), ("with_L", o.L), ("with_T", o.T), ("with_C", o.C),
                         ("with_t", o.t), ("with_D", o.D), ("with_Z", o.Z), ("trace_off_start", o.trace_off),
                         ("overflow", o.max_stack)):
                dist[k] += bool(v)
            dist["glob"] += o.patt == "glob"
            dist["simple"] += o.patt == "simple"
        st = mcheck.stream(c["impl"])
        by_forest.setdefault(c["forest"], {})[c["kind"]] = st
        bad = None
        end = c["impl"][-1] if c["impl"] else ""
        m = re.search(r"idx=(-?\d+) ridx=(-?\d+) filt=(\d+)/(\d+)/(\d+)/(\d+)/(\d+)/(\d+)", end)
        if c["bad_obs"]:
            bad = "errno or return address not preserved: " + c["bad_obs"][0]
        elif m:
            idx, ridx, inc, outc, dep, maxd, tim, siz = [int(x) for x in m.groups()]
            exp = (0, 0, 0, 0, 0, 65535, NO_TIME, o.Z or 0)
            if (idx, ridx, inc, outc, dep, maxd, tim, siz) != exp:
                bad = "filter state after all calls returned differs from the state before: idx/ridx/in/out/depth/max_depth/time/size = %s, expected %s" % (
                    (idx, ridx, inc, outc, dep, maxd, tim, siz), exp)
        elif "nothread" not in end:
            bad = "no END line: " + end[:100]
        has_switch = o.trace_off or any(a in ("trace_on", "trace_off") for _, acts in o.T for a, _ in acts)
        if not bad and not has_switch:
            s = structural(st)
            if s:
                bad = "recorded calls are not properly nested: " + s
        if not bad and c["core"]:
            exp = doc_spec_stream(c["script"], o)
            if st != exp:
                k = next((i for i, (a, b) in enumerate(zip(st, exp)) if a != b), min(len(st), len(exp)))
                bad = "recorded calls differ from the documented selection at record %d: got %s, documented %s" % (
                    k, st[k:k + 2], exp[k:k + 2])
        dis = c["impl_cmp"] != c["model_cmp"]
        disagreements += dis
        c["bad"] = bad
        if len(samples) < 3 and total % 97 == 11:
            samples.append({"env": mcgen.to_env(o), "kind": c["kind"], "script": c["script"][:30], "impl_stream": st[:10]})
        if dis and not bad and c.get("matches_prefix_F7_hook_model"):
            # libmcount matches the hook model with f7fixed=0: a trace_off trigger in a function that the filters reject
            # (or while the thread's enable_cached is stale) does not write the pending ENTRY records of the open callers
            prefix_f7 += 1
            if tof:
                known_hits += 1
                C.known(ctx, tof[0], "F-C07-TRACEOFF-FLUSH a trace_off trigger on a function that the filters reject loses the "
                                     "ENTRY records of the open callers (libmcount matches the hook model with f7fixed=0)")
                continue
            monitor_fail += 1
            if replays < 3:
                replays += 1
                first = next((i for i, (a, b) in enumerate(zip(c["impl_cmp"], c["model_cmp"])) if a != b), None)
                C.violation(ctx, "case%d" % total, {
                    "kind": "property-violated-on-implementation", "finding": "F-C07-TRACEOFF-FLUSH",
                    "what": "the calls selected by the filters are not all recorded: a trace_off trigger in a function that the "
                            "filters reject does not write the pending ENTRY records of the open callers",
                    "implementation_matches_pre_fix_model": True, "pre_fix_model": "Mcount CFG f7fixed=0",
                    "witness_theorem": "c07_prefix_traceoff_flush_witness", "proposed_fix": "proposed_fixes/C07-TRACEOFF-FLUSH.diff",
                    "hook": c["kind"], "env": mcgen.to_env(o), "script": c["script"][:300],
                    "first_line_difference": None if first is None else {
                        "line": first, "op": c["script"][first], "impl": c["impl_cmp"][first][-300:],
                        "repaired_model": c["model_cmp"][first][-300:]},
                    "theorem": "c07_traceoff_in_rejected_flushes (Props/C07.lean) / correspondence Mcount"})
            continue
        if bad or dis:
            if bad and not dis and f4 and leak_shape(o, c["script"]):
                known_hits += 1
                C.known(ctx, f4[0], "F4 -pg/fentry path: a filter/trigger on a function rejected by the -L location filter leaks into later calls and makes the result method-dependent")
                continue
            monitor_fail += bool(bad)
            if replays < 3:
                replays += 1
                first = next((i for i, (a, b) in enumerate(zip(c["impl_cmp"], c["model_cmp"])) if a != b), None)
                C.violation(ctx, "case%d" % total, {
                    "kind": "property-violated-on-implementation" if bad else "model-code-disagreement",
                    "what": bad, "hook": c["kind"], "env": mcgen.to_env(o), "script": c["script"][:300],
                    "first_line_difference": None if first is None else {
                        "line": first, "op": c["script"][first], "impl": c["impl_cmp"][first][-300:], "model": c["model_cmp"][first][-300:]},
                    "theorem": "c05_state_restored_cyg / correspondence Mcount",
                }, no_failing_input=not bad)
    # method independence: the same history and options under -pg and -finstrument-functions
    indep_checked = indep_fail = 0
    for fi, d in by_forest.items():
        if "pg" in d and "cyg" in d:
            indep_checked += 1
            if d["pg"] != d["cyg"]:
                c = next(x for x in cases if x["forest"] == fi and x["kind"] == "pg")
                if f4 and leak_shape(c["opts"], c["script"]):
                    C.known(ctx, f4[0], "F4 -pg/fentry path: a filter/trigger on a function rejected by the -L location filter leaks into later calls and makes the result method-dependent")
                    known_hits += 1
                    continue
                indep_fail += 1
                monitor_fail += 1
                if replays < 4:
                    replays += 1
                    k = next((i for i, (a, b) in enumerate(zip(d["pg"], d["cyg"])) if a != b), min(len(d["pg"]), len(d["cyg"])))
                    C.violation(ctx, "indep%d" % fi, {
                        "kind": "property-violated-on-implementation",
                        "what": "recorded trace depends on the instrumentation method (-pg vs -finstrument-functions)",
                        "env": mcgen.to_env(c["opts"]), "script_pg": c["script"][:300],
                        "first_difference": {"index": k, "pg": d["pg"][k:k + 3], "cyg": d["cyg"][k:k + 3]}})
    # ---------------------------------------------------------------- filters x non-local exits
    import random
    fxst = fx_family(ctx, exe11, 120 if ctx.tier == "quick" else 4000, report=True,
                     rng=random.Random(ctx.seed * 1000003 + 505))
    nlv = {k: bool(v) for k, v in fxst["variant"].items()}
    e2st = e2e_family(ctx, nlv, ctx.tier == "quick", random.Random(ctx.seed * 1000003 + 506))
    if proof_broken:
        concrete = [pth for pth, nfi in ctx.violations if not nfi]
        C.violation(ctx, "proof", {"kind": "proof-obligation-broken", "problems": problems,
                                   "searched": "%d H1 cases (monitor failures %d); %d FX cases; %d e2e programs" % (
                                       total, monitor_fail, fxst["cases"], e2st["programs"]),
                                   "failing_inputs_found": concrete[:6]},
                    no_failing_input=not concrete)
    ctx.coverage.update({
        "fx_nonlocal_exits": fxst, "e2e_nonlocal_exits": e2st,
        "evaluations": total + fxst["cases"] + e2st["programs"], "distinct_nontrivial": len(distinct) + fxst["cases"] + e2st["programs"],
        "rule": "random option sets (-F/-N/-C/-D/-t/-Z/-L/-T depth,time,size,trace,filter,notrace,trace_on/off; regex/glob/simple "
                "patterns; optional small max_stack) x random call forests over 9 symbols in 2 source files, each forest followed by "
                "two probe calls, each run under the -pg hook, the cygprof hook and a mix. distinct = distinct (options, script).  "
                "FX: random option sets x random histories with exceptions (throw, unwinding k frames, landing-pad calls, resume, "
                "catch) and setjmp/longjmp through functions that hold filter state, on the C11 H1 harness (fake frames, PLT symbols "
                "bound by name) against the hook model's unwindExc/padEntry*/pltEntry/jmpRestore, with the state-restoration and "
                "documented-selection monitors.  e2e: C++/C programs whose exceptions/longjmps pass through -N/-F/-D-limited "
                "functions, recorded ENTRY records (uftrace dump) vs the documented selection of the program's own call log",
        "input_distribution": dist, "model_code_disagreements": disagreements, "monitor_failures_on_impl": monitor_fail,
        "known_finding_hits": known_hits, "libmcount_matches_pre_F7_hook_model": prefix_f7, "method_independence_pairs": indep_checked, "method_independence_failures": indep_fail,
        "samples": samples, "exhaustive": False,
    })
    ctx.assumptions += ["regexec/fnmatch as provided by libc (the real engines run in the harness)",
                        "option glue: the harness builds UFTRACE_FILTER/TRIGGER/CALLER/LOCATION/DEPTH/THRESHOLD/MIN_SIZE/PATTERN as cmds/record.c:setup_child_environ does",
                        "documented-selection monitor only for option sets made of -F/-N/-D/-t (unambiguous in the manual); other combinations are decided by model correspondence, state restoration, nesting and method independence"]
    return C.finish(ctx)


def replay(ctx, path):
    print(json.dumps(json.load(open(path)), indent=1)[:6000])
    return 0
