"""C05 — Record-time filters and triggers select exactly the documented calls.
Lean: Uft/Model/Mcount.lean (+ CallTree), Uft/Props/C05.lean.
Tie: C (H1): the real libmcount, configured through the real UFTRACE_* option strings
(-F/-N/-C/-D/-t/-Z/-L/-T; regex, glob and simple patterns), driven in-process with a
scripted clock, against the Lean model; monitors evaluate the property on the
implementation's output: filter state restored, nesting, method independence, and the
documented selection for the core options.
The hook model has the repair of finding F-C07-TRACEOFF-FLUSH (Cfg.f7fixed: flush of the pending ENTRY records
at the TRACE_OFF update of mcount_entry_filter_check); a libmcount that matches the model with f7fixed=0 instead
is reported as that finding (KNOWN-FINDING while it is listed open under C07, VIOLATION with the case otherwise)."""
import json
import re
import sys

from lib import common as C, h1, mcgen, mcheck
from checks.c02 import parse_script, structural
from translators import consts2lean

sys.setrecursionlimit(20000)
NO_TIME = 18446744073709551615


def doc_spec_stream(script, o):
    """Documented semantics for option sets made of -F, -N, -D, -t only (uftrace-record.md,
    FILTERS): -F f = f and everything it calls; -N f = without f and everything it calls;
    -D n = at most n nested visible levels (counted from the innermost -F match);
    -t n = calls longer than n, plus their callers."""
    roots = parse_script(script)
    optin = bool(o.F)
    D = o.D if o.D is not None else 1024
    thr = o.t or 0
    out = []

    def walk(n, inc, outc, budget, depth, emit):
        """returns list of record tokens for n and below, depth = number of kept open ancestors"""
        if outc > 0:
            vis, inc2, outc2, b2 = False, inc, outc, budget
        else:
            inc2, outc2, b2 = inc, outc, budget
            if n["fn"] in o.F:
                inc2, b2 = inc + 1, D
            elif n["fn"] in o.N:
                outc2 = outc + 1
            vis = outc2 == 0 and (not optin or inc2 > 0) and b2 > 0
            if vis:
                b2 -= 1
        kids = []
        for k in n["kids"]:
            kids += walk(k, inc2, outc2, b2, depth + (1 if vis else 0), emit)
        if not vis:
            return kids
        dur = (n["t1"] - n["t0"]) if n["t1"] is not None else None
        keep = bool(kids) or (dur is not None and dur >= thr) or dur is None and bool(kids)
        if not keep:
            return []
        me = ["E:%d:%d:%d" % (depth, n["fn"], n["t0"])] + kids
        if n["t1"] is not None:
            me.append("X:%d:%d:%d" % (depth, n["fn"], n["t1"]))
        return me
    for r in roots:
        out += walk(r, 0, 0, D, 0, True)
    return out


def leak_shape(o, script):
    """finding F4: on the -pg/fentry path a function whose trigger changes the filter state
    and which is then rejected by the location filter leaves that change behind."""
    if o.L is None:
        return False
    hidden = [f for f in list(range(9)) if (f in mcgen.FILES[o.L[0]]) != o.L[1]]
    trig = set(o.F) | set(o.N) | {fn for fn, acts in o.T if any(a in ("filter", "notrace", "depth", "time", "size", "trace_on", "trace_off") for a, _ in acts)}
    bad = trig & set(hidden)
    return any(re.match(r"E pg (\d+)", l) and int(l.split()[2]) in bad for l in script)


def run(ctx):
    ctx.snapshot()
    try:
        ch, _ = consts2lean.main(ctx.src, ctx.scratch)
        ctx.notes.append('Gen/Consts.lean regenerated (changed=%s)' % ch)
        ok, problems = C.prove(ctx, "C05")
    except Exception as e:
        ok, problems = False, ['translator failed: %s' % e]
    proof_broken = not ok
    exe, log = h1.build(ctx, "normal")
    if not exe:
        C.violation(ctx, "build", {"kind": "harness-build-failed", "log": log[-3000:]}, True)
        return C.finish(ctx)
    sizes = mcheck.sym_sizes(exe)
    rng = ctx.rng
    nforest = 130 if ctx.tier == "quick" else 3000
    f4 = [f for f in C.known_findings("C05") if f["id"] == "F4"]

    cases = []
    for i in range(nforest):
        core = rng.random() < 0.4
        o = mcgen.rand_opts(rng, rich=not core)
        # --max-stack overflow is C02's subject; with filters the two hook families use the shadow
        # stack differently by design (cygprof must push a frame for every call), so it is kept out here
        o.max_stack = None
        if not core and rng.random() < 0.3:
            # directed family: a large -t with a trigger that lowers the threshold (or forces tracing) for
            # some function, so that short-running ancestors get their ENTRY flushed by a recorded descendant
            o = mcgen.Opts()
            o.t = rng.choice([60, 200, 1000])
            o.patt = rng.choice(["regex", "glob", "simple"])
            for fn in rng.sample(list(range(9)), rng.randint(1, 2)):
                o.T.append((fn, [rng.choice([("time", 1), ("time", 5), ("trace", None)])]))
            if rng.random() < 0.3:
                o.D = rng.randint(2, 5)
        if core:      # option sets whose documented meaning is unambiguous
            o.C, o.L, o.Z, o.T, o.trace_off, o.max_stack = [], None, None, [], False, None
        ops = mcgen.rand_forest(rng, max_calls=rng.choice([8, 20, 40]), max_depth=rng.choice([3, 5, 7]))
        # two probe siblings after the forest make a leaked filter state observable
        last_t = max(op[1] for op in ops if op[0] == "T")
        for p in range(2):
            fn = rng.randrange(9)
            ops += [("T", last_t + 100 + 40 * p), ("E", fn), ("T", last_t + 120 + 40 * p), ("X",)]
        for kind in ("pg", "cyg", "mix"):
            kf = (lambda fn, i, kind=kind: kind if kind != "mix" else ("pg" if (fn + i) % 2 else "cyg"))
            cases.append({"opts": o, "script": mcgen.script_lines(ops, kf), "kind": kind, "core": core, "forest": i})
    mcheck.run_cases(ctx, exe, sizes, cases)
    # finding F-C07-TRACEOFF-FLUSH (property C07; the hook model shared with C02/C07/C17/C18 has the repair, Cfg.f7fixed):
    # where libmcount does not behave like the hook model and the option set has a trace_off trigger, does it behave
    # like the model of the code before the repair (no flush of the pending ENTRY records at the TRACE_OFF update of
    # mcount_entry_filter_check)?
    tof = [f for f in C.known_findings("C07") if f["id"] == "F-C07-TRACEOFF-FLUSH"]
    odd = [c for c in cases if c["impl_cmp"] != c["model_cmp"] and
           any(a == "trace_off" for _, acts in c["opts"].T for a, _ in acts)]
    if odd:
        ml, spans = [], []
        for c in odd:
            pre = ["RESET"] + mcgen.to_model(c["opts"], sizes, False)
            pre[1] += " f7fixed=0"
            spans.append((len(ml) + len(pre), len(c["script"])))
            ml += pre + c["script"]
        mo = C.run_model("Mcount", ml)
        for c, (a, n) in zip(odd, spans):
            c["matches_prefix_F7_hook_model"] = [mcheck.strip_obs(C.norm(x), False) for x in mo[a:a + n]] == c["impl_cmp"]

    total = disagreements = monitor_fail = known_hits = prefix_f7 = 0
    replays = 0
    distinct = set()
    dist = {"core_option_sets": 0, "with_F": 0, "with_N": 0, "with_L": 0, "with_T": 0, "with_C": 0, "with_t": 0,
            "with_D": 0, "with_Z": 0, "trace_off_start": 0, "glob": 0, "simple": 0, "overflow": 0}
    samples = []
    by_forest = {}
    for c in cases:
        o = c["opts"]
        total += 1
        distinct.add(hash((json.dumps(o.describe(), sort_keys=True, default=str), tuple(c["script"]))))
        if c["kind"] == "pg":
            dist["core_option_sets"] += c["core"]
            for k, v in (("with_F", o.F), ("with_N", o.N), ("with_L", o.L), ("with_T", o.T), ("with_C", o.C),
                         ("with_t", o.t), ("with_D", o.D), ("with_Z", o.Z), ("trace_off_start", o.trace_off),
                         ("overflow", o.max_stack)):
                dist[k] += bool(v)
            dist["glob"] += o.patt == "glob"
            dist["simple"] += o.patt == "simple"
        st = mcheck.stream(c["impl"])
        by_forest.setdefault(c["forest"], {})[c["kind"]] = st
        bad = None
        end = c["impl"][-1] if c["impl"] else ""
        m = re.search(r"idx=(-?\d+) ridx=(-?\d+) filt=(\d+)/(\d+)/(\d+)/(\d+)/(\d+)/(\d+)", end)
        if c["bad_obs"]:
            bad = "errno or return address not preserved: " + c["bad_obs"][0]
        elif m:
            idx, ridx, inc, outc, dep, maxd, tim, siz = [int(x) for x in m.groups()]
            exp = (0, 0, 0, 0, 0, 65535, NO_TIME, o.Z or 0)
            if (idx, ridx, inc, outc, dep, maxd, tim, siz) != exp:
                bad = "filter state after all calls returned differs from the state before: idx/ridx/in/out/depth/max_depth/time/size = %s, expected %s" % (
                    (idx, ridx, inc, outc, dep, maxd, tim, siz), exp)
        elif "nothread" not in end:
            bad = "no END line: " + end[:100]
        has_switch = o.trace_off or any(a in ("trace_on", "trace_off") for _, acts in o.T for a, _ in acts)
        if not bad and not has_switch:
            s = structural(st)
            if s:
                bad = "recorded calls are not properly nested: " + s
        if not bad and c["core"]:
            exp = doc_spec_stream(c["script"], o)
            if st != exp:
                k = next((i for i, (a, b) in enumerate(zip(st, exp)) if a != b), min(len(st), len(exp)))
                bad = "recorded calls differ from the documented selection at record %d: got %s, documented %s" % (
                    k, st[k:k + 2], exp[k:k + 2])
        dis = c["impl_cmp"] != c["model_cmp"]
        disagreements += dis
        c["bad"] = bad
        if len(samples) < 3 and total % 97 == 11:
            samples.append({"env": mcgen.to_env(o), "kind": c["kind"], "script": c["script"][:30], "impl_stream": st[:10]})
        if dis and not bad and c.get("matches_prefix_F7_hook_model"):
            # libmcount matches the hook model with f7fixed=0: a trace_off trigger in a function that the filters reject
            # (or while the thread's enable_cached is stale) does not write the pending ENTRY records of the open callers
            prefix_f7 += 1
            if tof:
                known_hits += 1
                C.known(ctx, tof[0], "F-C07-TRACEOFF-FLUSH a trace_off trigger on a function that the filters reject loses the "
                                     "ENTRY records of the open callers (libmcount matches the hook model with f7fixed=0)")
                continue
            monitor_fail += 1
            if replays < 3:
                replays += 1
                first = next((i for i, (a, b) in enumerate(zip(c["impl_cmp"], c["model_cmp"])) if a != b), None)
                C.violation(ctx, "case%d" % total, {
                    "kind": "property-violated-on-implementation", "finding": "F-C07-TRACEOFF-FLUSH",
                    "what": "the calls selected by the filters are not all recorded: a trace_off trigger in a function that the "
                            "filters reject does not write the pending ENTRY records of the open callers",
                    "implementation_matches_pre_fix_model": True, "pre_fix_model": "Mcount CFG f7fixed=0",
                    "witness_theorem": "c07_prefix_traceoff_flush_witness", "proposed_fix": "proposed_fixes/C07-TRACEOFF-FLUSH.diff",
                    "hook": c["kind"], "env": mcgen.to_env(o), "script": c["script"][:300],
                    "first_line_difference": None if first is None else {
                        "line": first, "op": c["script"][first], "impl": c["impl_cmp"][first][-300:],
                        "repaired_model": c["model_cmp"][first][-300:]},
                    "theorem": "c07_traceoff_in_rejected_flushes (Props/C07.lean) / correspondence Mcount"})
            continue
        if bad or dis:
            if bad and not dis and f4 and leak_shape(o, c["script"]):
                known_hits += 1
                C.known(ctx, f4[0], "F4 -pg/fentry path: a filter/trigger on a function rejected by the -L location filter leaks into later calls and makes the result method-dependent")
                continue
            monitor_fail += bool(bad)
            if replays < 3:
                replays += 1
                first = next((i for i, (a, b) in enumerate(zip(c["impl_cmp"], c["model_cmp"])) if a != b), None)
                C.violation(ctx, "case%d" % total, {
                    "kind": "property-violated-on-implementation" if bad else "model-code-disagreement",
                    "what": bad, "hook": c["kind"], "env": mcgen.to_env(o), "script": c["script"][:300],
                    "first_line_difference": None if first is None else {
                        "line": first, "op": c["script"][first], "impl": c["impl_cmp"][first][-300:], "model": c["model_cmp"][first][-300:]},
                    "theorem": "c05_state_restored_cyg / correspondence Mcount",
                }, no_failing_input=not bad)
    # method independence: the same history and options under -pg and -finstrument-functions
    indep_checked = indep_fail = 0
    for fi, d in by_forest.items():
        if "pg" in d and "cyg" in d:
            indep_checked += 1
            if d["pg"] != d["cyg"]:
                c = next(x for x in cases if x["forest"] == fi and x["kind"] == "pg")
                if f4 and leak_shape(c["opts"], c["script"]):
                    C.known(ctx, f4[0], "F4 -pg/fentry path: a filter/trigger on a function rejected by the -L location filter leaks into later calls and makes the result method-dependent")
                    known_hits += 1
                    continue
                indep_fail += 1
                monitor_fail += 1
                if replays < 4:
                    replays += 1
                    k = next((i for i, (a, b) in enumerate(zip(d["pg"], d["cyg"])) if a != b), min(len(d["pg"]), len(d["cyg"])))
                    C.violation(ctx, "indep%d" % fi, {
                        "kind": "property-violated-on-implementation",
                        "what": "recorded trace depends on the instrumentation method (-pg vs -finstrument-functions)",
                        "env": mcgen.to_env(c["opts"]), "script_pg": c["script"][:300],
                        "first_difference": {"index": k, "pg": d["pg"][k:k + 3], "cyg": d["cyg"][k:k + 3]}})
    if proof_broken:
        C.violation(ctx, "proof", {"kind": "proof-obligation-broken", "problems": problems,
                                   "searched": "%d H1 cases; monitor failures %d" % (total, monitor_fail)},
                    no_failing_input=(monitor_fail == 0))
    ctx.coverage.update({
        "evaluations": total, "distinct_nontrivial": len(distinct),
        "rule": "random option sets (-F/-N/-C/-D/-t/-Z/-L/-T depth,time,size,trace,filter,notrace,trace_on/off; regex/glob/simple "
                "patterns; optional small max_stack) x random call forests over 9 symbols in 2 source files, each forest followed by "
                "two probe calls, each run under the -pg hook, the cygprof hook and a mix. distinct = distinct (options, script)",
        "input_distribution": dist, "model_code_disagreements": disagreements, "monitor_failures_on_impl": monitor_fail,
        "known_finding_hits": known_hits, "libmcount_matches_pre_F7_hook_model": prefix_f7, "method_independence_pairs": indep_checked, "method_independence_failures": indep_fail,
        "samples": samples, "exhaustive": False,
    })
    ctx.assumptions += ["regexec/fnmatch as provided by libc (the real engines run in the harness)",
                        "option glue: the harness builds UFTRACE_FILTER/TRIGGER/CALLER/LOCATION/DEPTH/THRESHOLD/MIN_SIZE/PATTERN as cmds/record.c:setup_child_environ does",
                        "documented-selection monitor only for option sets made of -F/-N/-D/-t (unambiguous in the manual); other combinations are decided by model correspondence, state restoration, nesting and method independence"]
    return C.finish(ctx)


def replay(ctx, path):
    print(json.dumps(json.load(open(path)), indent=1)[:6000])
    return 0
