"""C02 — The recorded trace is exactly each thread's call history.
Lean: Uft/Gen/Layout.lean (translated), Uft/Model/Mcount.lean, Uft/Props/C02.lean.
Tie: T (record word layout: writer statements of libmcount/record.c + compiled bit-field
probe of uftrace.h) and C (H1: the real libmcount hooks driven in-process with a scripted
clock vs the model; plus a spec monitor on the implementation's record stream)."""
import itertools
import json
import os
import re
import sys
sys.setrecursionlimit(20000)

from lib import common as C, h1, mcgen, mcheck
from translators import layout2lean, consts2lean


def parse_script(script):
    """-> list of top-level nodes; node = dict(fn,t0,t1,kids,depth,forced,dropped)"""
    now = 1000
    roots, stack = [], []
    for li, l in enumerate(script):
        p = l.split()
        if p[0] == "T":
            now = int(p[1])
        elif p[0] == "E":
            n = {"fn": int(p[2]), "t0": now, "t1": None, "kids": [], "depth": len(stack), "forced": False,
                 "dropped": False, "kind": p[1], "li": li, "lx": None}
            (stack[-1]["kids"] if stack else roots).append(n)
            stack.append(n)
        elif p[0] == "X":
            n = stack.pop()
            n["t1"] = now
            n["lx"] = li
        elif p[0] in ("FLUSH", "FORK"):
            # FLUSH writes the open frames; FORK marks them written in the child
            for n in stack:
                n["forced"] = True
    return roots


def expected_stream(script, max_stack, threshold=0):
    """The property as a specification: every executed call at depth < max_stack, in
    execution order, nested, depth = number of open calls (also calls of zero measured
    duration, since the repair of finding S4: the exit hook keeps `>= threshold`)."""
    roots = parse_script(script)

    def mark(n, anc):
        if n["depth"] >= max_stack:
            n["dropped"] = True
            for a in anc:
                a["forced"] = True       # the overflow warning flushes the open frames
        for k in n["kids"]:
            mark(k, anc + [n])
    for r in roots:
        mark(r, [])

    def recorded(n):
        if n["dropped"]:
            return False
        if "rec" not in n:
            kids = [recorded(k) for k in n["kids"]]
            n["rec"] = n["forced"] or any(kids) or (n["t1"] is not None and n["t1"] - n["t0"] >= threshold)
        return n["rec"]
    out = []
    # a forked child writes its own data file: only what happens after the (last) FORK belongs to it
    fork_at = max([i for i, l in enumerate(script) if l == "FORK"] + [-1])

    def emit(n):
        if not recorded(n):
            return
        if n["li"] > fork_at:
            out.append("E:%d:%d:%d" % (n["depth"], n["fn"], n["t0"]))
        for k in n["kids"]:
            emit(k)
        if n["t1"] is not None and n["lx"] > fork_at:
            out.append("X:%d:%d:%d" % (n["depth"], n["fn"], n["t1"]))
    for r in roots:
        emit(r)
    return out


def structural(stream):
    """nesting / depth / monotone time on a decoded stream"""
    st = []
    last = 0
    for tok in stream:
        p = tok.split(":")
        if len(p) != 4:
            return "malformed record " + tok
        typ, d, fn, t = p[0], int(p[1]), p[2], int(p[3])
        if t < last:
            return "timestamp decreases at " + tok
        last = t
        if typ == "E":
            if d != len(st):
                return "depth != open calls at " + tok
            st.append(fn)
        elif typ == "X":
            if not st or st[-1] != fn or d != len(st) - 1:
                return "exit does not match open entry at " + tok
            st.pop()
    return None


def dyck(n):
    """all balanced sequences with n calls as nested lists"""
    if n == 0:
        yield []
        return
    for k in range(n):
        for inner in dyck(k):
            for rest in dyck(n - 1 - k):
                yield [inner] + rest


def run(ctx):
    ctx.snapshot()
    try:
        changed, _ = layout2lean.main(ctx.src, ctx.scratch)
        ch2, _ = consts2lean.main(ctx.src, ctx.scratch)
        ctx.notes.append('Gen/Consts.lean regenerated (changed=%s)' % ch2)
        ctx.notes.append("Gen/Layout.lean regenerated from the snapshot (changed=%s)" % changed)
    except Exception as e:  # translator cannot read the source any more
        C.violation(ctx, "translator", {"kind": "translator-failed", "error": str(e),
                                        "theorem": "c02_unpack_pack"}, True)
        return C.finish(ctx)
    ok, problems = C.prove(ctx, "C02")
    proof_broken = not ok
    if proof_broken:
        ctx.notes.append("proof obligation broken: %s" % problems[:5])

    variants = ["normal", "fast"] if ctx.tier == "quick" else ["normal", "fast", "single", "fast-single"]
    exes = {}
    for v in variants:
        exe, log = h1.build(ctx, v)
        if not exe:
            C.violation(ctx, "build-" + v, {"kind": "harness-build-failed", "log": log[-3000:]}, True)
            return C.finish(ctx)
        exes[v] = exe
    sizes = mcheck.sym_sizes(exes["normal"])

    rng = ctx.rng
    nrand = 250 if ctx.tier == "quick" else 6000
    total = 0
    disagreements = 0
    monitor_fail = 0
    distinct = set()
    samples = []
    dist = {"depth>=4": 0, "overflow": 0, "recursion": 0, "zero_dur": 0, "flush": 0, "open_at_end": 0}
    replays = 0
    known_f5 = [f for f in C.known_findings("C02") if f["id"] == "F5b"]

    def gen_cases(variant, n):
        cases = []
        for i in range(n):
            o = mcgen.Opts()
            o.max_stack = rng.choice([None, None, 3, 5, 8])
            ops = mcgen.rand_forest(rng, max_calls=rng.choice([6, 15, 40]), max_depth=rng.choice([3, 6, 9]))
            kind = rng.choice(["pg", "cyg", "mix"])
            kf = (lambda fn, i, kind=kind: kind if kind != "mix" else ("pg" if (fn + i) % 2 else "cyg"))
            sl = mcgen.script_lines(ops, kf)
            if rng.random() < 0.2:       # SIGSEGV-style flush somewhere (also beyond max_stack: F11 is repaired)
                pos = rng.randrange(1, len(sl))
                sl.insert(pos, "FLUSH")
            if rng.random() < 0.15:      # fork(): the child continues the parent's open calls in its own file
                pos = rng.randrange(1, len(sl))
                dnow = sum(1 for l in sl[:pos] if l.startswith("E ")) - sum(1 for l in sl[:pos] if l == "X")
                if dnow <= (o.max_stack or 1024) and "FLUSH" not in sl:
                    sl.insert(pos, "FORK")
            if rng.random() < 0.15:      # prefix history: calls still open at the end
                cut = rng.randrange(1, len(sl))
                sl = sl[:cut] + ["END"]
            cases.append({"opts": o, "script": sl, "kind": kind, "variant": variant})
        return cases

    batches = []
    for v in variants:
        batches.append((v, gen_cases(v, nrand if v == "normal" else max(40, nrand // 5))))
    # exhaustive small histories (model validation): all shapes with <= 4 calls over 2 functions, two clocks
    exh = []
    maxn = 4 if ctx.tier == "quick" else 5
    for n in range(1, maxn + 1):
        for shape in dyck(n):
            for fns in itertools.product([0, 5], repeat=n):
                for step in ((1,) if n == maxn and ctx.tier == "quick" else (1, 0)):
                    it = iter(fns)
                    sl = []
                    now = [1000]

                    def walk(nodes):
                        for kids in nodes:
                            sl.append("T %d" % now[0])
                            sl.append("E pg %d" % next(it))
                            now[0] += step
                            walk(kids)
                            now[0] += step
                            sl.append("T %d" % now[0])
                            sl.append("X")
                    walk(shape)
                    sl.append("END")
                    o = mcgen.Opts()
                    o.max_stack = 3
                    exh.append({"opts": o, "script": sl, "kind": "pg", "variant": "normal", "exh": True})
    batches.append(("normal", exh))
    # deep recursion beyond the 10-bit depth field (finding F5)
    deep = []
    for ms, dp in ((2000, 1030), (1024, 1030)):
        sl = []
        t = 1000
        for d in range(dp):
            sl += ["T %d" % t, "E pg 1"]
            t += 1
        for d in range(dp):
            t += 1
            sl += ["T %d" % t, "X"]
        sl.append("END")
        o = mcgen.Opts()
        o.max_stack = ms
        o.D = 2000          # the default depth limit is 1024 as well
        deep.append({"opts": o, "script": sl, "kind": "pg", "variant": "normal", "deep": dp})
    batches.append(("normal", deep))
    # corpus of past disagreements (run in every variant): handler / fork before any thread data exists
    for v in variants:
        cc = []
        for sl in (["T 1000", "FLUSH", "END"], ["T 1000", "FORK", "END"], ["T 1000", "FLUSH", "E pg 1", "T 1005", "X", "END"],
                   ["T 1000", "FORK", "E cyg 1", "T 1005", "X", "END"]):
            cc.append({"opts": mcgen.Opts(), "script": sl, "kind": "pg", "variant": v})
        batches.append((v, cc))

    for v, cases in batches:
        fast = "fast" in v
        mcheck.run_cases(ctx, exes[v], sizes, cases, fast)
        for c in cases:
            total += 1
            key = (v, c["opts"].max_stack, tuple(c["script"]))
            distinct.add(hash(key))
            ms = c["opts"].max_stack or 1024
            roots = parse_script(c["script"])
            md = max([0] + [int(l.split()[0] == "E") for l in c["script"]])
            depth_now, maxd = 0, 0
            for l in c["script"]:
                if l.startswith("E "):
                    depth_now += 1
                    maxd = max(maxd, depth_now)
                elif l == "X":
                    depth_now -= 1
            dist["depth>=4"] += maxd >= 4

            def walk_nodes(ns, anc):
                for n in ns:
                    yield n, anc
                    yield from walk_nodes(n["kids"], anc + [n["fn"]])
            nodes = list(walk_nodes(roots, []))
            dist["recursion"] += any(n["fn"] in anc for n, anc in nodes)
            dist["zero_dur"] += any(n["t1"] is not None and n["t1"] == n["t0"] for n, anc in nodes)
            dist["overflow"] += maxd > ms
            dist["flush"] += "FLUSH" in c["script"]
            dist["open_at_end"] += depth_now > 0
            impl_stream = mcheck.stream(c["impl"])
            if "FORK" in c["script"]:
                fk = c["script"].index("FORK")
                impl_stream = mcheck.stream(c["impl"][fk:])
                dist["fork"] = dist.get("fork", 0) + 1
            exp = expected_stream(c["script"], ms)
            bad = None
            if c["bad_obs"]:
                bad = "errno or return address not preserved: " + c["bad_obs"][0]
            elif impl_stream != exp:
                bad = "recorded stream differs from the executed history"
                s = structural(impl_stream)
                if s:
                    bad += " (" + s + ")"
            dis = c["impl_cmp"] != c["model_cmp"]
            disagreements += dis
            if len(samples) < 3 and total % 101 == 7:
                samples.append({"variant": v, "max_stack": ms, "script": c["script"][:40], "impl_stream": impl_stream[:12]})
            if bad or dis:
                # known finding F5b: depth field wraps for recorded depth >= 1024 (on-disk format limit)
                if bad and known_f5 and c.get("deep") and ms > 1024 and not dis:
                    firstbad = next((i for i, (a, b) in enumerate(zip(impl_stream, exp)) if a != b), None)
                    only_wrap = all(a == b or (a.split(":")[0] == b.split(":")[0] and a.split(":")[2:] == b.split(":")[2:]
                                               and int(b.split(":")[1]) >= 1024
                                               and int(a.split(":")[1]) == int(b.split(":")[1]) % 1024)
                                    for a, b in zip(impl_stream, exp)) and len(impl_stream) == len(exp)
                    if only_wrap:
                        C.known(ctx, known_f5[0], "record depth wraps modulo 1024 when more than 1023 recorded calls are open (--max-stack %d, recursion %d); addresses intact" % (ms, c["deep"]))
                        continue
                monitor_fail += bool(bad)
                if replays < 3:
                    replays += 1
                    first = next((i for i, (a, b) in enumerate(zip(c["impl_cmp"], c["model_cmp"])) if a != b), None)
                    firsts = next((i for i, (a, b) in enumerate(zip(impl_stream, exp)) if a != b), min(len(impl_stream), len(exp)))
                    C.violation(ctx, "case%d" % total, {
                        "kind": "property-violated-on-implementation" if bad else "model-code-disagreement",
                        "what": bad, "variant": v, "env": mcgen.to_env(c["opts"]), "max_stack": c["opts"].max_stack,
                        "script": c["script"] if len(c["script"]) < 400 else c["script"][:40] + ["... %d lines" % len(c["script"])],
                        "first_stream_difference": {"index": firsts, "impl": impl_stream[firsts:firsts + 3], "expected": exp[firsts:firsts + 3]},
                        "first_line_difference": None if first is None else {"op": c["script"][first], "line": first, "impl": c["impl_cmp"][first][-300:], "model": c["model_cmp"][first][-300:]},
                        "theorem": "c02_emit_exact / c02_unpack_pack",
                    }, no_failing_input=not bad)
    if proof_broken:
        C.violation(ctx, "proof", {"kind": "proof-obligation-broken", "problems": problems,
                                   "searched": "%d H1 cases incl. recursion depth 1030; monitor failures: %d" % (total, monitor_fail)},
                    no_failing_input=(monitor_fail == 0))
    ctx.coverage.update({
        "evaluations": total, "distinct_nontrivial": len(distinct),
        "rule": "random call forests (no filters; max_stack in {1024,3,5,8}; -pg / cygprof / mixed hooks; optional FLUSH "
                "and prefix histories) on libmcount variants %s; exhaustive histories <= %d calls over 2 functions with "
                "max_stack 3 and clock steps {1,0}; recursion depth 1030 with max_stack 2000 and 1024. distinct = "
                "distinct (variant, max_stack, script)" % (variants, maxn),
        "input_distribution": dist, "model_code_disagreements": disagreements,
        "monitor_failures_on_impl": monitor_fail, "samples": samples, "exhaustive": False,
    })
    ctx.assumptions += ["CLOCK_MONOTONIC never reads 0 (end_time == 0 is libmcount's marker of a still open call) and does not step back between a call's entry and exit",
                        "one thread per H1 process; threads share no per-thread state (mtd is thread-local)"]
    return C.finish(ctx)


def replay(ctx, path):
    """Re-run the stored case on the current tree: model vs libmcount, and the monitor."""
    d = json.load(open(path))
    print(json.dumps({k: d[k] for k in ("kind", "what", "variant", "theorem") if k in d}, indent=1))
    if "script" not in d or any(l.startswith("...") for l in d["script"]):
        print("replay: no complete script stored (proof or truncated case); re-run the check itself")
        return 0
    ctx.snapshot()
    layout2lean.main(ctx.src, ctx.scratch)
    consts2lean.main(ctx.src, ctx.scratch)
    C.lake_build(["uvmodel"])
    v = d.get("variant", "normal")
    exe, log = h1.build(ctx, v)
    if not exe:
        print("replay: harness build failed\n" + log[-2000:])
        return 1
    sizes = mcheck.sym_sizes(exe)
    o = mcgen.Opts()
    o.max_stack = d.get("max_stack")
    if o.max_stack is None and "UFTRACE_MAX_STACK" in d.get("env", {}):
        o.max_stack = int(d["env"]["UFTRACE_MAX_STACK"])
    c = {"opts": o, "script": d["script"]}
    mcheck.run_cases(ctx, exe, sizes, [c], v.startswith("fast"))
    ms = o.max_stack or 1024
    impl_stream = mcheck.stream(c["impl"])
    if "FORK" in c["script"]:
        impl_stream = mcheck.stream(c["impl"][c["script"].index("FORK"):])
    exp = expected_stream(c["script"], ms)
    rc = 0
    for i, (a, b) in enumerate(zip(c["impl_cmp"], c["model_cmp"])):
        if a != b:
            print("line %d (%s): impl  %s\n              model %s" % (i, c["script"][i], a[-300:], b[-300:]))
            rc = 1
            break
    if impl_stream != exp or c["bad_obs"]:
        print("monitor: recorded stream differs from the executed history: %s" % (structural(impl_stream) or c["bad_obs"][:1]))
        rc = 1
    print("replay: %s" % ("reproduced" if rc else "model and implementation agree and the monitor holds on the current tree"))
    return rc
