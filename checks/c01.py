"""C01 — Tracing never changes what the traced program computes.
Lean: Uft/Model/Asm.lean, Uft/Gen/Stubs.lean + Uft/Gen/HookShape.lean (translated from the .S
stubs and the C hook wrappers on every run), Uft/Props/C01.lean.
Tie: T (stubs, errno wrappers) + C (H1: errno and return-address observations of the real hooks)
+ runtime validation H5 (generated programs, native vs traced)."""
import importlib.util
import json
import os
import random
import re
import resource
import shutil
import time
from concurrent.futures import ThreadPoolExecutor

from lib import common as C, h1, mcgen, mcheck, progs
from translators import asm2lean, shape2lean


def _load_e2e():
    spec = importlib.util.spec_from_file_location("c01_e2e", os.path.join(C.VERIF, "harness", "c01_e2e.py"))
    m = importlib.util.module_from_spec(spec)
    spec.loader.exec_module(m)
    return m


E = _load_e2e()


def replay_obj(r, d, confirmed, params):
    """everything needed to rerun one failing e2e case by hand"""
    c = r["case"]
    n, t = r["native"], r["traced"]
    tc = r.get("traced_clean", t)
    src = "harness/c01_w.c" if c["lang"] == "c" else "harness/c01_x.cc"
    return {
        "kind": "property-violated-on-implementation",
        "what": "native and traced run of the same program differ in: " + ", ".join(d),
        "differs": d, "confirmed_reruns": confirmed,
        "e2e_case": c, "program": src, "also": ["harness/c01_common.h", "harness/c01_plug.c (as ./libc01plug.so)"],
        "c01_params_h": params, "build_flags": [c["opt"], "-g"] + E.BUILDS[c["build"]] + (["-no-pie"] if c["build"] == "nop" else []) + (["-rdynamic"] if c["lang"] == "c" else []),
        "program_args": r["args"], "record_opts": c["record_opts"], "traced_cmd": t.get("cmd"),
        "native": {"rc": n["rc"], "stdout": n["stdout"][-1500:], "stderr": n["stderr"][-600:], "files": {k: v[:300] for k, v in n["files"].items()}},
        "traced": {"rc": t["rc"], "uftrace_rc": t.get("uftrace_rc"), "stdout": tc["stdout"][-1500:], "stderr": tc["stderr"][-600:],
                   "raw_stderr_tail": t["stderr"][-1200:], "files": {k: v[:300] for k, v in t["files"].items()}},
        "first_difference": {"stdout": E.first_diff(n["stdout"], tc["stdout"]), "stderr": E.first_diff(n["stderr"], tc["stderr"])},
        "how": "python3 check.py C01 --replay <this file>  (rebuilds the program from harness/ with c01_params_h and reruns both)",
    }


def finding_status(fid):
    try:
        kf = json.load(open(os.path.join(C.VERIF, "known_findings.json")))
    except (OSError, ValueError):
        return None, None
    for f in kf.get("findings", []):
        if f.get("property") == "C01" and f.get("id") == fid:
            return f.get("status"), f
    return None, None


def classify_witnesses(ctx, dres, params, work):
    """the directed witnesses of the listed findings: open + still differs -> KNOWN-FINDING; open + equal -> note;
    fixed (or not listed at all) + differs -> VIOLATION with the concrete case"""
    open_ids = {f.get("id"): f for f in C.known_findings("C01")}
    by = {}
    for fid, r in dres:
        by.setdefault(fid, []).append(r)
    out = {}
    for fid in list(by) + [k for k in E.EXCLUDED_SHAPES if k not in by]:
        rs = by.get(fid, [])
        differing = [r for r in rs if r["diff0"]]
        status, entry = finding_status(fid)
        if fid in open_ids:
            status = "open"
        out[fid] = {"status": status or "not listed", "witness_runs": len(rs), "differ": len(differing),
                    "cases": [" ".join(r["args"]) + " [" + r["case"]["build"] + r["case"]["opt"] + "] " + " ".join(r["case"]["record_opts"]) for r in rs]}
        if status == "open":
            if differing:
                r = differing[0]
                C.known(ctx, open_ids.get(fid, entry), "%s %s (witness: c01_%s %s built %s%s, uftrace record %s: differs in %s)" % (
                    fid, (open_ids.get(fid, entry) or {}).get("what", E.EXCLUDED_SHAPES.get(fid, {}).get("what", ""))[:160],
                    "w" if r["case"]["lang"] == "c" else "x", " ".join(r["args"]), r["case"]["build"], r["case"]["opt"],
                    " ".join(r["case"]["record_opts"]) or "(no option)", ", ".join(x.split(":")[0] for x in r["diff0"])))
            elif rs:
                ctx.notes.append("finding %s no longer reproduces: its %d witness run(s) show no difference" % (fid, len(rs)))
            else:
                ctx.notes.append("finding %s: no witness could be run (build missing)" % fid)
            continue
        # fixed, or a shape nobody listed
        if fid in E.EXCLUDED_SHAPES and status is None:
            C.violation(ctx, "shape-" + fid, {"kind": "unlisted-shape", "what": "the e2e matrix leaves out shape %s but known_findings.json "
                                              "has no entry for it" % fid, "shape": E.EXCLUDED_SHAPES[fid]["what"],
                                              "witness_differs": bool(differing)}, no_failing_input=not differing)
        for n, r in enumerate(differing[:2]):
            confirmed = 0
            last = r
            for k in range(1 if "TIMEOUT" in (r["traced"]["rc"], r["native"]["rc"]) else 2):
                r2 = E.run_case(ctx.src, r["exe"], r["case"], work, "w-%s-again%d" % (fid, k), None, timeout=25)
                if E.differences(r2):
                    confirmed += 1
                    last = r2
            if not confirmed:
                ctx.notes.append("witness of %s differed once and not in the reruns" % fid)
                continue
            obj = replay_obj(last, E.differences(last), confirmed, params)
            obj["what"] = "finding %s (%s in known_findings.json) is back: %s" % (fid, status or "not listed", obj["what"])
            C.violation(ctx, "witness-%s-%d" % (fid, n), obj)
    return out


def run_matrix(ctx, rng, tier, work):
    """H5, second generation: scenario programs x option families (harness/c01_e2e.py)"""
    log = []
    params = E.gen_params(rng)
    flavours = ["pg", "cyg", "fentry", "patchable"] + (["nop"] if tier == "thorough" else [])
    exes = E.build_all(work, params, flavours, ["-O0", "-O2"], log)
    for l in log:
        ctx.notes.append("e2e matrix: " + l[:300])
    if not any(exes.values()):
        C.violation(ctx, "e2e-build", {"kind": "harness-build-failed", "log": log[:3]}, True)
        return None
    cases, skipped = E.plan(rng, tier, exes)
    cache = {}
    t0 = time.time()
    ndiff = [0]
    STOP_AFTER = 24          # a broken tree fails (and hangs) in hundreds of cases: enough is enough

    def one(ic):
        i, c = ic
        if ndiff[0] >= STOP_AFTER:
            return None
        r = E.run_case(ctx.src, exes[(c["lang"], c["build"], c["opt"])], c, work, "c%d" % i, cache)
        r["diff0"] = E.differences(r)
        if r["diff0"]:
            ndiff[0] += 1
        return r
    directed = E.directed_cases(exes)

    def one_directed(ic):
        i, (fid, c) = ic
        r = E.run_case(ctx.src, exes[(c["lang"], c["build"], c["opt"])], c, work, "w%d" % i, cache, timeout=25)
        r["diff0"] = E.differences(r)
        return fid, r
    with ThreadPoolExecutor(12) as ex:
        fut_d = [ex.submit(one_directed, ic) for ic in enumerate(directed)]      # the witnesses first: some of them hang
        res_all = list(ex.map(one, enumerate(cases)))
        dres = [f.result() for f in fut_d]
    wit = classify_witnesses(ctx, dres, params, work)
    res = [r for r in res_all if r is not None]
    not_run = len(res_all) - len(res)
    if not_run:
        ctx.notes.append("e2e matrix: stopped after %d differing runs, %d planned cases not run" % (ndiff[0], not_run))
    bad, flaky, noise = [], 0, {}
    seen = set()
    nviol = 0
    for i, r in enumerate(res):
        d = r["diff0"]
        for k in r["noise"]:
            noise[k] = noise.get(k, 0) + 1
        if not d:
            continue
        c = r["case"]
        key = (c["scenario"], c["variant"], c["build"], tuple(x.split(":")[0] for x in d))
        if key in seen or nviol >= 6:
            bad.append((r, d, None))
            continue
        # the machine is shared: confirm serially before calling it a violation
        confirmed = 0
        last = r
        for k in range(1 if "TIMEOUT" in (r["traced"]["rc"], r["native"]["rc"]) else 2):
            r2 = E.run_case(ctx.src, r["exe"], r["case"], work, "c%d-again%d" % (i, k), None)
            if E.differences(r2):
                confirmed += 1
                last = r2
        if confirmed == 0:
            flaky += 1
            ctx.notes.append("e2e matrix: a difference did not reproduce in 2 reruns: %s %s: %s" % (
                c["scenario"], " ".join(c["record_opts"]), d))
            continue
        seen.add(key)
        nviol += 1
        bad.append((last, E.differences(last), confirmed))
        C.violation(ctx, "e2e-%s-v%d-%s-%d" % (c["scenario"], c["variant"], c["build"], nviol), replay_obj(last, E.differences(last), confirmed, params))
    wrapped = {}
    for fn, scs in E.WRAPPED.items():
        n = sum(1 for r in res if r["case"]["scenario"] in scs)
        if n:
            wrapped[fn] = {"scenarios": scs, "runs": n}
    matrix = {}
    for r in res:
        c = r["case"]
        row = matrix.setdefault(c["construct"], {})
        row[c["family"]] = row.get(c["family"], 0) + 1
    return {
        "witnesses": wit,
        "runs": len(res), "bad": len(bad), "unreproduced": flaky, "wall_s": round(time.time() - t0, 1),
        "distinct": len({(r["case"]["scenario"], r["case"]["variant"], r["case"]["depth"], r["case"]["rounds"], r["case"]["build"], r["case"]["opt"],
                          tuple(r["case"]["record_opts"])) for r in res}),
        "wrapped": wrapped, "matrix": matrix, "skipped": skipped, "noise": noise,
        "builds": sorted({"%s %s%s" % (k[0], k[1], k[2]) for k, v in exes.items() if v}),
        "samples": [{"e2e_matrix": {"args": r["args"], "build": r["case"]["build"] + r["case"]["opt"], "record_opts": r["case"]["record_opts"],
                                    "native_rc": r["native"]["rc"], "tracee_rc": r["traced"]["rc"]}} for r in res[:3]],
    }


def run(ctx):
    ctx.snapshot()
    trans_err = None
    try:
        ch1, _ = asm2lean.main(ctx.src)
        ch2, _ = shape2lean.main(ctx.src)
        ctx.notes.append("Gen/Stubs.lean changed=%s, Gen/HookShape.lean changed=%s" % (ch1, ch2))
    except Exception as e:
        trans_err = str(e)
    if trans_err:
        problems = ["translator failed: " + trans_err]
        proof_ok = False
    else:
        proof_ok, problems = C.prove(ctx, "C01")

    # ---- H1: errno and return address of the real hooks ------------------------------
    exe, log = h1.build(ctx, "normal")
    if not exe:
        C.violation(ctx, "build", {"kind": "harness-build-failed", "log": log[-3000:]}, True)
        return C.finish(ctx)
    sizes = mcheck.sym_sizes(exe)
    rng = ctx.rng
    cases = []
    for i in range(60 if ctx.tier == "quick" else 1500):
        o = mcgen.rand_opts(rng)
        o.max_stack = rng.choice([None, None, 4])
        ops = mcgen.rand_forest(rng, max_calls=30)
        kind = rng.choice(["pg", "cyg", "mix"])
        kf = (lambda fn, i, kind=kind: kind if kind != "mix" else ("pg" if (fn + i) % 2 else "cyg"))
        cases.append({"opts": o, "script": mcgen.script_lines(ops, kf), "kind": kind,
                      "env": {"UFTRACE_BUFFER": rng.choice(["1024", "4096", "1048576"])}})
    for c in cases:
        c["env"] = c.get("env", {})
    mcheck.run_cases(ctx, exe, sizes, cases, bufsize="65536")
    h1_bad = [c for c in cases if c["bad_obs"] or c["raw"]["rc"] != 0]
    hook_calls = sum(sum(1 for l in c["script"] if l[0] in "EX") for c in cases)
    for c in h1_bad[:2]:
        C.violation(ctx, "h1", {"kind": "property-violated-on-implementation",
                                "what": "errno or the return address was not preserved by a hook (or the harness crashed)",
                                "obs": c["bad_obs"][:3], "rc": c["raw"]["rc"], "env": mcgen.to_env(c["opts"]),
                                "script": c["script"][:200]})

    # ---- H5: generated programs, native vs traced ------------------------------------
    okb, blog = ctx.make()
    e2e = []
    e2e_bad = 0
    if not okb:
        C.violation(ctx, "make", {"kind": "build-failed", "log": blog[-3000:]}, True)
        return C.finish(ctx)
    # the translator's reading of the .S text against the objects the assembler made from it
    try:
        xdiffs = asm2lean.crosscheck(ctx.src)
    except Exception as e:
        xdiffs = ["cross-check failed: %s" % e]
    ctx.coverage["stub_translation_vs_object_code"] = "equal for all 7 stubs" if not xdiffs else xdiffs
    if xdiffs:
        C.violation(ctx, "asm-crosscheck", {"kind": "translator-object-mismatch", "differences": xdiffs,
                                            "theorem": "c01_*_stub (stated about Gen/Stubs.lean, which no longer matches the assembled code)"}, True)
    nprog = 3 if ctx.tier == "quick" else 40
    work = os.path.join(ctx.scratch, "e2e")
    os.makedirs(work)
    jobs = []
    optsets = [[], ["-b", "4k"], ["-t", "1us", "-b", "8k"], ["--no-libcall"], ["-D", "3"]]
    for pi in range(nprog):
        src = progs.gen(rng, threads=rng.choice([1, 1, 3]))
        spath = os.path.join(work, "p%d.c" % pi)
        open(spath, "w").write(src)
        flavours = ["pg", "cyg", "fentry"]
        for fl in flavours:
            for opt in (["-O0", "-O2"] if ctx.tier == "thorough" else [rng.choice(["-O0", "-O2"])]):
                exe_p = os.path.join(work, "p%d_%s%s" % (pi, fl, opt))
                ok, l = progs.build(spath, exe_p, fl, opt)
                if not ok:
                    ctx.notes.append("e2e build failed: " + l[-200:])
                    continue
                for os_ in ([[], ["-b", "4k"]] if ctx.tier == "quick" else optsets):
                    jobs.append((pi, fl, opt, exe_p, os_, spath))

    def one(j):
        pi, fl, opt, exe_p, os_, spath = j
        n = progs.run_native(exe_p)
        d = exe_p + "." + str(abs(hash(tuple(os_))) % 9973) + ".data"
        t = progs.run_traced(ctx.src, exe_p, d, os_)
        info = C.sh([os.path.join(ctx.src, "uftrace"), "info", "--no-pager", "-d", d]).stdout
        m = re.search(r"exited with code: (\d+)", info)
        code = int(m.group(1)) if m else None
        shutil.rmtree(d, ignore_errors=True)
        return {"prog": pi, "flavour": fl, "opt": opt, "record_opts": os_, "native_rc": n[0], "native_out": n[1],
                "traced_out": t[1], "tracee_rc": code, "uftrace_rc": t[0], "stderr": t[2][-300:], "src": spath}
    with ThreadPoolExecutor(8) as ex:
        e2e = list(ex.map(one, jobs))
    for r in e2e:
        if r["native_out"] != r["traced_out"] or r["native_rc"] != r["tracee_rc"]:
            e2e_bad += 1
            if e2e_bad <= 2:
                keep = os.path.join(C.VERIF, "replays", "C01-prog%d-seed%d.c" % (r["prog"], ctx.seed))
                os.makedirs(os.path.dirname(keep), exist_ok=True)
                shutil.copy(r["src"], keep)
                C.violation(ctx, "e2e%d" % r["prog"], {
                    "kind": "property-violated-on-implementation",
                    "what": "program output or exit status differs between the native and the traced run",
                    "program": keep, "build": [r["flavour"], r["opt"]], "record_opts": r["record_opts"],
                    "native": [r["native_rc"], r["native_out"][:300]], "traced": [r["tracee_rc"], r["traced_out"][:300]],
                    "stderr": r["stderr"]})
    # ---- H5, second generation: wrapped libc functions; option matrix x non-local control flow ----
    resource.setrlimit(resource.RLIMIT_CORE, (0, resource.getrlimit(resource.RLIMIT_CORE)[1]))
    mx = run_matrix(ctx, rng, ctx.tier, os.path.join(ctx.scratch, "e2e2"))
    if mx:
        e2e_bad += mx["bad"]
    if not proof_ok:
        C.violation(ctx, "proof", {"kind": "proof-obligation-broken", "problems": problems[:12],
                                   "searched": "H1 %d hook calls (bad: %d); e2e %d runs (bad: %d)" % (
                                       hook_calls, len(h1_bad), len(e2e) + (mx["runs"] if mx else 0), e2e_bad)},
                    no_failing_input=(not h1_bad and not e2e_bad))
    ctx.coverage.update({
        "evaluations": len(cases) + len(e2e) + (mx["runs"] if mx else 0),
        "distinct_nontrivial": len(cases) + len({(r["prog"], r["flavour"], r["opt"], tuple(r["record_opts"])) for r in e2e}) + (mx["distinct"] if mx else 0),
        "rule": "H1: random hook scripts x option sets x buffer sizes, every hook call observed for errno and (for -pg) the returned "
                "address; H5: generated C programs over the signature classes (int, double/float, long double, struct of two doubles, "
                "struct of two longs, memory-returned struct, mixed struct, double complex, variadic, errno, recursion; 1 or 3 threads) "
                "built -pg / -finstrument-functions / -pg -mfentry at -O0/-O2, run natively and under `uftrace record` with several "
                "option sets; stdout and the tracee's exit status compared; H5 second generation (harness/c01_e2e.py): scenario "
                "programs (C: harness/c01_w.c + dlopen()ed c01_plug.c, C++: c01_x.cc; constants, arrays, thrown values and exit "
                "codes from c01_params.h generated per seed) that observe the libc functions libmcount interposes (close/dup on "
                "descriptors 0-2, dlopen/dlclose, pthread_exit, posix_spawn*/exec*/fexecve, fork/vfork, __cxa_*/_Unwind_Resume) "
                "and exercise non-local control flow through library calls (setjmp/longjmp, longjmp/exit/C++ throw out of "
                "qsort/bsearch/lfind/twalk/qsort_r/std::sort call-backs, signal handlers with siglongjmp/sigaltstack, timer "
                "signals, vfork+exec, fork, daemon, pthread_exit, exit/_exit/quick_exit/abort/kill, throwing static initialisers, "
                "std::terminate, fenv state), each below 0-3 extra instrumented frames and repeated 2-3 rounds, built "
                "-pg / -finstrument-functions / -pg -mfentry / -fpatchable-function-entry (+ -P .) at -O0/-O2, crossed with "
                "option families of `uftrace record` (complete -D sweep for the non-local constructs, -F/-N/-C/-H on the "
                "program's own and on library functions, -t, -A/-R/-a, --no-libcall, --nest-libcall, -e, -b, --max-stack, "
                "-T trace_off/depth/backtrace/time/recover, --no-pltbind, --force, --trace=off, --clock, --logfile, -v, with and "
                "without --no-event, -E, --signal, -l, -Z, -L); each run in a fresh working directory; stdout, stderr, the "
                "tracee's exit status (from the info file) and every file written are compared after removing uftrace's own "
                "WARN:/uftrace: diagnostics; a difference is re-run twice before it counts",
        "h1_hook_calls": hook_calls, "h1_bad": len(h1_bad), "e2e_runs": len(e2e), "e2e_bad": e2e_bad,
        "samples": [{"e2e": {k: r[k] for k in ("prog", "flavour", "opt", "record_opts", "native_rc", "tracee_rc")}} for r in e2e[:3]] + (mx["samples"] if mx else []),
        "e2e_matrix_runs": mx["runs"] if mx else 0, "e2e_matrix_bad": mx["bad"] if mx else None,
        "e2e_matrix_unreproduced_differences": mx["unreproduced"] if mx else None, "e2e_matrix_wall_s": mx["wall_s"] if mx else None,
        "e2e_matrix_builds": mx["builds"] if mx else [],
        "wrapped_libc_functions_exercised": mx["wrapped"] if mx else {},
        "option_family_x_control_flow_construct_runs": mx["matrix"] if mx else {},
        "shapes_left_out_of_the_matrix": {k: {"cases_skipped": (mx["skipped"].get(k, 0) if mx else 0), "what": v["what"]} for k, v in E.EXCLUDED_SHAPES.items()},
        "directed_witnesses_of_listed_findings": mx["witnesses"] if mx else {},
        "option_families_not_run": ["-T f@finish (uftrace leaves before the tracee ends: its exit status is not recorded)",
                                    "-k/--kernel, -S script, --host (need tracefs / interpreters / a receiver)"],
        "uftrace_diagnostics_removed_before_comparison": mx["noise"] if mx else {},
        "exhaustive": False,
    })
    ctx.assumptions += [
        "ABI: the C hooks are SysV-ABI functions (callee-saved registers, rsp, and the stub's own frame are preserved); this is the compiler's contract, not proved",
        "NoVec (hooks do not touch vector registers) holds for libmcount's own code by -mgeneral-regs-only; libc calls on slow paths are covered only by the e2e runs",
        "x87 state, flags, thread schedules and the dynamic linker's lazy binding are exercised by H5 only",
        "__dentry__ (two calls) and plt_hooker (conditional tail) are translated but their preservation theorems are not yet stated",
    ]
    return C.finish(ctx)


def replay(ctx, path):
    obj = json.load(open(path))
    if "e2e_case" not in obj:
        print(json.dumps(obj, indent=1)[:6000])
        return 0
    ctx.snapshot()
    okb, blog = ctx.make()
    if not okb:
        print("build failed: " + blog[-2000:])
        return 1
    resource.setrlimit(resource.RLIMIT_CORE, (0, resource.getrlimit(resource.RLIMIT_CORE)[1]))
    c = obj["e2e_case"]
    work = os.path.join(ctx.scratch, "replay")
    log = []
    exes = E.build_all(work, obj["c01_params_h"], [c["build"]], [c["opt"]], log)
    exe = exes.get((c["lang"], c["build"], c["opt"]))
    if not exe:
        print("program build failed: %s" % log)
        return 1
    r = E.run_case(ctx.src, exe, c, work, "replay", None)
    d = E.differences(r)
    print("case: %s  record options: %s" % (" ".join(r["args"]), " ".join(c["record_opts"]) or "(none)"))
    print("traced command: " + r["traced"]["cmd"])
    print("native: rc=%s\n%s--- stderr\n%s" % (r["native"]["rc"], r["native"]["stdout"][-2000:], r["native"]["stderr"][-800:]))
    print("traced: rc=%s\n%s--- stderr\n%s" % (r["traced"]["rc"], r["traced_clean"]["stdout"][-2000:], r["traced"]["stderr"][-1500:]))
    print("DIFFERS in: %s" % d if d else "no difference on this tree")
    return 1 if d else 0
