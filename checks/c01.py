"""C01 — Tracing never changes what the traced program computes.
Lean: Uft/Model/Asm.lean, Uft/Gen/Stubs.lean + Uft/Gen/HookShape.lean (translated from the .S
stubs and the C hook wrappers on every run), Uft/Props/C01.lean.
Tie: T (stubs, errno wrappers) + C (H1: errno and return-address observations of the real hooks)
+ runtime validation H5 (generated programs, native vs traced)."""
import json
import os
import re
import shutil
from concurrent.futures import ThreadPoolExecutor

from lib import common as C, h1, mcgen, mcheck, progs
from translators import asm2lean, shape2lean


def run(ctx):
    ctx.snapshot()
    trans_err = None
    try:
        ch1, _ = asm2lean.main(ctx.src)
        ch2, _ = shape2lean.main(ctx.src)
        ctx.notes.append("Gen/Stubs.lean changed=%s, Gen/HookShape.lean changed=%s" % (ch1, ch2))
    except Exception as e:
        trans_err = str(e)
    if trans_err:
        problems = ["translator failed: " + trans_err]
        proof_ok = False
    else:
        proof_ok, problems = C.prove(ctx, "C01")

    # ---- H1: errno and return address of the real hooks ------------------------------
    exe, log = h1.build(ctx, "normal")
    if not exe:
        C.violation(ctx, "build", {"kind": "harness-build-failed", "log": log[-3000:]}, True)
        return C.finish(ctx)
    sizes = mcheck.sym_sizes(exe)
    rng = ctx.rng
    cases = []
    for i in range(60 if ctx.tier == "quick" else 1500):
        o = mcgen.rand_opts(rng)
        o.max_stack = rng.choice([None, None, 4])
        ops = mcgen.rand_forest(rng, max_calls=30)
        kind = rng.choice(["pg", "cyg", "mix"])
        kf = (lambda fn, i, kind=kind: kind if kind != "mix" else ("pg" if (fn + i) % 2 else "cyg"))
        cases.append({"opts": o, "script": mcgen.script_lines(ops, kf), "kind": kind,
                      "env": {"UFTRACE_BUFFER": rng.choice(["1024", "4096", "1048576"])}})
    for c in cases:
        c["env"] = c.get("env", {})
    mcheck.run_cases(ctx, exe, sizes, cases, bufsize="65536")
    h1_bad = [c for c in cases if c["bad_obs"] or c["raw"]["rc"] != 0]
    hook_calls = sum(sum(1 for l in c["script"] if l[0] in "EX") for c in cases)
    for c in h1_bad[:2]:
        C.violation(ctx, "h1", {"kind": "property-violated-on-implementation",
                                "what": "errno or the return address was not preserved by a hook (or the harness crashed)",
                                "obs": c["bad_obs"][:3], "rc": c["raw"]["rc"], "env": mcgen.to_env(c["opts"]),
                                "script": c["script"][:200]})

    # ---- H5: generated programs, native vs traced ------------------------------------
    okb, blog = ctx.make()
    e2e = []
    e2e_bad = 0
    if not okb:
        C.violation(ctx, "make", {"kind": "build-failed", "log": blog[-3000:]}, True)
        return C.finish(ctx)
    # the translator's reading of the .S text against the objects the assembler made from it
    try:
        xdiffs = asm2lean.crosscheck(ctx.src)
    except Exception as e:
        xdiffs = ["cross-check failed: %s" % e]
    ctx.coverage["stub_translation_vs_object_code"] = "equal for all 7 stubs" if not xdiffs else xdiffs
    if xdiffs:
        C.violation(ctx, "asm-crosscheck", {"kind": "translator-object-mismatch", "differences": xdiffs,
                                            "theorem": "c01_*_stub (stated about Gen/Stubs.lean, which no longer matches the assembled code)"}, True)
    nprog = 3 if ctx.tier == "quick" else 40
    work = os.path.join(ctx.scratch, "e2e")
    os.makedirs(work)
    jobs = []
    optsets = [[], ["-b", "4k"], ["-t", "1us", "-b", "8k"], ["--no-libcall"], ["-D", "3"]]
    for pi in range(nprog):
        src = progs.gen(rng, threads=rng.choice([1, 1, 3]))
        spath = os.path.join(work, "p%d.c" % pi)
        open(spath, "w").write(src)
        flavours = ["pg", "cyg", "fentry"]
        for fl in flavours:
            for opt in (["-O0", "-O2"] if ctx.tier == "thorough" else [rng.choice(["-O0", "-O2"])]):
                exe_p = os.path.join(work, "p%d_%s%s" % (pi, fl, opt))
                ok, l = progs.build(spath, exe_p, fl, opt)
                if not ok:
                    ctx.notes.append("e2e build failed: " + l[-200:])
                    continue
                for os_ in ([[], ["-b", "4k"]] if ctx.tier == "quick" else optsets):
                    jobs.append((pi, fl, opt, exe_p, os_, spath))

    def one(j):
        pi, fl, opt, exe_p, os_, spath = j
        n = progs.run_native(exe_p)
        d = exe_p + "." + str(abs(hash(tuple(os_))) % 9973) + ".data"
        t = progs.run_traced(ctx.src, exe_p, d, os_)
        info = C.sh([os.path.join(ctx.src, "uftrace"), "info", "--no-pager", "-d", d]).stdout
        m = re.search(r"exited with code: (\d+)", info)
        code = int(m.group(1)) if m else None
        shutil.rmtree(d, ignore_errors=True)
        return {"prog": pi, "flavour": fl, "opt": opt, "record_opts": os_, "native_rc": n[0], "native_out": n[1],
                "traced_out": t[1], "tracee_rc": code, "uftrace_rc": t[0], "stderr": t[2][-300:], "src": spath}
    with ThreadPoolExecutor(8) as ex:
        e2e = list(ex.map(one, jobs))
    for r in e2e:
        if r["native_out"] != r["traced_out"] or r["native_rc"] != r["tracee_rc"]:
            e2e_bad += 1
            if e2e_bad <= 2:
                keep = os.path.join(C.VERIF, "replays", "C01-prog%d-seed%d.c" % (r["prog"], ctx.seed))
                os.makedirs(os.path.dirname(keep), exist_ok=True)
                shutil.copy(r["src"], keep)
                C.violation(ctx, "e2e%d" % r["prog"], {
                    "kind": "property-violated-on-implementation",
                    "what": "program output or exit status differs between the native and the traced run",
                    "program": keep, "build": [r["flavour"], r["opt"]], "record_opts": r["record_opts"],
                    "native": [r["native_rc"], r["native_out"][:300]], "traced": [r["tracee_rc"], r["traced_out"][:300]],
                    "stderr": r["stderr"]})
    if not proof_ok:
        C.violation(ctx, "proof", {"kind": "proof-obligation-broken", "problems": problems[:12],
                                   "searched": "H1 %d hook calls (bad: %d); e2e %d runs (bad: %d)" % (
                                       hook_calls, len(h1_bad), len(e2e), e2e_bad)},
                    no_failing_input=(not h1_bad and not e2e_bad))
    ctx.coverage.update({
        "evaluations": len(cases) + len(e2e), "distinct_nontrivial": len(cases) + len({(r["prog"], r["flavour"], r["opt"], tuple(r["record_opts"])) for r in e2e}),
        "rule": "H1: random hook scripts x option sets x buffer sizes, every hook call observed for errno and (for -pg) the returned "
                "address; H5: generated C programs over the signature classes (int, double/float, long double, struct of two doubles, "
                "struct of two longs, memory-returned struct, mixed struct, double complex, variadic, errno, recursion; 1 or 3 threads) "
                "built -pg / -finstrument-functions / -pg -mfentry at -O0/-O2, run natively and under `uftrace record` with several "
                "option sets; stdout and the tracee's exit status compared",
        "h1_hook_calls": hook_calls, "h1_bad": len(h1_bad), "e2e_runs": len(e2e), "e2e_bad": e2e_bad,
        "samples": [{"e2e": {k: r[k] for k in ("prog", "flavour", "opt", "record_opts", "native_rc", "tracee_rc")}} for r in e2e[:3]],
        "exhaustive": False,
    })
    ctx.assumptions += [
        "ABI: the C hooks are SysV-ABI functions (callee-saved registers, rsp, and the stub's own frame are preserved); this is the compiler's contract, not proved",
        "NoVec (hooks do not touch vector registers) holds for libmcount's own code by -mgeneral-regs-only; libc calls on slow paths are covered only by the e2e runs",
        "x87 state, flags, thread schedules and the dynamic linker's lazy binding are exercised by H5 only",
        "__dentry__ (two calls) and plt_hooker (conditional tail) are translated but their preservation theorems are not yet stated",
    ]
    return C.finish(ctx)


def replay(ctx, path):
    print(json.dumps(json.load(open(path)), indent=1)[:6000])
    return 0
