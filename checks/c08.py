"""C08 — Report statistics are exact sums over the trace.
Lean: Uft/Model/Report.lean, Uft/Lemmas/Report*.lean, Uft/Props/C08.lean.
Tie: correspondence (H3): the real `uftrace report` (built from the snapshot) runs on
synthesized data directories (lib/datadir.py) with -s key chains, -f field lists,
--avg-total/--avg-self, --diff (same and other directory), --task; every printed table is
compared with the table computed by the Lean model `Report` (uvmodel C08).  Monitors: the
property itself (calls / total / self / avg / min / max from the call trees by an independent
tree walk, the telescoping sum per task, sortedness of the printed rows, all-zero self diff)
evaluated on the implementation's output.
Extension (Uft/Model/ReportExt.lean): the report's rows are keyed by symbol NAME (several addresses
per name, two modules, addresses without a symbol), `--task` with every task sort key and
multi-digit tids, `--diff-policy percent`.  The model keeps the unrepaired behaviour of two findings
behind flags (F-C08-SAMENAME: recursion tested by address although rows are names; F-C08-TIDSORT:
`-s tid` compares the decimal strings); a table that equals the unrepaired model's and not the
repaired one's is reported under the finding's id."""
import json
import os
import re
import subprocess
from concurrent.futures import ThreadPoolExecutor

from lib import common as C
from lib import datadir as DD

M64 = 1 << 64
TID0 = 101
EVENT_ID = 1000001          # a user event (>= EVENT_ID_USER): no effect on the stacks
TYPCH = {0: "E", 1: "X", 2: "L", 3: "V"}

FIELDS = ["total", "total-avg", "total-min", "total-max", "self", "self-avg", "self-min", "self-max",
          "call", "size"]                      # field_table order (stdv fields are never requested)
HEADER = {"Total time": "total", "Total avg": "total-avg", "Total min": "total-min", "Total max": "total-max",
          "Self time": "self", "Self avg": "self-avg", "Self min": "self-min", "Self max": "self-max",
          "Calls": "call", "Size": "size", "Total stdv": "total-stdv", "Self stdv": "self-stdv",
          "TID": "tid", "Num funcs": "func"}
ROWIDX = {"key": 0, "call": 1, "size": 2, "total": 3, "total-avg": 4, "total-min": 5, "total-max": 6,
          "self": 7, "self-avg": 8, "self-min": 9, "self-max": 10, "func": 1}
SORTKEYS = ["total", "total_avg", "total_min", "total_max", "self", "self_avg", "self_min", "self_max",
            "call", "func", "size"]


# ---------------------------------------------------------------------------
# printing formats of utils/debug.c (what a number looks like in the table)
def fmt_time(v):
    """print_time_unit -> canonical cell: exact integer ns below 1 ms, else '<int>.<frac><unit>'"""
    if v == 0:
        return "0"
    v = abs(i64(v))          # __print_time_unit takes an int64_t and prints llabs() of it
    if v < 1000000:
        return str(v)
    delta, small = v, 0
    limits = [1000, 1000, 1000, 60, 60, 1 << 31]
    units = ["us", "ms", "s", "m", "h"]
    for idx in range(5):
        small = delta % limits[idx]
        delta //= limits[idx]
        if delta < limits[idx + 1]:
            break
    if delta > 999:
        delta = small = 999
    return "%d.%03d%s" % (delta, small, units[idx])


def canon_time_cell(s):
    s = s.strip()
    if s == "" or s == "-":
        return "0"
    m = re.match(r"^(\d+)\.(\d+) *(us|ms|s|m|h)$", s)
    if not m:
        return "?" + s
    if m.group(3) == "us":
        return str(int(m.group(1)) * 1000 + int(m.group(2)))
    return "%d.%s%s" % (int(m.group(1)), m.group(2), m.group(3))


def i64(d):
    d %= M64
    return d - M64 if d >= M64 // 2 else d


def fmt_diff_time(base, pair):
    if base == pair:
        return "0"
    d = i64(pair - base)
    # utils/debug.c:346 (colour off): signs[] = {"+", "-"} is indexed by (delta > 0): the sign
    # printed without colours is the opposite of the difference's (side finding, see the report)
    return ("-" if d > 0 else "+") + fmt_time(abs(d))


def canon_diff_cell(s):
    s = s.strip()
    if s == "0 us":
        return "0"
    if s[:1] in "+-":
        return s[0] + canon_time_cell(s[1:])
    return "?" + s


# ---------------------------------------------------------------------------
# cases
class Case:
    """nf functions (ids 1..nf, id 0 = address 0), tasks = list of record lists
    [(typ, time, depth, fid)], forests = per task the call trees when the case is well formed"""

    tab = None                 # a SymTab for the name-keyed family (NCase)

    def __init__(self, name, cat, nf, sizes, tasks, max_stack=1024, forests=None, tids=None):
        self.name, self.cat, self.nf, self.sizes, self.tasks = name, cat, nf, sizes, tasks
        self.max_stack, self.forests = max_stack, forests
        self.tids = tids or [TID0 + i for i in range(len(tasks))]

    def to_json(self):
        o = {"name": self.name, "cat": self.cat, "nf": self.nf, "sizes": self.sizes,
             "max_stack": self.max_stack, "tasks": self.tasks, "tids": self.tids}
        if self.forests is not None:
            o["wf"] = True
        return o

    @staticmethod
    def from_json(o):
        tasks = [[tuple(r) for r in t] for t in o["tasks"]]
        cat = o.get("cat", "corpus").replace("corpus-", "")
        if o.get("table"):
            c = NCase(o["name"], cat, SymTab.from_json(o["table"]), tasks, o.get("max_stack", 1024), tids=o.get("tids"))
            c.own_table = True
        else:
            c = Case(o["name"], cat, o["nf"], o.get("sizes") or [128] * o["nf"], tasks, o.get("max_stack", 1024),
                     tids=o.get("tids"))
        if o.get("wf"):
            c.forests = [forest_of(t) for t in c.tasks]
            if cat in ("corpus", "wf", "open"):
                c.cat = "open" if any(n[2] is None for f in c.forests for n in walk_nodes(f)) else "wf"
        return c

    def fname(self, key):
        """the printed name of the row with the model key `key`"""
        return "<0>" if key == 0 else "f%02d" % key

    def key_of(self, fid):
        """what a row is keyed by in the oracle: the function's name"""
        return self.fname(fid)

    def addr_of(self, fid):
        return 0 if fid == 0 else DD.BASE + 0x100 * fid

    def size_of_key(self, name):
        return self.sizes[int(name[1:]) - 1]

    def table_str(self):
        """the driver's <addr id>:<name id>:<has symbol>:<size> table (1-1 here)"""
        return "0:0:0:0 " + " ".join("%d:%d:1:%d" % (i, i, self.sizes[i - 1]) for i in range(1, self.nf + 1))

    def records(self):
        tasks = []
        for ti, recs in enumerate(self.tasks):
            rl = []
            for (typ, time, depth, fid) in recs:
                if typ == 2:
                    addr = fid                      # number of lost records
                elif typ == 3:
                    addr = EVENT_ID
                else:
                    addr = self.addr_of(fid)
                rl.append(DD.Rec(time % M64, TYPCH[typ], depth, addr, more=False))
            tasks.append(DD.Task(self.tids[ti], rl, pid=self.tids[0]))
        return tasks

    def write(self, d):
        syms = [(0x100 * i, self.sizes[i - 1], self.fname(i)) for i in range(1, self.nf + 1)]
        DD.DataDir(syms, self.records(), max_stack=self.max_stack).write(d)

    def model_streams(self):
        out = []
        for recs in self.tasks:
            out.append(" ".join("%s:%d:%d:%d" % (TYPCH[t], tm % M64, d, (0 if t in (2, 3) else f))
                                for (t, tm, d, f) in recs))
        return " | ".join(out)

    def model_sizes(self):
        return " ".join("%d:%d" % (i, self.sizes[i - 1]) for i in range(1, self.nf + 1))


LIBBASE = 0x7f1000000000
LIBPATH = "/synth/libdup.so"
NAMEPOOL = ["dup", "twin", "Zed", "aa", "f01", "x"]
NA = 12                     # address ids of the name-keyed family


class SymTab:
    """the symbol table of the name-keyed family: address ids 1..NA -> (address, name or None, symbol size);
    several addresses share a name (same module, the other module, an offset inside one symbol),
    some addresses have no symbol (inside a map and outside every map)"""

    def __init__(self, ent):
        self.ent = ent                      # aid -> {"addr", "name" (None = no symbol), "size", "mod", "rel", "symbol" (owns a sym line)}
        names = {"<0>"} | {self.name(a) for a in ent}
        self.names = sorted(names)          # strcmp order (ASCII)
        self.nid = {n: i for i, n in enumerate(self.names)}

    @staticmethod
    def generate(rng):
        ent = {}
        mods = {1: 0, 2: 0, 3: 1}
        nms = {1: "dup", 2: "dup", 3: "dup"}
        for a in range(4, 9):
            mods[a] = rng.choice([0, 0, 1])
            nms[a] = rng.choice(NAMEPOOL)
        for a in range(1, 9):
            base = DD.BASE if mods[a] == 0 else LIBBASE
            ent[a] = {"addr": base + 0x100 * a, "name": nms[a], "size": rng.choice([16, 32, 48, 100, 128, 200]),
                      "mod": mods[a], "rel": 0x100 * a, "symbol": True}
        k = rng.randint(1, 8)               # a second address inside the symbol of k
        ent[9] = dict(ent[k], addr=ent[k]["addr"] + 8, symbol=False)
        ent[10] = {"addr": DD.BASE + 0xe00, "name": None, "size": 0, "mod": 0, "rel": 0xe00, "symbol": False}
        ent[11] = {"addr": DD.BASE + 0xe10, "name": None, "size": 0, "mod": 0, "rel": 0xe10, "symbol": False}
        ent[12] = {"addr": 0x600040, "name": None, "size": 0, "mod": -1, "rel": 0, "symbol": False}
        return SymTab(ent)

    def name(self, a):
        if a == 0:
            return "<0>"
        e = self.ent[a]
        return e["name"] if e["name"] is not None else "<%x>" % e["addr"]

    def to_json(self):
        return {str(a): e for a, e in self.ent.items()}

    @staticmethod
    def from_json(o):
        return SymTab({int(a): e for a, e in o.items()})


class NCase(Case):
    """a data set over a SymTab: records name address ids, rows are names"""
    own_table = False

    def __init__(self, name, cat, tab, tasks, max_stack=1024, forests=None, tids=None):
        Case.__init__(self, name, cat, max(tab.ent), [], tasks, max_stack, forests, tids)
        self.tab = tab

    def to_json(self):
        o = Case.to_json(self)
        o["table"] = self.tab.to_json()
        return o

    def fname(self, key):
        return self.tab.names[key] if key < len(self.tab.names) else "?%d" % key

    def key_of(self, fid):
        return self.tab.name(fid)

    def addr_of(self, fid):
        return 0 if fid == 0 else self.tab.ent[fid]["addr"]

    def table_str(self):
        t = self.tab
        return "0:%d:0:0 " % t.nid["<0>"] + " ".join(
            "%d:%d:%d:%d" % (a, t.nid[t.name(a)], 1 if e["name"] is not None else 0, e["size"])
            for a, e in sorted(t.ent.items()))

    def model_sizes(self):
        return self.table_str()

    def write(self, d):
        t = self.tab
        exe = [(e["rel"], e["size"], e["name"]) for a, e in sorted(t.ent.items()) if e["symbol"] and e["mod"] == 0]
        lib = [(e["rel"], e["size"], e["name"]) for a, e in sorted(t.ent.items()) if e["symbol"] and e["mod"] == 1]
        dd = DD.DataDir(exe, self.records(), max_stack=self.max_stack)
        over = {
            "sid-%s.map" % DD.SID: (
                "%x-%x r-xp 00000000 00:00 0                          %s\n"
                "%x-%x r-xp 00000000 00:00 0                          %s\n"
                "7ffd00000000-7ffd00021000 rw-p 00000000 00:00 0                          [stack]\n"
                % (DD.BASE, DD.BASE + 0x2000, DD.EXE, LIBBASE, LIBBASE + 0x2000, LIBPATH)).encode(),
            os.path.basename(LIBPATH) + ".sym": (
                "\n".join(["# symbols: %d" % len(lib), "# path name: " + LIBPATH, "# build-id: "] +
                          ["%016x %08x T %s" % x for x in sorted(lib)]) + "\n").encode(),
        }
        dd.write(d, overrides=over)


def forest_of(recs):
    """call trees [f, t0, t1|None, kids] of a well-formed record list (events ignored)"""
    roots, stack = [], []
    for (typ, time, depth, fid) in recs:
        if typ == 0:
            n = [fid, time, None, []]
            (stack[-1][3] if stack else roots).append(n)
            stack.append(n)
        elif typ == 1:
            stack.pop()[2] = time
    return roots


def walk_nodes(roots):
    for n in roots:
        yield n
        yield from walk_nodes(n[3])


STEPS = [0, 0, 0, 1, 1, 2, 3, 5, 8, 13, 21, 34]


def gen_walk(rng, nf, nrec, maxdepth, t0, steps=STEPS, p_event=0.03):
    """random call walk -> complete, well-nested record list"""
    recs, stack, t = [], [], t0
    while len(recs) < nrec or stack:
        t += rng.choice(steps)
        closing = len(recs) >= nrec
        d = len(stack)
        if not closing and rng.random() < p_event:
            recs.append((3, t, 0, 0))
            continue
        p_enter = 0.0 if closing or d >= maxdepth else (0.62 if d < 3 else 0.45)
        if d == 0 and not closing:
            p_enter = 1.0
        if rng.random() < p_enter:
            r = rng.random()
            if stack and r < 0.18:
                f = stack[-1]                       # direct recursion
            elif len(stack) >= 2 and r < 0.36:
                f = rng.choice(stack[:-1])          # mutual recursion: some ancestor
            else:
                f = rng.randint(1, nf)
            recs.append((0, t, d, f))
            stack.append(f)
        elif stack:
            f = stack.pop()
            recs.append((1, t, len(stack), f))
    return recs


NF = 9                      # one symbol table for every directory of a run (--diff shares the module cache)


def gen_case(rng, idx, cat, sizes):
    nf = rng.randint(2, NF)
    ntask = rng.choice([1, 1, 2, 3])
    tasks = []
    max_stack = 1024
    big = cat == "big"
    for ti in range(ntask):
        nrec = rng.choice([2, 6, 14, 30, 60, 120]) if not big else 30
        steps = STEPS if not big else [0, 1, 999, 50000, 1234567, 987654321, 61234567890]
        recs = gen_walk(rng, nf, nrec, rng.choice([2, 4, 8, 14]), 2000 + rng.randint(0, 300), steps)
        if cat in ("open", "big") or (cat in ("lost", "inv", "ovf") and rng.random() < 0.5):
            cut = rng.randint(1, len(recs))
            recs = recs[:cut]
        if cat == "late":
            # the trace starts in the middle (A17: stack_count comes from the first record's depth)
            a = rng.randint(0, max(0, len(recs) - 2))
            recs = recs[a:]
            if rng.random() < 0.5:
                recs = recs[:rng.randint(1, len(recs))]
        if cat == "lost":
            k = rng.choice([1, 1, 2, 3])
            for _ in range(k):
                pos = rng.randint(0, len(recs))
                tprev = recs[pos - 1][1] if pos > 0 else 2000
                lost = (2, rng.choice([0, 0, tprev, tprev + 1]), rng.choice([0, 0, 1, 2, 5]), rng.randint(1, 9))
                drop = rng.choice([0, 0, 1, 2, 5])
                recs = recs[:pos] + [lost] + recs[pos + drop:]
        if cat == "inv":
            recs = list(recs)
            for _ in range(rng.choice([1, 2, 4])):
                if not recs:
                    break
                i = rng.randrange(len(recs))
                t, tm, d, f = recs[i]
                recs[i] = (t, max(1500, tm - rng.choice([1, 5, 30, 200])) if rng.random() < 0.8
                           else tm + rng.choice([10, 100]), d, f)
        tasks.append(recs)
    if cat == "ovf":
        max_stack = rng.choice([1, 2, 3, 4, 6])
    c = Case("%s%d" % (cat, idx), cat, NF, sizes, tasks, max_stack)
    if cat in ("wf", "open", "big"):
        c.forests = [forest_of(t) for t in tasks]
    return c


TIDPOOL = [7, 9, 10, 42, 99, 100, 101, 250, 999, 1000, 1001, 12345, 99999, 100000]


def gen_tids_case(rng, idx, sizes):
    """multi-digit tids for the task report"""
    ntask = rng.choice([2, 3, 4, 5])
    tids = rng.sample(TIDPOOL, ntask)
    tasks = []
    for ti in range(ntask):
        recs = gen_walk(rng, NF, rng.choice([2, 6, 14, 30]), rng.choice([2, 4, 8]), 2000 + rng.randint(0, 300),
                        rng.choice([STEPS, [0, 0, 1]]))          # small steps: ties on total/self/func
        if rng.random() < 0.3:
            recs = recs[:rng.randint(1, len(recs))]
        tasks.append(recs)
    c = Case("tids%d" % idx, "tids", NF, sizes, tasks, 1024, tids=tids)
    c.forests = [forest_of(t) for t in tasks]
    return c


def named_shapes(tab):
    """fixed shapes over the table: same name nested (same module, other module, offset inside the symbol),
    true recursion next to it, indirect nesting, unnamed addresses nested in each other, open calls"""
    t = 2000
    solo = next((a for a in range(4, 9) if tab.ent[a]["name"] != "dup"), 4)

    def nest(chain, step=10, close=True):
        recs, tm = [], t
        for d, f in enumerate(chain):
            recs.append((0, tm, d, f))
            tm += step
        if close:
            for d in range(len(chain) - 1, -1, -1):
                tm += step + d
                recs.append((1, tm, d, chain[d]))
        return recs
    shapes = {
        "same-module": nest([solo, 1, 2, solo]),
        "other-module": nest([1, 3]),
        "three-deep": nest([1, 2, 3, 1]),
        "recursion-and-alias": nest([1, 1, 2, 2]),
        "indirect": nest([1, solo, 2, solo, 3]),
        "inner-offset": nest([9, next(a for a in range(1, 9) if tab.ent[a]["addr"] + 8 == tab.ent[9]["addr"])]),
        "unnamed": nest([10, 11, 10, 12, 12]),
        "open": nest([solo, 1, 2, 3], close=False),
        "open-alias-closed": nest([1, 2], close=False) + [(0, 2050, 2, 3), (1, 2060, 2, 3), (0, 2070, 2, 1)],
        "siblings": [(0, 2000, 0, 1), (1, 2010, 0, 1), (0, 2020, 0, 2), (1, 2040, 0, 2), (0, 2050, 0, 3), (1, 2090, 0, 3)],
    }
    out = []
    for nm, recs in shapes.items():
        c = NCase("shape-" + nm, "nopen" if nm.startswith("open") else "nwf", tab, [recs])
        c.forests = [forest_of(recs)]
        out.append(c)
    two = NCase("shape-two-tasks", "nwf", tab, [shapes["same-module"], shapes["other-module"]])
    two.forests = [forest_of(x) for x in two.tasks]
    out.append(two)
    return out


def gen_named_case(rng, idx, cat, tab):
    ntask = rng.choice([1, 1, 2, 3])
    tasks = []
    for ti in range(ntask):
        # few addresses in play: same-name nesting is frequent
        live = rng.sample(range(1, NA + 1), rng.choice([3, 5, 8, NA]))
        recs = gen_walk(rng, len(live), rng.choice([2, 6, 14, 30, 60]), rng.choice([2, 4, 8, 14]),
                        2000 + rng.randint(0, 300))
        recs = [(t, tm, d, live[f - 1] if t in (0, 1) else f) for (t, tm, d, f) in recs]
        if cat == "nopen":
            recs = recs[:rng.randint(1, len(recs))]
        if cat == "nlate":
            a = rng.randint(0, max(0, len(recs) - 2))
            recs = recs[a:]
            if rng.random() < 0.5:
                recs = recs[:rng.randint(1, len(recs))]
        tasks.append(recs)
    c = NCase("%s%d" % (cat, idx), cat, tab, tasks, rng.choice([1024, 1024, 1024, 3, 5]) if cat == "nlate" else 1024)
    if cat in ("nwf", "nopen"):
        c.forests = [forest_of(t) for t in tasks]
    return c


# ---------------------------------------------------------------------------
# the property, computed from the call trees (independent of the model)
def oracle(case):
    """per function NAME (a row of the report; with a 1-1 symbol table that is the function):
    calls, total (the invocations that do not run inside an invocation of the same row), self,
    all durations, all selfs; per task: sum of the top-level durations"""
    fn = {}
    top = []
    for ti, roots in enumerate(case.forests):
        recs = case.tasks[ti]
        last = recs[-1][1] if recs else 0
        tsum = 0

        def walk(n, anc):
            f, t0, t1, kids = n
            f = case.key_of(f)
            end = last if t1 is None else t1
            dur = end - t0
            kd = 0
            for k in kids:
                kd += walk(k, anc + [f])
            e = fn.setdefault(f, {"calls": 0, "total": 0, "self": 0, "durs": [], "selfs": []})
            e["calls"] += 1
            if f not in anc:
                e["total"] += dur
            e["self"] += dur - kd
            e["durs"].append(dur)
            e["selfs"].append(dur - kd)
            return dur
        for r in roots:
            tsum += walk(r, [])
        top.append(tsum)
    return fn, top


def oracle_row(fid, e, size):
    c = e["calls"]
    return [fid, c, size, e["total"], sum(e["durs"]) // c, min(e["durs"]), max(e["durs"]),
            e["self"], sum(e["selfs"]) // c, min(e["selfs"]), max(e["selfs"])]


def fmt_pct(base, pair):
    """print_diff_percent (colour off)"""
    if base == 0 or pair == 0:
        return "NA"
    pc = 100.0 * i64(pair - base) / base
    pc = 999.99 if pc > 999.99 else -999.99 if pc < -999.99 else pc
    return ("%+7.2f%%" % pc).strip()


# ---------------------------------------------------------------------------
# running uftrace and reading its tables
def split_header(line):
    return [x for x in re.split(r"\s{2,}", line.strip()) if x]


def parse_table(out, kind, pct=False):
    """kind: 'func' | 'task' | 'diff' | 'difffull' -> (fields, [(name, [raw cells])]) or None"""
    lines = [l for l in out.split("\n") if l.strip() and not l.startswith("#")]
    if len(lines) < 2 or "====" not in lines[1]:
        return None
    hdr = split_header(lines[0])
    if kind in ("diff", "difffull"):
        hdr = [h.replace(" (diff)", "") for h in hdr]
    fields = [HEADER.get(h, "?" + h) for h in hdr[:-1]]
    if kind == "difffull" and fields.count("self-min") == 2:
        # utils/report.c:930,943: the self-max column of the full diff is headed "Self min (diff)"
        fields[len(fields) - 1 - fields[::-1].index("self-min")] = "self-max"
    space = 3 if kind in ("diff", "difffull") else 2
    rows = []
    for l in lines[2:]:
        pos, cells = 0, []
        for f in fields:
            if kind == "diff":
                w = 11
            elif kind == "difffull":
                w = 32 if pct or f in ("call", "size") or f.endswith("stdv") else 35
            elif f == "tid":
                w = 7
            else:
                w = 10
            cells.append(l[pos + space: pos + space + w])
            pos += space + w
        rows.append((l[pos + space:].strip(), cells))
    return fields, rows


def canon_impl(parsed, kind, pct=False):
    fields, rows = parsed
    out = []
    for name, cells in rows:
        cc = []
        for f, c in zip(fields, cells):
            if f.endswith("stdv"):
                continue
            if kind == "diff":
                cc.append(str(int(c)) if f in ("call", "size") else c.strip().replace("N/A", "NA") if pct else canon_diff_cell(c))
            elif kind == "difffull":
                if f in ("call", "size"):
                    a, b, d = c.split()
                    cc.append("%d/%d/%d" % (int(a), int(b), int(d)))
                else:
                    cc.append("%s/%s/%s" % (canon_time_cell(c[0:10]), canon_time_cell(c[12:22]),
                                            c[24:32].strip().replace("N/A", "NA") if pct else canon_diff_cell(c[24:35])))
            elif f in ("call", "size", "func", "tid"):
                cc.append(str(int(c)))
            else:
                cc.append(canon_time_cell(c))
        out.append(name + ":" + ",".join(cc))
    return [f for f in fields if not f.endswith("stdv")], out


def parse_model_rows(line):
    if not line.startswith("rows"):
        return None
    body = line[4:].strip()
    return [[int(x) for x in r.split(",")] for r in body.split(";")] if body else []


def parse_model_drows(line):
    if not line.startswith("drows"):
        return None
    body = line[5:].strip()
    out = []
    for r in (body.split(";") if body else []):
        b, p = r.split("/")
        out.append(([int(x) for x in b.split(",")], [int(x) for x in p.split(",")]))
    return out


def canon_rows(case, rows, fields, kind):
    """what the model's rows look like in the table restricted to `fields`"""
    out = []
    for r in rows:
        if kind == "task":
            name = "prog"
            cc = [fmt_time(r[3]) if f == "total" else fmt_time(r[7]) if f == "self" else
                  str(r[0]) if f == "tid" else str(r[1]) for f in fields]
        else:
            name = case.fname(r[0])
            cc = [str(r[ROWIDX[f]]) if f in ("call", "size") else fmt_time(r[ROWIDX[f]]) for f in fields]
        out.append(name + ":" + ",".join(cc))
    return out


def canon_drows(case, drows, fields, kind, pct=False):
    out = []
    for b, p in drows:
        cc = []
        for f in fields:
            x, y = b[ROWIDX[f]], p[ROWIDX[f]]
            if f in ("call", "size"):
                d = i64(y - x)
                cc.append(str(d) if kind == "diff" else "%d/%d/%d" % (x, y, d))
            elif kind == "diff":
                cc.append(fmt_pct(x, y) if pct else fmt_diff_time(x, y))
            else:
                cc.append("%s/%s/%s" % (fmt_time(x), fmt_time(y), fmt_pct(x, y) if pct else fmt_diff_time(x, y)))
        out.append(case.fname(b[0]) + ":" + ",".join(cc))
    return out


def default_fields(opt):
    if opt.get("task"):
        if opt.get("fields"):
            return [f for f in ["total", "self", "tid", "func"] if f in opt["fields"].split(",")]
        return ["total", "self", "tid", "func"]
    if opt.get("fields"):
        fs = opt["fields"]
        if fs == "all":
            return list(FIELDS)
        plus = fs.startswith("+")
        want = set(fs.lstrip("+").split(","))
        if plus:
            want |= {"total", "self", "call"}
        return [f for f in FIELDS if f in want]
    if opt.get("avg") == 1:
        return ["total-avg", "total-min", "total-max"]
    if opt.get("avg") == 2:
        return ["self-avg", "self-min", "self-max"]
    return ["total", "self", "call"]


def uft_args(opt, dirs):
    a = []
    if opt.get("task"):
        a.append("--task")
    if opt.get("avg") == 1:
        a.append("--avg-total")
    if opt.get("avg") == 2:
        a.append("--avg-self")
    if opt.get("sort"):
        a += ["-s", opt["sort"]]
    if opt.get("fields"):
        a += ["-f", opt["fields"]]
    if opt.get("diff") is not None:
        a += ["--diff", dirs[opt["diff"]]]
        if opt.get("column") is not None:
            a += ["--sort-column", str(opt["column"])]
        pol = []
        if opt.get("full"):
            pol.append("full")
        if opt.get("noabs"):
            pol.append("no-abs")
        if opt.get("pct"):
            pol.append("percent")
        if pol:
            a += ["--diff-policy", ",".join(pol)]
    return a


def model_query(cases, ci, opt):
    c = cases[ci]
    # -f suppresses the avg mode (cmds/report.c:497)
    avg = 0 if opt.get("fields") else opt.get("avg", 0)
    sk = opt.get("sort") or "-"
    if opt.get("task"):
        # {FIX}: 1 = the repaired model, 0 = the code before the repair (F-C08-TIDSORT)
        return "taskx %d %s {FIX} | %s | %s" % (c.max_stack, sk, " ".join(map(str, c.tids)), c.model_streams())
    if opt.get("diff") is not None:
        p = cases[opt["diff"]]
        col = opt.get("column")
        if not opt.get("dup"):
            return "diffx %d:%d %d %s %d %d %d {FIX} | %s | %s | # | %s" % (
                c.max_stack, p.max_stack, avg, sk, 2 if col is None else col, 0 if opt.get("noabs") else 1,
                1 if opt.get("pct") else 0, c.table_str(), c.model_streams(), p.model_streams())
        return "diff %d:%d %d %s %d %d | %s | %s | # | %s" % (
            c.max_stack, p.max_stack, avg, sk, 2 if col is None else col, 0 if opt.get("noabs") else 1,
            c.model_sizes(), c.model_streams(), p.model_streams())
    if not opt.get("dup"):
        # {FIX}: 1 = the repaired model, 0 = before the repair (F-C08-SAMENAME); with a 1-1 symbol table the two
        # differ only on malformed streams (an EXIT record whose address is not the open frame's)
        return "funcx %d %d %s {FIX} | %s | %s" % (c.max_stack, avg, sk, c.table_str(), c.model_streams())
    return "func %d %d %s | %s | %s" % (c.max_stack, avg, sk, c.model_sizes(), c.model_streams())


def finding_of(case, opt):
    """the finding whose unrepaired model a `{FIX}` query switches to"""
    return FINDING_TID if opt.get("task") else FINDING_NAME


def rand_sort(rng, opt):
    if opt.get("task"):
        keys = ["total", "self", "func", "tid", "name"]
    elif opt.get("avg") and not opt.get("fields"):
        keys = ["avg", "min", "max", "total", "self", "call", "func", "total_avg", "self_max", "size"]
    else:
        keys = list(SORTKEYS) + ["total-avg", "self-min"]
    n = rng.choice([1, 1, 2, 3])
    ks = []
    for k in rng.sample(keys, n):
        # the same comparator twice is finding F-C08-DUP (exercised separately)
        if canon_key(k, opt) not in [canon_key(x, opt) for x in ks]:
            ks.append(k)
    return ",".join(ks)


def canon_key(k, opt):
    avg = 0 if opt.get("fields") else opt.get("avg", 0)
    if avg and k in ("avg", "min", "max"):
        return ("total_" if avg == 1 else "self_") + k
    return k.replace("-", "_") if not avg else k


def options_for(rng, case, ci, fam, tier, inexact=()):
    """the report invocations made on one directory; `fam` = the directories it may be diffed against
    (same symbol table)"""
    quick = tier == "quick"
    if case.cat == "tids":
        # the task report: every task sort key alone and in chains, multi-digit tids
        opts = [{"task": True}] + [{"task": True, "sort": k} for k in TASKKEYS]
        opts += [{"task": True, "sort": k} for k in ("name,tid", "func,tid", "tid,total", "self,name,tid", "pid")]
        for _ in range(2 if quick else 6):
            opts.append({"task": True, "sort": ",".join(rng.sample(TASKKEYS, rng.choice([2, 3])))})
        opts.append({"task": True, "fields": "tid,func", "sort": "tid"})
        return opts
    named = case.tab is not None
    opts = [{}, {"fields": "all"}, {"avg": 1}, {"avg": 2}, {"task": True},
            {"diff": ci}, {"diff": ci, "full": True, "fields": "all"}]
    for k in SORTKEYS[(ci % 3)::3]:
        opts.append({"fields": "all", "sort": k})
    nrand = (3 if named else 4) if quick else 10
    for _ in range(nrand):
        o = {}
        r = rng.random()
        if r < 0.15:
            o["task"] = True
        elif r < 0.3:
            o["avg"] = rng.choice([1, 2])
        elif r < 0.8:
            o["fields"] = rng.choice(["all", "all", ",".join(rng.sample(FIELDS, rng.randint(1, 4))),
                                      "+" + rng.choice(FIELDS)])
        if rng.random() < 0.85:
            o["sort"] = rand_sort(rng, o)
        opts.append(o)
    # finding F-C08-DUP: the same sort key twice (own, short timeout: the unrepaired code may not return)
    if case.name == "dupkeys":
        for sp in DUPSPECS:
            opts.append({"fields": "all", "sort": sp, "dup": True})
    # diff against another directory
    others = [k for k in fam if k != ci] or [ci]
    other = rng.choice(others)
    for _ in range(2 if quick else 4):
        o = {"diff": rng.choice([other, other, ci]), "column": rng.choice([None, 0, 1, 2])}
        if rng.random() < 0.5:
            o["full"] = True
        if rng.random() < 0.3:
            o["noabs"] = True
        if rng.random() < 0.6:
            o["fields"] = rng.choice(["all", "total,self,call", "self-avg,total-max"])
        if rng.random() < 0.7:
            o["sort"] = rng.choice(SORTKEYS + ["total,func", "call,self"])
        opts.append(o)
    # --diff-policy percent: against itself, and against another directory with each sort key in turn
    # (figures that are not exactly printable / beyond 2^26 are left to the absolute policy: cmp_pcnt computes in double)
    if case.cat not in ("big", "lost", "inv"):
        opts.append({"diff": ci, "pct": True, "full": rng.random() < 0.5, "fields": rng.choice(["all", None])})
        # the OTHER directory must be exactly printable too (this choice draws nothing from rng: the job list of
        # a seed stays what it was wherever `other` was already exact)
        pct_other = other if other not in inexact else next((k for k in others if k not in inexact), ci)
        for j in range(2 if quick else 5):
            o = {"diff": pct_other, "pct": True, "sort": SORTKEYS[(ci + 5 * j) % len(SORTKEYS)],
                 "fields": rng.choice(["all", "all", "total,self,call"]), "column": rng.choice([None, None, 2, 0, 1])}
            if rng.random() < 0.35:
                o["full"] = True
            if rng.random() < 0.4:
                o["noabs"] = True
            if rng.random() < 0.25:
                o["sort"] += "," + rng.choice(["func", "call", "self"])
            opts.append(o)
    for o in opts:
        if "fields" in o and o["fields"] is None:
            del o["fields"]
        if "full" in o and not o["full"]:
            del o["full"]
    return opts


def pcnt_of(d, base):
    from fractions import Fraction
    return Fraction(0) if base == 0 else Fraction(100 * d, base)


def abs_tie(drows, opt):
    """two rows whose differences (percent policy: percentages) on a sort key are +d and -d (d != 0)"""
    avg = 0 if opt.get("fields") else opt.get("avg", 0)
    for k in (opt.get("sort") or ("total" if not avg else "total_avg" if avg == 1 else "self_avg")).split(","):
        k = canon_key(k, opt).replace("_", "-")
        if k == "func" or k not in ROWIDX:
            continue
        ds = [i64(p[ROWIDX[k]] - b[ROWIDX[k]]) for b, p in drows]
        if opt.get("pct"):
            if any(v[ROWIDX[k]] >= 1 << 26 for bp in drows for v in bp):
                return True                     # not exact in double: the order of near-equal percentages is open
            ds = [pcnt_of(d, b[ROWIDX[k]]) for d, (b, p) in zip(ds, drows)]
        if any(d != 0 and -d in ds for d in ds):
            return True
    return False


DUPSPECS = ["total,total", "total,self,total", "total,total,self", "call,call,func", "self,call,self,func",
            "func,func,total", "size,call,size"]
FINDING_DUP = "F-C08-DUP"
FINDING_NAME = "F-C08-SAMENAME"
FINDING_TID = "F-C08-TIDSORT"
FINDING_TEXT = {
    FINDING_NAME: "report keys its rows by symbol name but report_update_node tests recursion by address: an invocation "
                  "running inside a different function of the same name (static functions of two files, the same name in "
                  "two modules, overloads demangled alike) is counted as outermost, the row's Total adds nested durations "
                  "and can exceed the run time",
    FINDING_TID: "report --task -s tid compares the tids as strings (strcmp on the decimal text): 100 sorts before 99, the "
                 "TID column is in no numeric order",
}
FINDING_THEOREM = {FINDING_NAME: "c08_named_total_exact / c08_prefix_samename_witness",
                   FINDING_TID: "c08_task_rows_sorted / c08_prefix_tid_sort_witness"}
TASKKEYS = ["total", "self", "func", "tid", "name"]


def kind_of(opt):
    if opt.get("task"):
        return "task"
    if opt.get("diff") is not None:
        return "difffull" if opt.get("full") else "diff"
    return "func"


# ---------------------------------------------------------------------------
def sort_vector(fields, cells, sortspec, avg):
    """key tuple of a printed row (needs every key displayed and exact); None if unknown"""
    keys = []
    for k in sortspec.split(","):
        k = k.replace("-", "_") if not avg else k
        if avg and k in ("avg", "min", "max"):
            k = ("total_" if avg == 1 else "self_") + k
        keys.append(k)
    vec = []
    for k in keys:
        if k == "func":
            continue
        f = k.replace("_", "-")
        if f not in fields:
            return None, keys
        v = cells[fields.index(f)]
        if not v.lstrip("-").isdigit():
            return None, keys
        vec.append(int(v))
    return vec, keys


def run(ctx):
    ok, problems = C.prove(ctx, "C08")
    if not ok:
        C.violation(ctx, "proof", {"kind": "proof-obligation-broken", "problems": problems}, True)
        return C.finish(ctx)

    okm, log = ctx.make()
    uft = os.path.join(ctx.src, "uftrace")
    if not okm or not os.path.exists(uft):
        C.violation(ctx, "build", {"kind": "uftrace-build-failed", "log": log[-2000:]}, True)
        return C.finish(ctx)

    rng = ctx.rng
    quick = ctx.tier == "quick"
    for fn in os.listdir(os.path.join(C.VERIF, "replays")) if os.path.isdir(os.path.join(C.VERIF, "replays")) else []:
        if fn.startswith("C08-") and fn.endswith("-seed%d.json" % ctx.seed):
            os.unlink(os.path.join(C.VERIF, "replays", fn))       # stale replays of this property and seed
    cases = []
    cdir = os.path.join(C.VERIF, "corpus", "C08")
    if os.path.isdir(cdir):
        for fn in sorted(os.listdir(cdir)):
            if fn.endswith(".json"):
                for o in json.load(open(os.path.join(cdir, fn))):
                    cases.append(Case.from_json(o))
    ncorpus = len(cases)
    sizes = [rng.choice([16, 32, 48, 100, 128, 200, 256]) for _ in range(NF)]
    for c in cases:
        if c.tab is None:
            c.nf, c.sizes = NF, sizes
    plan = [("wf", 40), ("open", 30), ("late", 12), ("lost", 25), ("inv", 15), ("ovf", 10), ("big", 8)]
    mult = 1 if quick else 12
    for cat, n in plan:
        for i in range(n * mult):
            cases.append(gen_case(rng, i, cat, sizes))
    # the task report with multi-digit tids
    for i in range(14 * mult):
        cases.append(gen_tids_case(rng, i, sizes))
    # the name-keyed family: one symbol table (several addresses per name, two modules, unnamed addresses)
    tab = SymTab.generate(rng)
    cases += named_shapes(tab)
    for cat, n in [("nwf", 34), ("nopen", 22), ("nlate", 8)]:
        for i in range(n * mult):
            cases.append(gen_named_case(rng, i, cat, tab))

    root = os.path.join(ctx.scratch, "data")
    os.makedirs(root)
    dirs = []
    for i, c in enumerate(cases):
        d = os.path.join(root, "c%d" % i)
        c.write(d)
        dirs.append(d)

    inexact = {i for i, c in enumerate(cases) if c.cat in ("big", "lost", "inv")}
    fam_plain = [i for i, c in enumerate(cases) if c.tab is None]
    fam_named = [i for i, c in enumerate(cases) if c.tab is not None and not c.own_table]
    jobs = []       # (case index, opt)
    for ci, c in enumerate(cases):
        fam = fam_plain if c.tab is None else [ci] if c.own_table else fam_named
        for o in options_for(rng, c, ci, fam, ctx.tier, inexact):
            jobs.append((ci, o))

    def runjob(j):
        ci, o = j
        return DD.run_uftrace(uft, "report", dirs[ci], uft_args(o, dirs), timeout=4 if o.get("dup") else 60)
    with ThreadPoolExecutor(max_workers=16) as ex:
        results = list(ex.map(runjob, jobs))

    queries = {}
    for ci, o in jobs:
        q = model_query(cases, ci, o)
        if "{FIX}" in q:
            queries.setdefault(q.replace("{FIX}", "1"), len(queries))
            queries.setdefault(q.replace("{FIX}", "0"), len(queries))
            continue
        queries.setdefault(q, len(queries))
        if o.get("dup"):
            queries.setdefault("funcpre" + q[4:], len(queries))
    qlist = sorted(queries, key=queries.get)
    try:
        mout = C.run_model("C08", qlist)
    except Exception as e:                                   # noqa: BLE001
        C.violation(ctx, "model", {"kind": "model-failed", "error": str(e)[-1000:]}, True)
        return C.finish(ctx)
    if len(mout) != len(qlist):
        C.violation(ctx, "model", {"kind": "model-output-count", "want": len(qlist), "got": len(mout)}, True)
        return C.finish(ctx)

    st = {"disagree": 0, "monitor": 0, "cells": 0, "exact_cells": 0, "rows": 0, "sorted_checked": 0,
          "oracle_rows": 0, "telescope_checked": 0, "selfdiff_checked": 0, "invalid_key": 0,
          "diff_order_ambiguous": 0, "dup_jobs": 0, "dup_as_repaired": 0, "dup_as_unrepaired": 0,
          "flag_jobs": 0, "flag_jobs_models_differ": 0, "task_sorted_checked": 0, "pct_jobs": 0,
          "named_oracle_rows": 0, "total_le_wall_checked": 0}
    as_unrepaired = {FINDING_NAME: 0, FINDING_TID: 0}
    finding_hits = {FINDING_NAME: [], FINDING_TID: []}
    reported = [0]
    samples = []
    distinct = set()
    bycat = {}

    def report(kind, ci, o, what, extra, nfi):
        if kind == "monitor":
            st["monitor"] += 1
        else:
            st["disagree"] += 1
        if os.environ.get("C08_DEBUG"):
            print("DBG", kind, cases[ci].cat, cases[ci].name, o, what[:150])
        if reported[0] < 4:
            reported[0] += 1
            obj = {"kind": "property-violated-on-implementation" if not nfi else "model-code-disagreement",
                   "what": what, "case": cases[ci].to_json(), "options": o,
                   "uftrace_args": uft_args(o, ["<dir of case %d>" % k for k in range(len(cases))])}
            if o.get("diff") is not None and o["diff"] != ci:
                obj["diff_case"] = cases[o["diff"]].to_json()
            obj.update(extra)
            C.violation(ctx, "%s-case%d-%d" % (kind, ci, reported[0]), obj, no_failing_input=nfi)

    oracles = {}
    for ji, ((ci, o), (rc, out, err)) in enumerate(zip(jobs, results)):
        case = cases[ci]
        kind = kind_of(o)
        pct = bool(o.get("pct"))
        q = model_query(cases, ci, o)
        ml_pre = None
        if "{FIX}" in q:
            st["flag_jobs"] += 1
            ml = mout[queries[q.replace("{FIX}", "1")]]
            ml_pre = mout[queries[q.replace("{FIX}", "0")]]
            if ml_pre != ml:
                st["flag_jobs_models_differ"] += 1
        else:
            ml = mout[queries[q]]
        if pct:
            st["pct_jobs"] += 1
        bycat[case.cat] = bycat.get(case.cat, 0) + 1
        distinct.add((ci, json.dumps(o, sort_keys=True)))
        if o.get("dup"):
            st["dup_jobs"] += 1
            fixed_rows = parse_model_rows(ml)
            pre_line = mout[queries["funcpre" + q[4:]]]
            parsed = parse_table(out, kind) if rc == 0 else None
            if parsed is not None:
                fields, impl = canon_impl(parsed, kind)
            else:
                fields, impl = list(FIELDS), ("hang" if rc == -999 else "rc=%d" % rc)
            want = canon_rows(case, fixed_rows, fields, kind)
            pre = "hang" if pre_line == "hang" else canon_rows(case, parse_model_rows(pre_line), fields, kind)
            if impl == want:
                st["dup_as_repaired"] += 1
                continue
            what = ("`uftrace report -s %s` %s (the key chain asked for is equivalent to the one without the "
                    "repetition: theorem c08_duplicate_keys_redundant)" % (
                        o["sort"], "does not terminate" if impl == "hang" else "orders the rows by a different key chain"))
            if impl == pre:
                st["dup_as_unrepaired"] += 1
                kf = [f for f in C.known_findings("C08") if f.get("id") == FINDING_DUP]
                if kf:
                    C.known(ctx, kf[0], "%s: report_setup_sort links a repeated sort key twice (list corrupted): %s"
                            % (FINDING_DUP, what))
                    continue
                report("monitor", ci, o, what, {"theorem": "c08_sorted_by_keys", "finding": FINDING_DUP,
                                                "matches_prefix_model": True,
                                                "impl_table": impl if impl == "hang" else impl[:12],
                                                "model_table": want[:12]}, False)
            else:
                report("corr", ci, o, "repeated sort key: output matches neither the repaired nor the unrepaired model",
                       {"impl_table": impl if isinstance(impl, str) else impl[:12], "model_table": want[:12],
                        "prefix_model_table": pre if isinstance(pre, str) else pre[:12],
                        "theorem": "correspondence(report_setup_sort)"}, True)
            continue
        if ml == "invalid-sort-key":
            st["invalid_key"] += 1
            if "invalid sort key" not in err + out:
                report("corr", ci, o, "model rejects the sort key, uftrace does not",
                       {"stdout": out[-600:], "stderr": err[-300:], "theorem": "correspondence(convert_sort_keys)"}, True)
            continue
        parsed = parse_table(out, kind, pct) if rc == 0 else None
        if parsed is None:
            report("corr", ci, o, "no table printed (rc=%d)" % rc,
                   {"stdout": out[-600:], "stderr": err[-600:], "model": ml[:300], "theorem": "correspondence"}, True)
            continue
        fields, impl = canon_impl(parsed, kind, pct)

        def model_table(line):
            if kind in ("diff", "difffull"):
                rows = parse_model_drows(line)
                return rows, (canon_drows(case, rows, fields, kind, pct) if rows is not None else None)
            rows = parse_model_rows(line)
            return rows, (canon_rows(case, rows, fields, kind) if rows is not None else None)
        mr, model = model_table(ml)
        mr_pre, model_pre = model_table(ml_pre) if ml_pre is not None and ml_pre != ml else (None, None)

        def tie_only(tbl, rows):
            """the table differs from the model's in the order of rows only, and the comparator is ambiguous:
            |+d| = |-d|: cmp_diff says "smaller" in both directions (utils/report.c:363-367), the row order then
            depends on the shape of the red-black tree, which the list model does not have"""
            return (tbl is not None and impl != tbl and kind in ("diff", "difffull") and not o.get("noabs")
                    and o.get("column") in (None, 2) and sorted(impl) == sorted(tbl) and abs_tie(rows, o))
        want_fields = default_fields(o)
        st["rows"] += len(impl)
        for r in impl:
            for cell in r.split(":", 1)[1].split(","):
                st["cells"] += 1
                if re.fullmatch(r"[-+]?\d+(/[-+]?\d+)*", cell):
                    st["exact_cells"] += 1
        if len(samples) < 5 and ji % 211 == 7:
            samples.append({"case": case.name, "args": uft_args(o, ["D%d" % k for k in range(len(cases))]),
                            "impl": impl[:4], "model": (model or [])[:4]})
        bad = None
        # ---- monitors: the property on the implementation's own output ----
        if case.forests is not None and kind == "func" and set(want_fields) >= {"total", "self", "call"} \
                and fields == want_fields:
            if ci not in oracles:
                oracles[ci] = oracle(case)
            fn, top = oracles[ci]
            # the Size column is no part of the property (and with several symbols per name it is the last
            # updated symbol's): compared with the model only when the table is name-keyed
            keep = [i for i, f in enumerate(fields) if not (f == "size" and case.tab is not None)]
            got = {}
            for r in impl:
                nm, cells = r.split(":", 1)
                cells = cells.split(",")
                got[nm] = ",".join(cells[i] for i in keep)
            wantrows = {}
            for nm, e in fn.items():
                orow = oracle_row(nm, e, case.size_of_key(nm) if case.tab is None else 0)
                wantrows[nm] = ",".join(
                    str(orow[ROWIDX[f]]) if f in ("call", "size") else fmt_time(orow[ROWIDX[f]])
                    for f in (fields[i] for i in keep))
            st["oracle_rows"] += len(wantrows)
            if case.tab is not None:
                st["named_oracle_rows"] += len(wantrows)
            if got != wantrows:
                diffs = {k: (got.get(k), wantrows.get(k)) for k in set(got) | set(wantrows)
                         if got.get(k) != wantrows.get(k)}
                bad = ("statistics differ from the call trees (fields %s): {function: (printed, exact)} = %s"
                       % ([fields[i] for i in keep], dict(list(diffs.items())[:4])),
                       "c08_named_calls_exact/c08_named_total_exact/c08_named_self_exact" if case.tab is not None else
                       "c08_calls_exact/c08_total_exact/c08_self_exact/c08_min_max_avg")
            # no row's Total exceeds the summed duration of the top-level calls (outermost invocations do not overlap)
            if not bad and all(re.fullmatch(r"\d+", r.split(":")[1].split(",")[fields.index("total")]) for r in impl):
                st["total_le_wall_checked"] += 1
                for r in impl:
                    tv = int(r.split(":")[1].split(",")[fields.index("total")])
                    if tv > sum(top):
                        bad = ("Total of row %s (%d ns) exceeds the summed duration of all top-level calls (%d ns)"
                               % (r.split(":")[0], tv, sum(top)), "c08_named_total_le_toplevel")
                        break
            # telescoping on the printed Self column (all cells exact)
            if not bad and all(re.fullmatch(r"\d+", r.split(":")[1].split(",")[fields.index("self")]) for r in impl):
                st["telescope_checked"] += 1
                ssum = sum(int(r.split(":")[1].split(",")[fields.index("self")]) for r in impl)
                if ssum != sum(top):
                    bad = ("sum of the Self column %d != summed duration of the top-level calls %d" % (ssum, sum(top)),
                           "c08_self_telescopes")
        if case.forests is not None and kind == "task" and fields == want_fields and not bad:
            if ci not in oracles:
                oracles[ci] = oracle(case)
            fn, top = oracles[ci]
            # the task report charges open calls up to the last EXIT/in-function event only: compare complete forests
            if case.cat == "wf":
                st["telescope_checked"] += 1
                got = {}
                for r in impl:
                    cells = r.split(":")[1].split(",")
                    got[int(cells[fields.index("tid")])] = cells[fields.index("total")]
                want = {case.tids[ti]: fmt_time(v) for ti, v in enumerate(top) if case.forests[ti]}
                if got != want:
                    bad = ("--task Total time %s != summed top-level durations %s" % (got, want), "c08_self_telescopes")
        if kind == "func" and o.get("sort") and not bad and case.cat not in ("inv", "lost"):
            avg = 0 if o.get("fields") else o.get("avg", 0)
            vecs = []
            for r in impl:
                name, cells = r.split(":", 1)
                v, keys = sort_vector(fields, cells.split(","), o["sort"], avg)
                if v is None:
                    vecs = None
                    break
                # func key: reverse name order; insert at its position in the chain
                vv, it = [], iter(v)
                for k in keys:
                    vv.append(tuple(-ord(ch) for ch in name) if k == "func" else next(it))
                vecs.append(vv)
            if vecs is not None:
                st["sorted_checked"] += 1
                for a, b in zip(vecs, vecs[1:]):
                    if a < b:
                        bad = ("rows are not in descending order of -s %s: %s before %s" % (o["sort"], a, b),
                               "c08_sorted_by_keys")
                        break
        if kind == "task" and not bad and set(fields) >= {"tid"} and case.cat not in ("inv", "lost"):
            # rows follow the requested task keys: total, self, func (number of functions) descending,
            # tid ascending as a NUMBER, name = the task's comm (all alike here)
            vecs = []
            for r in impl:
                cells = dict(zip(fields, r.split(":", 1)[1].split(",")))
                v = []
                for k in (o.get("sort") or "total").split(","):
                    if k == "name":
                        continue
                    x = cells.get(k)
                    if x is None or not x.isdigit():
                        v = None
                        break
                    v.append(-int(x) if k == "tid" else int(x))
                if v is None:
                    vecs = None
                    break
                vecs.append(v)
            if vecs is not None:
                st["task_sorted_checked"] += 1
                for a, b in zip(vecs, vecs[1:]):
                    if a < b:
                        bad = ("--task rows are not in the order of -s %s (tid ascending as a number, the others descending): "
                               "%s before %s" % (o.get("sort") or "total", a, b), "c08_task_rows_sorted")
                        break
        if kind in ("diff", "difffull") and o["diff"] == ci and not bad:
            st["selfdiff_checked"] += 1
            for r in impl:
                for cell in r.split(":", 1)[1].split(","):
                    dl = cell.split("/")[-1]
                    if pct and dl in ("+0.00%", "NA"):
                        continue                        # N/A: the figure itself is 0
                    if dl != "0":
                        bad = ("--diff of a directory against itself shows a difference: " + r, "c08_diff_self_zero")
                        break
                if bad:
                    break
            if not bad and kind == "difffull" and any(c.split("/")[0] != c.split("/")[1]
                                                      for r in impl for c in r.split(":", 1)[1].split(",")):
                bad = ("--diff of a directory against itself: base and pair figures differ", "c08_diff_self_zero")
        if model_pre is not None and (impl == model_pre or tie_only(model_pre, mr_pre)) and impl != model \
                and not tie_only(model, mr) and fields == want_fields:
            # the implementation behaves like the model of the code BEFORE the repair of a finding
            fid = finding_of(case, o)
            as_unrepaired[fid] += 1
            what = "%s: %s%s" % (fid, FINDING_TEXT[fid], (" [monitor: %s]" % bad[0][:300]) if bad else "")
            if len([h for h in finding_hits[fid] if h[0]]) < 2 or (bad and len(finding_hits[fid]) < 40):
                obj = {"kind": "property-violated-on-implementation" if bad else "matches-unrepaired-model",
                       "finding": fid, "what": what, "matches_prefix_model": True, "theorem": FINDING_THEOREM[fid],
                       "monitor": bad[0] if bad else None,
                       "case": case.to_json(), "options": o,
                       "uftrace_args": uft_args(o, ["<dir of case %d>" % k for k in range(len(cases))]),
                       "impl_table": impl[:12], "repaired_model_table": model[:12], "unrepaired_model_table": model_pre[:12]}
                if o.get("diff") is not None and o["diff"] != ci:
                    obj["diff_case"] = cases[o["diff"]].to_json()
                # smallest directories with a failing monitor first
                finding_hits[fid].append((bool(bad), sum(len(t) for t in case.tasks), ci, what, obj))
            continue
        if bad:
            report("monitor", ci, o, bad[0], {"theorem": bad[1], "impl_table": impl[:12],
                                              "model_table": (model or [])[:12]}, False)
            continue
        if tie_only(model, mr):
            st["diff_order_ambiguous"] += 1
            continue
        if model is None or fields != want_fields or impl != model:
            report("corr", ci, o, "printed table differs from the model's",
                   {"fields_printed": fields, "fields_expected": want_fields, "impl_table": impl[:14],
                    "model_table": (model or [ml[:200]])[:14], "theorem": "correspondence(Report model)"}, True)

    for fid, hits in finding_hits.items():
        if not hits:
            continue
        hits.sort(key=lambda h: (not h[0], h[1], h[2]))
        kf = [f for f in C.known_findings("C08") if f.get("id") == fid]
        if kf:
            C.known(ctx, kf[0], "%s (%d tables like the unrepaired model, e.g. case %s)"
                    % (hits[0][3][:400], as_unrepaired[fid], cases[hits[0][2]].name))
            continue
        for n, h in enumerate(hits[:2]):
            C.violation(ctx, "%s-case%d-%d" % (fid, h[2], n + 1), h[4], no_failing_input=not h[0])

    nrec = sum(len(t) for c in cases for t in c.tasks)
    ctx.coverage.update({
        "evaluations": len(jobs),
        "distinct_nontrivial": len(distinct),
        "rule": "corpus cases, then per category random call walks (direct + mutual recursion, equal timestamps, "
                "1-3 tasks, user events): wf = complete forests, open = cut anywhere (calls open at the end), "
                "late = starts in the middle, lost = LOST records (+ dropped records), inv = inverted timestamps, "
                "ovf = max_stack 1..6, big = durations up to minutes (not exactly printable). Per directory: default, "
                "-f all, --avg-total, --avg-self, --task, --diff self (compact/full), -f all -s <each key>, random "
                "-s chains / -f lists, --diff against another directory with --sort-column/--diff-policy (abs/no-abs, "
                "compact/full, percent: against itself and against another directory with each sort key in turn). "
                "tids = 2-5 tasks with tids from 7..100000 (99/100, 999/1000 ...): --task with each task sort key, chains, "
                "-f tid,func. Name-keyed family (nwf/nopen/nlate + fixed shapes): one symbol table per run with 12 "
                "addresses: `dup` twice in the executable and once in a second module, 5 symbols with names drawn from a "
                "pool of 6 in either module, a second address inside one symbol, two addresses without symbol inside the "
                "executable's map and one outside every map; walks over 3-12 of them with direct/mutual recursion; the same "
                "option sets; every such invocation is compared with the repaired AND the unrepaired model. "
                "distinct = distinct (directory, option set) pairs",
        "data_directories": len(cases), "corpus_cases": ncorpus, "records_total": nrec,
        "invocations_by_category": bycat,
        "model_queries": len(qlist),
        "rows_compared": st["rows"], "cells_compared": st["cells"], "cells_exact_integer_ns": st["exact_cells"],
        "oracle_rows_checked": st["oracle_rows"], "telescoping_sums_checked": st["telescope_checked"],
        "sorted_tables_checked": st["sorted_checked"], "self_diffs_checked": st["selfdiff_checked"],
        "invalid_sort_key_agreed": st["invalid_key"],
        "diff_tables_compared_as_multisets_because_of_abs_ties": st["diff_order_ambiguous"],
        "repeated_sort_key_runs": st["dup_jobs"], "repeated_key_like_repaired_model": st["dup_as_repaired"],
        "repeated_key_like_unrepaired_model_F_C08_DUP": st["dup_as_unrepaired"],
        "name_keyed_directories": len([c for c in cases if c.tab is not None]),
        "name_keyed_symbol_table": {str(a): "%s@%x" % (tab.name(a), tab.ent[a]["addr"]) for a in sorted(tab.ent)},
        "multi_digit_tid_directories": len([c for c in cases if c.cat == "tids"]),
        "jobs_run_against_repaired_and_unrepaired_model": st["flag_jobs"],
        "jobs_where_the_two_models_differ": st["flag_jobs_models_differ"],
        "tables_like_unrepaired_model": dict(as_unrepaired),
        "name_keyed_oracle_rows_checked": st["named_oracle_rows"],
        "total_le_toplevel_checked": st["total_le_wall_checked"],
        "task_tables_sorted_checked": st["task_sorted_checked"],
        "percent_policy_invocations": st["pct_jobs"],
        "model_code_disagreements": st["disagree"], "monitor_failures_on_impl": st["monitor"],
        "exhaustive": False,
        "samples": samples,
    })
    ctx.assumptions += [
        "data directories are synthesized (lib/datadir.py): user records only, one session, no kernel/perf/sched data",
        "no filters/triggers/-D/-t/--time-range/--no-libcall; symbol table maps every recorded address to one function",
        "stdv columns (double) are never compared; times >= 1 ms are compared as printed (3 decimals of the unit)",
        "monitors (tree oracle) apply to well-formed categories wf/open/big/tids/nwf/nopen; lost/inv/ovf/late/nlate are compared with the model only",
        "a row of the report is a symbol NAME: its invocations are those of every address resolving to that name, "
        "outermost = not running inside another invocation of the same row (oracle and theorems c08_named_*)",
        "percent policy: cmp_pcnt computes in double; the model compares exact fractions (equal for figures < 2^26: "
        "directories of category big are not used with it); N/A cells = a zero figure",
    ]
    return C.finish(ctx)


def replay(ctx, path):
    r = json.load(open(path))
    print(json.dumps(r, indent=1)[:6000])
    if "case" not in r:
        return 0
    okm, log = ctx.make()
    uft = os.path.join(ctx.src, "uftrace")
    cases = [Case.from_json(r["case"])]
    if "diff_case" in r:
        cases.append(Case.from_json(r["diff_case"]))
    dirs = []
    for i, c in enumerate(cases):
        d = os.path.join(ctx.scratch, "replay%d" % i)
        c.write(d)
        dirs.append(d)
    o = dict(r["options"])
    if o.get("diff") is not None:
        o["diff"] = 1 if "diff_case" in r else 0
    rc, out, err = DD.run_uftrace(uft, "report", dirs[0], uft_args(o, dirs), timeout=6)
    print("uftrace report", " ".join(uft_args(o, dirs)), "-> rc", rc)
    print(out)
    print(err)
    q = model_query(cases, 0, o)
    if "{FIX}" in q:
        ml = C.run_model("C08", [q.replace("{FIX}", "1"), q.replace("{FIX}", "0")])
        print("model (repaired):  ", ml[0][:2000])
        print("model (unrepaired):", ml[1][:2000])
        kind = kind_of(o)
        parsed = parse_table(out, kind, bool(o.get("pct"))) if rc == 0 else None
        if parsed is not None:
            fields, impl = canon_impl(parsed, kind, bool(o.get("pct")))
            tabs = []
            for line in ml:
                if kind in ("diff", "difffull"):
                    tabs.append(canon_drows(cases[0], parse_model_drows(line), fields, kind, bool(o.get("pct"))))
                else:
                    tabs.append(canon_rows(cases[0], parse_model_rows(line), fields, kind))
            print("implementation:", "like the repaired model" if impl == tabs[0] else
                  "like the UNREPAIRED model (%s)" % r.get("finding") if impl == tabs[1] else "like neither model")
            return 0 if impl == tabs[0] else 1
        return 1
    ml = C.run_model("C08", [q])
    print("model:", ml[0][:2000])
    return 0
