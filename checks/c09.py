"""C09 — Captured arguments and return values are the values actually passed.
Lean: Uft/Model/Argbuf.lean, Uft/Lemmas/Argbuf.lean, Uft/Props/C09.lean (driver Driver/C09.lean).
Tie:
  H1  the real libmcount (save_argument / save_retval / record_ret_stack and the x86-64 fetchers),
      linked in-process with harness/h1_c09_driver.c: synthetic register frame, xmm registers, stack
      words, string pointers (readable, NULL, unmapped, PROT_NONE, ending at a page wall); the whole
      1024-byte slice plus the following slice and the emitted record bytes are compared byte-exactly
      with the model.
  H3  payloads written by the model into a synthesized data directory, read back by the real
      `uftrace replay`; the text of every call is compared with the model's readArgs/decodeVals/render.
  monitors (Python, independent of the Lean model): captured values = passed values, slice bounds,
      NULL distinguishable, framing of the whole record stream, replay text = text of the passed values.
  spec sources (harness/c09_specsrc.py): one function getting its specs from -T, -A, -R, repeated options,
      patterns overlapping plain names, duplicate and unordered indices: the writer's list (libmcount) against the
      reader's list (info file + setup_fstack_args) in H1 / H3 / H5, model Uft.Argbuf.writerList / readerList.
  readable-region cache (harness/c09_memregion.py): histories of mmap / PROT_NONE / munmap / sbrk / string writes / queries
      against the real check_mem_region and the real capture path (H1 ops MRMAP / MRUNMAP / MRBRK / MRSTR / MRQ), stepped
      against Uft.MemRegion with the /proc/self/maps of each instant; e2e programs whose pointers become valid over time;
      directed C09-S3 (heap rounding -> SIGSEGV, KNOWN-FINDING) and C09-STALE (never invalidated cache, guarded).
  agent (harness/c09_agent.py): record --agent --keep-pid + `uftrace live -p PID <update>` while the program waits on a
      fifo; the calls after the update against the program's own log.  H4 tie of the deep copy the agent makes: driver op
      DCOPY (uftrace_deep_copy_triggers on the tree of every H1 process) = the same tree (c09_deep_copy_preserves_spec_order).
Findings: F6 (NULL stored as "NULL"), S1 (stores before the size check: slice overrun),
C09-TRIGRET / C09-TRIGAUTO / C09-OLDFMT (the info file does not describe the layout libmcount used),
C09-DUMPF80 (raw dump of a 10-byte long double through an 8-byte temporary).
  H3 also runs `uftrace dump` on every synthesized directory and compares each number / string with the recorded bytes.
"""
import glob
import json
import os
import re
import struct
import subprocess
from concurrent.futures import ThreadPoolExecutor

import importlib.util
import sys

from lib import common as C, h1, datadir

NF = 32
REGS = ["RDI", "RSI", "RDX", "RCX", "R8", "R9"]
REGNUM = {"RDI": 1, "RSI": 2, "RDX": 3, "RCX": 4, "R8": 5, "R9": 6}
for _i in range(8):
    REGNUM["XMM%d" % _i] = 101 + _i
NSTACKW = 110
M64 = (1 << 64) - 1
FILL = 0xa5


def _load_specsrc():
    sp = importlib.util.spec_from_file_location("c09_specsrc", os.path.join(C.VERIF, "harness", "c09_specsrc.py"))
    m = importlib.util.module_from_spec(sp)
    sp.loader.exec_module(m)
    m.bind(sys.modules[__name__])
    return m


SS = None        # harness/c09_specsrc.py, loaded by run()
MRF = None       # harness/c09_memregion.py (address-space histories against check_mem_region), loaded by run()


def _load_memregion(name="c09_memregion"):
    sp = importlib.util.spec_from_file_location(name, os.path.join(C.VERIF, "harness", name + ".py"))
    m = importlib.util.module_from_spec(sp)
    sp.loader.exec_module(m)
    m.bind(sys.modules[__name__])
    return m


# ---------------------------------------------------------------------------------------------
# specs: abstract description -> option text (what the user writes) and model token
# (Python re-implementation of utils/argspec.c:parse_argspec for the forms generated here)
# ---------------------------------------------------------------------------------------------
def run_model(lines):
    """C.run_model; the shared uvmodel binary is briefly absent while another builder relinks it"""
    import time
    for attempt in range(6):
        try:
            return C.run_model("C09", lines)
        except (FileNotFoundError, PermissionError, OSError):
            if attempt == 5:
                raise
            time.sleep(5)


class Spec:
    def __init__(self, kind, n=0, fmt=None, bits=None, loc=None, tsize=None, tregs=None):
        self.kind, self.n, self.fmt, self.bits, self.loc = kind, n, fmt, bits, loc
        self.tsize, self.tregs = tsize, tregs or []

    def text(self):
        s = {"arg": "arg%d" % self.n, "fparg": "fparg%d" % self.n, "retval": "retval"}[self.kind]
        if self.fmt == "t":
            s += "/t%d" % self.tsize
            if self.tregs:
                s += "%" + "+".join(self.tregs)
            elif self.loc and self.loc[0] == "stack":
                s += "%%stack+%d" % self.loc[1]
            return s
        if self.fmt is not None:
            s += "/" + self.fmt
            if self.bits is not None:
                s += str(self.bits)
        elif self.bits is not None:
            s += "/%d" % self.bits          # fparg1/32
        if self.loc:
            s += "%%stack+%d" % self.loc[1] if self.loc[0] == "stack" else "%" + self.loc[1]
        return s

    def model(self):
        """(idx, fmt, size, ty, loc, sregs) as parse_argspec computes them (lp64, x86_64)"""
        idx = 0 if self.kind == "retval" else self.n
        fmt, size, ty, loc, sregs = "d", 8, 0, 0, []
        if self.kind == "fparg":
            fmt, ty, size = "f", 1, 8
        f = self.fmt
        if f in ("d", "i", "u", "x", "o", "s", "S", "p"):
            fmt = f
        elif f == "c":
            fmt, size = "c", 1
        elif f == "f":
            fmt, ty, size = "f", 1, 8
        elif f == "t":
            fmt, size = "t", self.tsize
            if self.tregs:
                sregs = [REGNUM[r] for r in self.tregs]
                loc, ty = sregs[-1], 2
            elif self.loc and self.loc[0] == "stack":
                loc, ty = self.loc[1], 3
            return (idx, fmt, size, ty, loc, sregs)
        if self.bits is not None:
            size = self.bits // 8
        if self.loc:
            if self.loc[0] == "stack":
                loc, ty = self.loc[1], 3
            else:
                loc, ty = REGNUM[self.loc[1]], 2
        return (idx, fmt, size, ty, loc, sregs)

    def token(self):
        idx, fmt, size, ty, loc, sregs = self.model()
        return "%d:%s:%d:%d:%d:%s" % (idx, fmt, size, ty, loc, ".".join(map(str, sregs)) or "-")

    def key(self):
        """add_arg_spec's notion of 'the same argument'"""
        idx, fmt, size, ty, loc, sregs = self.model()
        return (ty, idx if ty in (0, 1) else loc)

    def is_ret(self):
        return self.kind == "retval"


def align4(n):
    return (n + 3) // 4 * 4


# ---------------------------------------------------------------------------------------------
# where a spec reads its value from (arch/x86_64/mcount-support.c, as a specification of the ABI)
# ---------------------------------------------------------------------------------------------
def location(sp):
    """('reg', k) | ('xmm', k) | ('stack', word) | ('zero',) for an argument spec"""
    idx, fmt, size, ty, loc, sregs = sp.model()
    r = loc if ty == 2 else (idx if ty == 0 else idx + 100) if ty in (0, 1) else None
    if ty != 3 and r is not None:
        if 1 <= r <= 6:
            return ("reg", r - 1)
        if 101 <= r <= 108:
            return ("xmm", r - 101)
    off = loc if ty == 3 else (idx - 6 if ty == 0 else (idx - 8) * 2 - 1)
    if off < 1 or off > 100:
        return ("zero",)
    return ("stack", off)


# pointer kinds.  Readable (carry bytes): str (pool), wall (ends with its NUL on the last byte before a
# PROT_NONE page), after (first byte of the mapping that follows the PROT_NONE page), hole_before / hole_after
# (same around an unmapped hole).  Unreadable: small (0x10), none (inside the PROT_NONE page), edge (exactly the
# end address of the readable mapping = first byte of the PROT_NONE page), edge_last (its last byte),
# hole_edge / hole_mid / hole_last (same for the unmapped hole).
READABLE = ("str", "wall", "after", "hole_before", "hole_after")
UNREADABLE = ("small", "none", "edge", "edge_last", "hole_edge", "hole_mid", "hole_last")
PAGE = 4096


class Ptr:
    """a pointer-valued argument: kind in READABLE + UNREADABLE + null/obj"""
    def __init__(self, kind, data=b"", slot=0, inner=None):
        self.kind, self.data, self.slot, self.inner = kind, data, slot, inner


class Layout:
    """addresses inside the driver (static, from its SYMS line)"""
    def __init__(self, line):
        p = line.split()
        self.funcs = [int(x, 16) for x in p[1:1 + NF]]
        kv = dict(x.split("=") for x in p[1 + NF:])
        self.none = int(kv["none"], 16)
        self.wall = int(kv["wall"], 16)
        self.strpool = int(kv["strpool"], 16)
        self.objpool = int(kv["objpool"], 16)
        self.hole = int(kv.get("hole", "0"), 16)
        self.argbuf_size = int(kv["argbuf_size"])
        self.raw = line

    def addr(self, p):
        if p.kind == "str":
            return self.strpool + 160 * p.slot
        if p.kind == "wall":
            return self.wall - (len(p.data) + 1)
        if p.kind == "null":
            return 0
        if p.kind == "small":
            return 0x10
        if p.kind == "none":
            return self.none
        if p.kind == "obj":
            return self.objpool + 32 * p.slot
        if p.kind == "edge":
            return self.wall
        if p.kind == "edge_last":
            return self.wall + PAGE - 1
        if p.kind == "after":
            return self.wall + PAGE
        if not self.hole and p.kind.startswith("hole_"):
            # no hole area in this run: the same position at the PROT_NONE page
            return self.addr(Ptr({"hole_edge": "edge", "hole_mid": "none", "hole_last": "edge_last",
                                  "hole_before": "wall", "hole_after": "after"}[p.kind], p.data, p.slot))
        if p.kind == "hole_edge":
            return self.hole
        if p.kind == "hole_mid":
            return self.hole + 16
        if p.kind == "hole_last":
            return self.hole + PAGE - 1
        if p.kind == "hole_before":
            return self.hole - (len(p.data) + 1)
        if p.kind == "hole_after":
            return self.hole + PAGE
        raise ValueError(p.kind)

    def regions(self):
        """the mapped readable regions string pointers of the generated cases can fall into"""
        r = [(self.strpool, self.strpool + 64 * 160), (self.objpool, self.objpool + 64 * 32),
             (self.wall - PAGE, self.wall), (self.wall + PAGE, self.wall + 2 * PAGE)]
        if self.hole:
            r += [(self.hole - PAGE, self.hole), (self.hole + PAGE, self.hole + 2 * PAGE)]
        return r


# ---------------------------------------------------------------------------------------------
# one call: machine state at entry and at exit
# ---------------------------------------------------------------------------------------------
class Call:
    def __init__(self, fn, depth=0):
        self.fn, self.depth = fn, depth
        self.regs = [0] * 6
        self.xmm = [0] * 8
        self.stack = [0] * (NSTACKW + 1)      # index 1..NSTACKW
        self.ptrs = {}                        # location -> Ptr   (entry)
        self.rv = 0
        self.fp = 0
        self.st0 = None                       # 10 bytes
        self.rvptr = None                     # Ptr for a string return value
        self.tag = ""

    def set_loc(self, loc, v):
        if loc[0] == "reg":
            self.regs[loc[1]] = v & M64
        elif loc[0] == "xmm":
            self.xmm[loc[1]] = v & M64
        elif loc[0] == "stack":
            self.stack[loc[1]] = v & M64

    def get_loc(self, loc, nbytes=8):
        if loc[0] == "reg":
            return self.regs[loc[1]]
        if loc[0] == "xmm":
            return self.xmm[loc[1]]
        if loc[0] == "stack":
            b = b"".join(struct.pack("<Q", w) for w in self.stack[loc[1]:loc[1] + 3])
            return int.from_bytes(b[:max(nbytes, 8)], "little")
        return 0


def all_ptrs(c):
    out = list(c.ptrs.values())
    if c.rvptr is not None:
        out.append(c.rvptr)
    res = []
    for p in out:
        res.append(p)
        if p.kind == "obj" and p.inner is not None:
            res.append(p.inner)
    return res


def resolve(c, lay):
    """store the pointer values into the registers / stack words"""
    for loc, p in c.ptrs.items():
        c.set_loc(loc, lay.addr(p))
    if c.rvptr is not None:
        c.rv = lay.addr(c.rvptr)


def script_for(c, lay, t0):
    """driver ops for one call (entry at t0, exit at t0 + 5), with `depth` outer frames of f0"""
    s = []
    for p in all_ptrs(c):
        if p.kind == "str":
            s.append("STR %d %s" % (p.slot, p.data.hex() or "-"))
        elif p.kind == "wall":
            s.append("STRW %d %s" % (p.slot, p.data.hex() or "-"))
        elif p.kind in READABLE:
            s.append("STRAT %x %s" % (lay.addr(p), p.data.hex() or "-"))
    for p in all_ptrs(c):
        if p.kind == "obj":
            s.append("OBJ %d %x" % (p.slot, lay.addr(p.inner) if p.inner is not None else 0))
    for k in range(6):
        s.append("R %d %x" % (k, c.regs[k]))
    for k in range(8):
        s.append("XMM %d %x" % (k, c.xmm[k]))
    for k in range(1, NSTACKW + 1):
        if c.stack[k] or c.prev_stack[k]:
            s.append("SW %d %x" % (k, c.stack[k]))
    s.append("RV %x" % c.rv)
    s.append("FP %x" % c.fp)
    if c.st0 is not None:
        s.append("ST0 %s" % c.st0.hex())
    s.append("FILL %02x" % FILL)
    for d in range(c.depth):
        s.append("T %d" % (t0 + d))
        s.append("E 0")
    s.append("T %d" % (t0 + c.depth))
    s.append("E %d" % c.fn)
    s.append("T %d" % (t0 + c.depth + 5))
    s.append("X")
    for d in range(c.depth):
        s.append("T %d" % (t0 + c.depth + 6 + d))
        s.append("X")
    return s


def machine_tokens(c, lay, ret):
    strs, objs = [], []
    for p in all_ptrs(c):
        if p.kind in READABLE:
            strs.append("%x:%s" % (lay.addr(p), p.data.hex() or "-"))
        elif p.kind == "obj":
            objs.append("%x:%x" % (lay.addr(p), lay.addr(p.inner) if p.inner is not None else 0))
    t = ["r=" + ",".join("%x" % v for v in c.regs), "x=" + ",".join("%x" % v for v in c.xmm),
         "s=" + ",".join("%x" % v for v in c.stack[1:] + [0, 0]),
         "rv=%x" % c.rv, "fp=%x" % c.fp]
    if c.st0 is not None:
        t.append("st0=%x" % int.from_bytes(c.st0, "little"))
    if strs:
        t.append("str=" + ";".join(strs))
    if objs:
        t.append("obj=" + ";".join(objs))
    t.append("reg=" + ";".join("%x:%x" % r for r in lay.regions()))
    return " ".join(t)


# ---------------------------------------------------------------------------------------------
# the property as Python predicates (independent of the Lean model)
# ---------------------------------------------------------------------------------------------
def expected_string(p, lay):
    """what the reader must end up with for a char* argument: bytes, or None for NULL"""
    if p.kind == "null":
        return None
    if p.kind in UNREADABLE:
        # the property: shown as an address, never dereferenced
        return ("<0x%x>" % lay.addr(p)).encode()
    if p.kind == "obj":
        if p.inner is None:
            return None
        return expected_string(p.inner, lay)
    s = p.data
    return s if len(s) <= 97 else s[:95] + b"..."


def expected_values(specs, c, lay, ret):
    """list of ('int', size, value) | ('str', bytes|None) | ('struct', size) per selected spec"""
    out = []
    for sp in specs:
        if sp.is_ret() != ret:
            continue
        idx, fmt, size, ty, loc, sregs = sp.model()
        if fmt in ("s", "S"):
            if ret:
                p = c.rvptr
            else:
                p = c.ptrs.get(location(sp))
            out.append(("str", expected_string(p, lay) if p is not None else b"?"))
        elif fmt == "t":
            out.append(("struct", size))
        else:
            if ret:
                if fmt == "f":
                    v = int.from_bytes(c.st0, "little") if size == 10 else c.fp
                else:
                    v = c.rv
            else:
                v = c.get_loc(location(sp), size)
            out.append(("int", size, v & ((1 << (8 * size)) - 1)))
    return out


def py_decode(specs, ret, payload):
    """independent reader: framing as utils/fstack.c read_task_arg documents it (2-byte length for
    strings, every value padded to 4 relative to the start of the payload)"""
    out, off = [], 0
    for sp in specs:
        if sp.is_ret() != ret:
            continue
        idx, fmt, size, ty, loc, sregs = sp.model()
        if size == 0:
            out.append(("struct", 0))
            continue
        if fmt in ("s", "S"):
            if off + 2 > len(payload):
                return None, off
            n = payload[off] | payload[off + 1] << 8
            body = payload[off + 2: off + 2 + n]
            if len(body) < n:
                return None, off
            out.append(("str", bytes(body)))
            off += align4(n + 2)
        elif fmt == "t":
            out.append(("struct", size))
            off += align4(size)
        else:
            if off + size > len(payload):
                return None, off
            out.append(("int", size, int.from_bytes(payload[off:off + size], "little")))
            off += align4(size)
    return out, off


def values_match(exp, got):
    """None = fine, else text.  A NULL string is only required to be *some* string here; that it is
    distinguishable from every real string is monitor M3."""
    if got is None or len(exp) != len(got):
        return "payload cannot be decoded with the specs"
    for i, (e, g) in enumerate(zip(exp, got)):
        if e[0] == "str":
            if g[0] != "str":
                return "value %d: not a string" % i
            if e[1] is not None and e[1] != g[1]:
                return "value %d: string %r captured as %r" % (i, e[1][:40], g[1][:40])
        elif e != g:
            return "value %d: passed %r captured %r" % (i, e, g)
    return None


def cfmt_int(fmt, size, v):
    """text of an integer value as the user asked for it (cmds/replay.c conventions)"""
    bits = 8 * size
    v &= (1 << bits) - 1
    sv = v - (1 << bits) if v >> (bits - 1) else v
    if fmt == "i":
        return "%d" % sv
    if fmt == "u":
        return "%#x" % v if v > 100000 else "%d" % v
    if fmt == "x":
        return "%#x" % v if v else "0"
    if fmt == "o":
        return "0%o" % v if v else "0"
    if fmt == "p":
        return "%#x" % v if v else "0"
    if fmt == "d":
        # zero-extended to a long; big magnitudes in hex, except "small negative 32-bit" values
        if v > 100000:
            if 0xffff0000 < v <= 0xffffffff:
                return "%d" % (v - (1 << 32))
            if size == 8 and v >> 63 and (1 << 64) - v <= 100000:
                return "%d" % (v - (1 << 64))
            return "%#x" % v
        return "%d" % sv
    return None


def esc(b):
    return {0: b"\\0", 8: b"\\b", 10: b"\\n"}.get(b, bytes([b]))


def cfmt_str(s, std=False):
    if s is None:
        body = b"NULL"
    else:
        c = s.split(b"\0")[0]
        hi = [i for i, b in enumerate(c) if b >= 0x80]
        raw = bool(hi) and hi[0] + 1 < len(c)
        body = b'"' + (c if raw else b"".join(esc(b) for b in c)) + b'"'
    return body + (b"s" if std else b"")


def cfmt_float(size, v):
    """None for encodings whose text is not defined here (NaN, infinities, non-canonical x87 values)"""
    if size == 4:
        x = struct.unpack("<f", struct.pack("<I", v & 0xffffffff))[0]
    elif size == 8:
        x = struct.unpack("<d", struct.pack("<Q", v & M64))[0]
    else:
        mant, e = v & M64, (v >> 64) & 0x7fff
        if not ((e == 0 and mant == 0) or (0 < e < 0x7fff and mant >> 63)):
            return None
        if e and abs(e - 16383) > 900:
            return None             # outside the range of a Python float
        x = ld80_to_float(v)
    if x != x or x in (float("inf"), float("-inf")):
        return None
    return ("%#f" % x).encode()


def ld80_to_float(v):
    mant = v & M64
    se = (v >> 64) & 0xffff
    sign = -1.0 if se >> 15 else 1.0
    e = se & 0x7fff
    if e == 0 and mant == 0:
        return sign * 0.0
    return sign * mant * 2.0 ** (e - 16383 - 63)


def float_to_ld80(x):
    """exact for doubles"""
    import math
    if x == 0:
        return (0).to_bytes(10, "little")
    m, e = math.frexp(abs(x))           # x = m * 2^e, 0.5 <= m < 1
    mant = int(m * (1 << 64))
    se = (e - 1 + 16383) | (0x8000 if x < 0 else 0)
    return (mant | se << 64).to_bytes(10, "little")


def expected_text(specs, c, lay, ret):
    """the text `uftrace replay` must show for the values the function really got"""
    ts = []
    for sp, ev in zip([s for s in specs if s.is_ret() == ret], expected_values(specs, c, lay, ret)):
        idx, fmt, size, ty, loc, sregs = sp.model()
        if ev[0] == "str":
            ts.append(cfmt_str(ev[1], fmt == "S"))
        elif ev[0] == "struct":
            ts.append(b"{...}" if size else b"{}")
        elif fmt == "c":
            ts.append(b"'" + esc(ev[2] & 0xff) + b"'")
        elif fmt == "f":
            ts.append(cfmt_float(size, ev[2]))
        else:
            ts.append(cfmt_int(fmt, size, ev[2]).encode())
    if any(t is None for t in ts):
        return None
    if ret:
        return ts[0] if ts else b""
    return b", ".join(ts)


# ---------------------------------------------------------------------------------------------
# generators
# ---------------------------------------------------------------------------------------------
BOUND_INTS = [0, 1, 2, 0x7f, 0x80, 0xff, 0x100, 0x7fff, 0x8000, 0xffff, 0x10000, 100000, 100001,
              0x7fffffff, 0x80000000, 0xffff0000, 0xffff0001, 0xffffffff, 0x100000000, (1 << 63) - 1, 1 << 63,
              M64, M64 - 99999, M64 - 100000, M64 - 100001, 0xfffffffffffffff0, 0x123456789abcdef0]


def rand_int(rng):
    r = rng.random()
    if r < 0.5:
        return rng.choice(BOUND_INTS)
    if r < 0.7:
        return rng.getrandbits(rng.choice([7, 8, 15, 16, 17, 31, 32, 33]))
    return rng.getrandbits(64)


def rand_bytes(rng, n, alphabet="any"):
    if alphabet == "ascii":
        return bytes(rng.choice(b"abcdefghijklmnopqrstuvwxyzABCDEFGHIJ0123456789 _-/.,:") for _ in range(n))
    if alphabet == "text":      # printable + the characters replay escapes + UTF-8 sequences
        out = b""
        while len(out) < n:
            r = rng.random()
            if r < 0.75:
                out += bytes([rng.randrange(32, 127)])
            elif r < 0.85:
                out += rng.choice([b"\x08", b"\t", b"\x1b", b"\\", b'"', b"'"])
            else:
                out += rng.choice(["é", "日本", "ß", "€"]).encode()
        return out[:n].rstrip(b"\xc3\xe6\xe2\xe3") if False else out[:n]
    return bytes(rng.randrange(1, 256) for _ in range(n))


def rand_ptr(rng, slots, maxlen=110, alphabet=None):
    """slots = [next free slot, a wall string is already used by this call]"""
    r = rng.random()
    slot = slots[0]
    slots[0] += 1
    if len(slots) < 2:
        slots.append(False)
    if r >= 0.92 and slots[1]:
        r = 0.5
    if "readable-only" in slots and 0.76 <= r < 0.92:
        r = 0.7
    if r >= 0.92:
        slots[1] = True
    if r < 0.66:
        n = rng.choice([0, 1, 2, 3, 4, 5, 6, 7, 8, 94, 95, 96, 97, 98, 99, 100, 110]) if rng.random() < 0.4 \
            else rng.randint(0, maxlen)
        return Ptr("str", rand_bytes(rng, min(n, maxlen), alphabet or rng.choice(["any", "ascii", "text"])), slot)
    if r < 0.76:
        return Ptr("null")
    if r < 0.82:
        return Ptr("small")
    if r < 0.88:
        return Ptr("none")
    if r < 0.92:
        return Ptr(rng.choice(["edge", "edge_last", "hole_edge", "hole_mid", "hole_last"]))
    return Ptr("wall", rand_bytes(rng, rng.randint(0, min(maxlen, 60)), "ascii"), slot)


INT_FMTS = ["d", "i", "u", "x", "o", "p"]


def rand_spec(rng, used, ret=False, allow_struct=True):
    """a random spec whose add_arg_spec key is new"""
    for _ in range(50):
        r = rng.random()
        if ret:
            r2 = rng.random()
            if r2 < 0.45:
                sp = Spec("retval", fmt=rng.choice(INT_FMTS[:5] + [None]), bits=rng.choice([None, 8, 16, 32, 64]))
                if sp.fmt is None:
                    sp.bits = None
            elif r2 < 0.6:
                sp = Spec("retval", fmt="s")
            elif r2 < 0.7:
                sp = Spec("retval", fmt="c")
            elif r2 < 0.8:
                sp = Spec("retval", fmt="p")
            elif r2 < 0.93:
                sp = Spec("retval", fmt="f", bits=rng.choice([None, 32, 64, 80]))
            else:
                sp = Spec("retval", fmt="S")
        elif r < 0.40:
            n = rng.choice([1, 2, 3, 4, 5, 6, 7, 8, 9, 12, 106, 107, 200]) if rng.random() < 0.5 else rng.randint(1, 6)
            f = rng.choice(INT_FMTS + [None])
            b = rng.choice([None, 8, 16, 32, 64]) if f not in (None, "p") else None
            loc = None
            r3 = rng.random()
            if r3 < 0.12:
                loc = ("stack", rng.randint(1, 100))
            elif r3 < 0.22:
                loc = ("reg", rng.choice(REGS))
            sp = Spec("arg", n, f, b, loc)
        elif r < 0.58:
            n = rng.choice([1, 2, 3, 4, 5, 6, 7, 8]) if rng.random() < 0.8 else rng.randint(7, 20)
            sp = Spec("arg", n, rng.choice(["s", "s", "s", "S"]),
                      loc=("stack", rng.randint(1, 100)) if rng.random() < 0.1 else None)
        elif r < 0.66:
            sp = Spec("arg", rng.randint(1, 8), "c")
        elif r < 0.86:
            n = rng.randint(1, 12)
            bits = rng.choice([None, 32, 64, 80])
            loc = None
            if bits == 80:
                # long double lives on the stack (SysV ABI); an xmm location would read 4 bytes only
                if n <= 8:
                    loc = ("stack", rng.randint(1, 99))
            elif rng.random() < 0.15:
                loc = ("stack", rng.randint(1, 99)) if rng.random() < 0.5 else ("reg", "XMM%d" % rng.randint(0, 7))
            if rng.random() < 0.3:
                sp = Spec("arg", n, "f", bits, loc)
            else:
                sp = Spec("fparg", n, None, bits, loc)
        elif allow_struct:
            r4 = rng.random()
            if r4 < 0.4:
                # at most two registers: the SysV ABI never uses more, and parse_argspec's register
                # loop only understands "%A" and "%A+B" (see the report: a third register ends the list)
                k = rng.randint(1, 2)
                regs = [rng.choice(REGS + ["XMM0", "XMM1", "XMM2"]) for _ in range(k)]
                sp = Spec("arg", rng.randint(1, 6), "t", tsize=rng.choice([8 * k, 8 * k - 4, 8 * k - 7, 4, 1]),
                          tregs=regs)
            elif r4 < 0.7:
                sp = Spec("arg", rng.randint(1, 6), "t", tsize=rng.choice([0, 1, 4, 8, 12, 16, 24, 40, 100]),
                          loc=("stack", rng.randint(1, 60)))
            else:
                sp = Spec("arg", rng.randint(1, 6), "t", tsize=rng.choice([0, 1, 3, 4, 8, 16, 64]))
        else:
            continue
        # struct passed by %stack: the copy must stay inside the words the driver provides
        if sp.fmt == "t" and sp.loc and sp.loc[0] == "stack" and sp.loc[1] * 8 + sp.tsize > 8 * (NSTACKW - 2):
            continue
        if sp.key() in used:
            continue
        used.add(sp.key())
        return sp
    return None


def reads_xmm(specs):
    for sp in specs:
        if sp.is_ret():
            continue
        if location(sp)[0] == "xmm" or any(r.startswith("XMM") for r in sp.tregs):
            return True
    return False


def fill_values(rng, specs, c, slots, alphabet=None, maxlen=110):
    """random machine state for one call, consistent with the specs' kinds"""
    if reads_xmm(specs):
        # finding C09-S2 (snprintf for an unreadable pointer clobbers xmm registers) is exercised by its
        # own process; here values fetched from xmm registers must stay predictable
        if len(slots) < 2:
            slots.append(False)
        slots.append("readable-only")
    for k in range(6):
        c.regs[k] = rand_int(rng)
    for k in range(8):
        c.xmm[k] = rand_float_bits(rng, 8)
    for k in range(1, NSTACKW + 1):
        c.stack[k] = rand_int(rng) if rng.random() < 0.5 else 0
    c.rv = rand_int(rng)
    c.fp = rand_float_bits(rng, 8)
    # (two return-value specs, a string and a float: same C09-S2 mechanism on the exit path)
    if any(sp.is_ret() and sp.model()[1] == "f" for sp in specs) and "readable-only" not in slots:
        if len(slots) < 2:
            slots.append(False)
        slots.append("readable-only")
    for sp in specs:
        idx, fmt, size, ty, loc, sregs = sp.model()
        if sp.is_ret():
            if fmt == "s":
                c.rvptr = rand_ptr(rng, slots, maxlen, alphabet)
            elif fmt == "S":
                c.rvptr = rand_obj(rng, slots, maxlen, alphabet)
            elif fmt == "f" and size == 10:
                c.st0 = float_to_ld80(rand_double(rng))
            elif fmt == "f" and size == 4:
                c.fp = rand_float_bits(rng, 4)
            continue
        l = location(sp)
        if fmt in ("s", "S") and l == ("zero",):
            c.ptrs[l] = Ptr("null")          # beyond the 100 stack words the fetcher reads: a zero
        elif fmt == "s":
            if l not in c.ptrs:
                c.ptrs[l] = rand_ptr(rng, slots, maxlen, alphabet)
        elif fmt == "S":
            if l not in c.ptrs:
                c.ptrs[l] = rand_obj(rng, slots, maxlen, alphabet)
        elif fmt == "f" and l[0] != "zero" and l not in c.ptrs:
            if size == 10 and l[0] == "stack":
                b = float_to_ld80(rand_double(rng)) + b"\0" * 6
                c.stack[l[1]] = int.from_bytes(b[:8], "little")
                if l[1] + 1 <= NSTACKW:
                    c.stack[l[1] + 1] = int.from_bytes(b[8:16], "little")
            else:
                c.set_loc(l, rand_float_bits(rng, size))


def rand_obj(rng, slots, maxlen, alphabet):
    r = rng.random()
    if r < 0.1:
        return Ptr("null")
    if r < 0.2 and "readable-only" not in slots:
        return Ptr("small")
    slot = slots[0]
    slots[0] += 1
    inner = rand_ptr(rng, slots, maxlen, alphabet)
    if inner.kind == "wall":
        inner = Ptr("null")
    return Ptr("obj", slot=slot, inner=None if inner.kind == "null" else inner)


def rand_double(rng):
    return rng.choice([0.0, 1.0, -1.0, 0.5, 3.141592653589793, -2.5e10, 1e-3, 123456.789, 65536.0, -0.0, 1e15])


def rand_float_bits(rng, size):
    x = rand_double(rng) if rng.random() < 0.8 else rng.uniform(-1e6, 1e6)
    if size == 4:
        return struct.unpack("<I", struct.pack("<f", x))[0]
    return struct.unpack("<Q", struct.pack("<d", x))[0]


class Proc:
    """one process of the H1 driver: spec table + calls"""
    def __init__(self, name):
        self.name = name
        self.fns = {}          # k -> [Spec]
        self.calls = []

    def env(self):
        a, r = [], []
        for k, specs in sorted(self.fns.items()):
            at = [s.text() for s in specs if not s.is_ret()]
            rt = [s.text() for s in specs if s.is_ret()]
            if at:
                a.append("^f%d$@%s" % (k, ",".join(at)))
            if rt:
                r.append("^f%d$@%s" % (k, ",".join(rt)))
        e = {"UFTRACE_BUFFER": "4194304", "UFTRACE_MAX_STACK": "8", "UFTRACE_PATTERN": "regex"}
        if a:
            e["UFTRACE_ARGUMENT"] = ";".join(a)
        if r:
            e["UFTRACE_RETVAL"] = ";".join(r)
        return e


def gen_sweep_strings(rng):
    """every string length 0..110, at both payload alignments modulo 8, as argument and return value"""
    p = Proc("string-lengths")
    p.fns[1] = [Spec("arg", 1, "s"), Spec("retval", fmt="s")]
    p.fns[2] = [Spec("arg", 1, "i", 32), Spec("arg", 2, "s"), Spec("arg", 3, "x", 64)]
    p.fns[3] = [Spec("arg", 1, "s"), Spec("arg", 2, "s"), Spec("arg", 3, "c"), Spec("arg", 4, "s")]
    p.fns[4] = [Spec("arg", 2, "S"), Spec("retval", fmt="S")]
    slots = [0]
    for n in range(0, 111):
        alpha = ["any", "ascii", "text"][n % 3]
        c = Call(1)
        fill_values(rng, [], c, slots)
        c.ptrs[("reg", 0)] = Ptr("str", rand_bytes(rng, n, alpha), 0)
        c.rvptr = Ptr("str", rand_bytes(rng, 110 - n, alpha), 1)
        c.tag = "len=%d" % n
        p.calls.append(c)
        if n % 3 == 0 or 92 <= n <= 100:
            c = Call(2, depth=n % 3)
            fill_values(rng, [], c, slots)
            c.ptrs[("reg", 1)] = Ptr("wall" if n % 2 and n < 60 else "str", rand_bytes(rng, n, "ascii"), 2)
            p.calls.append(c)
            c = Call(3)
            fill_values(rng, [], c, slots)
            c.ptrs[("reg", 0)] = Ptr("str", rand_bytes(rng, n, alpha), 3)
            c.ptrs[("reg", 1)] = Ptr("str", rand_bytes(rng, (n * 7) % 111, alpha), 4)
            c.ptrs[("reg", 3)] = Ptr("str", rand_bytes(rng, (n * 13) % 111, "any"), 5)
            p.calls.append(c)
            c = Call(4)
            fill_values(rng, [], c, slots)
            c.ptrs[("reg", 1)] = Ptr("obj", slot=0, inner=Ptr("str", rand_bytes(rng, n, alpha), 6))
            c.rvptr = Ptr("obj", slot=1, inner=Ptr("str", rand_bytes(rng, (n + 50) % 111, alpha), 7))
            p.calls.append(c)
    return p


def gen_null_cases(rng):
    """NULL / "NULL" / unreadable pointers for every string position"""
    p = Proc("null-and-unreadable")
    p.fns[1] = [Spec("arg", 1, "s")]
    p.fns[2] = [Spec("arg", 1, "s"), Spec("arg", 2, "s"), Spec("retval", fmt="s")]
    p.fns[3] = [Spec("arg", 1, "S"), Spec("retval", fmt="S")]
    p.fns[4] = [Spec("arg", 7, "s"), Spec("arg", 1, "p")]
    kinds = [Ptr("null"), Ptr("str", b"NULL", 0), Ptr("small"), Ptr("none"), Ptr("str", b"\xff\xff\xff\xff", 1),
             Ptr("str", b"", 2), Ptr("str", b"<0x10>", 3), Ptr("wall", b"edge", 4)]
    for a in kinds:
        c = Call(1)
        fill_values(rng, [], c, [10])
        c.ptrs[("reg", 0)] = a
        c.tag = "f(%s)" % (a.kind if a.kind != "str" else repr(a.data))
        p.calls.append(c)
        for b in kinds[:4]:
            c = Call(2)
            fill_values(rng, [], c, [10])
            c.ptrs[("reg", 0)] = a
            c.ptrs[("reg", 1)] = Ptr(b.kind, b.data, b.slot + 8)
            c.rvptr = Ptr(a.kind, a.data, a.slot + 16)
            p.calls.append(c)
        c = Call(4)
        fill_values(rng, [], c, [10])
        c.ptrs[("stack", 1)] = a
        p.calls.append(c)
    for inner in [None, Ptr("str", b"NULL", 5), Ptr("small"), Ptr("none"), Ptr("str", b"std", 6)]:
        c = Call(3)
        fill_values(rng, [], c, [10])
        c.ptrs[("reg", 0)] = Ptr("obj", slot=0, inner=inner)
        c.rvptr = Ptr("obj", slot=1, inner=inner if inner is None else Ptr(inner.kind, inner.data, inner.slot + 20))
        p.calls.append(c)
    for k in ("null", "small", "none"):
        c = Call(3)
        fill_values(rng, [], c, [10])
        c.ptrs[("reg", 0)] = Ptr(k)
        c.rvptr = Ptr(k)
        p.calls.append(c)
    return p


def gen_capacity(rng, lo, hi):
    """a pre-fill of P bytes (P = lo, lo+4, … < hi) followed by a string whose length goes through
    the boundary of the 1024-byte slice; and integers only"""
    p = Proc("capacity-%d" % lo)
    k = 1
    for P in range(lo, hi, 4):
        if k >= NF:
            break
        p.fns[k] = [Spec("arg", 1, "t", tsize=P), Spec("arg", 2, "s"), Spec("retval", fmt="s")]
        room = 1020 - P
        for n in sorted(set([max(room - 40, 0), max(room - 4, 0), max(room - 3, 0), max(room - 2, 0),
                             max(room - 1, 0), room, room + 1, room + 2, room + 30])):
            if n > 140:
                continue
            c = Call(k, depth=rng.choice([0, 0, 1, 7]))
            fill_values(rng, [], c, [0])
            c.ptrs[("reg", 1)] = Ptr("str" if n % 2 else "str", rand_bytes(rng, n, "ascii"), 0)
            c.rvptr = Ptr("null") if n % 3 == 0 else Ptr("str", rand_bytes(rng, n % 50, "ascii"), 1)
            c.tag = "prefill=%d len=%d" % (P, n)
            p.calls.append(c)
        # NULL at the very end of the slice
        c = Call(k)
        fill_values(rng, [], c, [0])
        c.ptrs[("reg", 1)] = Ptr("null")
        c.rvptr = Ptr("small")
        c.tag = "prefill=%d NULL" % P
        p.calls.append(c)
        k += 1
    return p


def gen_many_ints(rng):
    """more integer arguments than fit (nothing checks the total while they are stored)"""
    p = Proc("many-ints")
    for k, n in ((1, 126), (2, 127), (3, 128), (4, 129), (5, 140)):
        p.fns[k] = [Spec("arg", i) for i in range(1, n + 1)]
        c = Call(k)
        fill_values(rng, [], c, [0])
        c.tag = "%d 64-bit arguments" % n
        p.calls.append(c)
    p.fns[6] = [Spec("arg", i, "i", 32) for i in range(1, 256)] + [Spec("arg", 300, "s", loc=("reg", "RDI"))]
    c = Call(6)
    fill_values(rng, [], c, [0])
    c.ptrs[("reg", 0)] = Ptr("str", b"x", 0)
    p.calls.append(c)
    # structs whose register copies exceed their size, at the end of the slice
    p.fns[7] = [Spec("arg", 1, "t", tsize=1004), Spec("arg", 2, "t", tsize=16, tregs=["RDI", "RSI"])]
    p.fns[8] = [Spec("arg", 1, "t", tsize=1016), Spec("arg", 2, "t", tsize=1)]
    p.fns[9] = [Spec("arg", 1, "t", tsize=1008), Spec("arg", 2, "t", tsize=12, tregs=["RDX", "XMM1"])]
    for k in (7, 8, 9):
        c = Call(k)
        fill_values(rng, [], c, [0])
        p.calls.append(c)
    return p


def gen_xmm(rng):
    """floating-point arguments next to string arguments of every pointer kind: the captured floats must
    be the passed ones and the hook must leave xmm0..7 (the traced function's own arguments) alone"""
    p = Proc("xmm-next-to-strings")
    p.fns[1] = [Spec("arg", 1, "s"), Spec("fparg", 1), Spec("fparg", 2, None, 32), Spec("arg", 3, "f", None,
                                                                                         ("reg", "XMM5"))]
    p.fns[2] = [Spec("fparg", 1), Spec("arg", 1, "s"), Spec("fparg", 8), Spec("arg", 2, "s"), Spec("fparg", 3, None, 32)]
    p.fns[3] = [Spec("arg", 1, "t", tsize=1100), Spec("fparg", 1)]          # too big: "argument data is too big"
    kinds = [Ptr("str", b"readable", 0), Ptr("null"), Ptr("small"), Ptr("none"), Ptr("wall", b"w", 1)]
    for a in kinds:
        for fn in (1, 2):
            c = Call(fn, depth=0)
            fill_values(rng, [], c, [8])
            c.ptrs[("reg", 0)] = a
            c.ptrs[("reg", 1)] = Ptr("str", b"second", 2) if a.kind != "none" else Ptr("small")
            c.tag = "string argument: %s" % a.kind
            c.no_model = a.kind in UNREADABLE
            p.calls.append(c)
    c = Call(3)
    fill_values(rng, [], c, [8])
    c.tag = "too big"
    p.calls.append(c)
    return p


def gen_boundaries(rng, lay):
    """string pointers at the boundaries of mappings: the verdict must be `readable iff the first byte lies
    in a mapped readable region [start, end)`, and an unreadable pointer must never be dereferenced"""
    p = Proc("mapping-boundaries")
    p.fns[1] = [Spec("arg", 1, "s")]
    p.fns[2] = [Spec("arg", 2, "s"), Spec("arg", 1, "i", 32), Spec("retval", fmt="s")]
    p.fns[3] = [Spec("arg", 1, "S"), Spec("retval", fmt="S")]
    p.fns[4] = [Spec("arg", 7, "s"), Spec("arg", 1, "s", loc=("stack", 2))]
    readable = [("wall", b""), ("wall", b"x"), ("wall", rand_bytes(rng, 97, "ascii")), ("wall", rand_bytes(rng, 110, "ascii")),
                ("after", b""), ("after", b"first byte of a mapping"), ("after", rand_bytes(rng, 105, "ascii"))]
    unreadable = ["edge", "edge_last", "none", "small"]
    if lay.hole:
        readable += [("hole_before", b""), ("hole_before", b"last bytes"), ("hole_before", rand_bytes(rng, 99, "ascii")),
                     ("hole_after", b""), ("hole_after", b"after the hole")]
        unreadable += ["hole_edge", "hole_mid", "hole_last"]
    kinds = [Ptr(k, d, 0) for k, d in readable] + [Ptr(k) for k in unreadable]
    for a in kinds:
        c = Call(1, depth=rng.choice([0, 1]))
        fill_values(rng, [], c, [8])
        c.ptrs[("reg", 0)] = a
        c.tag = "f(%s%s)" % (a.kind, " len=%d" % len(a.data) if a.kind in READABLE else "")
        p.calls.append(c)
        c = Call(2)
        fill_values(rng, [], c, [8])
        c.ptrs[("reg", 1)] = a
        c.rvptr = Ptr(a.kind, a.data, a.slot)
        c.tag = "g(1, %s) = %s" % (a.kind, a.kind)
        p.calls.append(c)
        c = Call(3)
        fill_values(rng, [], c, [8])
        c.ptrs[("reg", 0)] = Ptr("obj", slot=0, inner=a)
        c.rvptr = Ptr("obj", slot=1, inner=Ptr(a.kind, a.data, a.slot))
        c.tag = "std::string with data pointer %s" % a.kind
        p.calls.append(c)
        if a.kind in UNREADABLE:
            c = Call(3)
            fill_values(rng, [], c, [8])
            c.ptrs[("reg", 0)] = a
            c.rvptr = Ptr(a.kind)
            c.tag = "std::string object at %s" % a.kind
            p.calls.append(c)
        c = Call(4)
        fill_values(rng, [], c, [8])
        c.ptrs[("stack", 1)] = a
        c.ptrs[("stack", 2)] = Ptr("str", b"other", 3)
        c.tag = "stack argument %s" % a.kind
        p.calls.append(c)
    return p


def gen_random(rng, i, ncalls):
    p = Proc("random-%d" % i)
    for k in range(1, NF):
        used = set()
        specs = []
        n = rng.choice([1, 1, 2, 2, 3, 4, 5, 8, 12])
        for _ in range(n):
            sp = rand_spec(rng, used)
            if sp:
                specs.append(sp)
        if rng.random() < 0.6:
            sp = rand_spec(rng, used, ret=True)
            if sp:
                specs.append(sp)
            if rng.random() < 0.1:
                sp = rand_spec(rng, used, ret=True)
                if sp:
                    specs.append(sp)
        # one location must not be read both as char* and as std::string
        seen, keep = {}, []
        for sp in specs:
            f = sp.model()[1]
            if f in ("s", "S") and not sp.is_ret():
                l = location(sp)
                if seen.setdefault(l, f) != f:
                    continue
            keep.append(sp)
        p.fns[k] = keep
    for _ in range(ncalls):
        k = rng.randint(1, NF - 1)
        c = Call(k, depth=rng.choice([0, 0, 0, 1, 2, 7]))
        fill_values(rng, p.fns[k], c, [0])
        p.calls.append(c)
    return p


# ---------------------------------------------------------------------------------------------
# running
# ---------------------------------------------------------------------------------------------
def hdr(time, typ, more, depth, addr):
    w = typ | (4 if more else 0) | 5 << 3 | (depth & 0x3ff) << 6 | addr << 16
    return struct.pack("<QQ", time, w & M64)


def cleanup_shm(r):
    """libmcount pre-allocates a second shared-memory buffer that is never announced: remove it too"""
    for typ, payload in r["msgs"]:
        if typ == "REC_START":
            name = payload.decode(errors="replace").rstrip("\0")
            if name.startswith("/uftrace-") and name.endswith("-000"):
                for f in glob.glob("/dev/shm" + name[:-3] + "*"):
                    try:
                        os.unlink(f)
                    except OSError:
                        pass


def run_proc(ctx, exe, lay, p, idx):
    script = list(getattr(p, "pre_ops", []))
    npre = len(script)
    t = 1000
    prev = [0] * (NSTACKW + 1)
    for c in p.calls:
        resolve(c, lay)
        c.prev_stack = prev
        c.t0 = t
        c.lines = script_for(c, lay, t)
        c.first_op = len(script)
        script += c.lines
        prev = c.stack
        t += 100
    script.append("END")
    r = h1.run(ctx, exe, p.env(), script, idx, timeout=120)
    cleanup_shm(r)
    p.raw = r
    out = r["lines"]
    p.crash = None
    for l in out:
        m = re.match(r"(\d+) CRASH sig=(\d+)", l)
        if m:
            opno = int(m.group(1))
            owner = [i for i, c in enumerate(p.calls) if c.first_op < opno <= c.first_op + len(c.lines)]
            p.crash = (owner[0] if owner else None, int(m.group(2)), script[opno - 1] if opno <= len(script) else "?")
    if p.crash or not out or not out[0].startswith("SYMS ") or out[0] != lay.raw or len(out) != len(script) + 1:
        p.failed = "rc=%s lines=%d/%d stderr=%s first=%s" % (r["rc"], len(out), len(script) + 1, r["stderr"][-300:],
                                                             out[0][:80] if out else "")
        return p
    p.failed = None
    p.pre_out = out[1:1 + npre]
    for c in p.calls:
        ls = out[1 + c.first_op: 1 + c.first_op + len(c.lines)]
        # the call's own E is the last E of its block, its X the first X
        ei = max(i for i, s in enumerate(c.lines) if s.startswith("E "))
        xi = min(i for i, s in enumerate(c.lines) if s == "X")
        c.impl_e, c.impl_x = ls[ei], ls[xi]
        c.impl_recs = "".join(re.search(r"recs=(\S+)", l).group(1).replace("-", "") for l in ls if "recs=" in l)
    return p


def kv(line):
    return dict(x.split("=", 1) for x in line.split() if "=" in x)


def model_lines(p, lay, fx):
    ls = ["FIX %d %d" % fx]
    for k, specs in sorted(p.fns.items()):
        ls.append("FN %d %s" % (k, " ".join(s.token() for s in specs)))
    for c in p.calls:
        ls.append("FILL %02x" % FILL)
        ls.append("E %d %s" % (c.fn, machine_tokens(c, lay, False)))
        ls.append("X %d %s" % (c.fn, machine_tokens(c, lay, True)))
    return ls


def maxsize(fx):
    return 988 if fx[1] else 1020


def compare_proc(p, lay, fx, mout):
    """-> list of (call index, what) where the implementation differs from the model variant fx;
    also stores the model's answers on the calls (c.m[fx])"""
    diffs = []
    nf = len(p.fns)
    for i, c in enumerate(p.calls):
        me, mx = kv(mout[1 + nf + 3 * i + 1]), kv(mout[1 + nf + 3 * i + 2])
        c.m = getattr(c, "m", {})
        c.m[fx] = (me, mx)
        ie, ix = kv(c.impl_e), kv(c.impl_x)
        if getattr(c, "no_model", False):
            continue
        specs = p.fns.get(c.fn, [])
        has_a = any(not s.is_ret() for s in specs)
        has_r = any(s.is_ret() for s in specs)
        # entry
        exp_flag = 1 if has_a and int(me["total"]) <= maxsize(fx) else 0
        if int(ie.get("arg", -1)) != exp_flag:
            diffs.append((i, "argument flag impl=%s model=%d" % (ie.get("arg"), exp_flag)))
        elif exp_flag and int(ie["sz"]) != int(me["total"]):
            diffs.append((i, "argument size impl=%s model=%s" % (ie["sz"], me["total"])))
        exp_mem = me["mem"] if has_a else "-"
        if ie.get("mem") != exp_mem:
            diffs.append((i, "slice after the entry differs (first at byte %d)" % first_diff(ie.get("mem"), exp_mem)))
        # exit
        exp_flag = 1 if has_r and int(mx["total"]) <= maxsize(fx) else 0
        if int(ix.get("rvf", -1)) != exp_flag:
            diffs.append((i, "retval flag impl=%s model=%d" % (ix.get("rvf"), exp_flag)))
        elif exp_flag and int(ix["sz"]) != int(mx["total"]):
            diffs.append((i, "retval size impl=%s model=%s" % (ix["sz"], mx["total"])))
        exp_mem = mx["mem"] if has_r else exp_mem
        if ix.get("mem") != exp_mem:
            diffs.append((i, "slice after the exit differs (first at byte %d)" % first_diff(ix.get("mem"), exp_mem)))
    return diffs


def first_diff(a, b):
    a = "" if a in (None, "-") else a
    b = "" if b in (None, "-") else b
    n = 0
    while n < min(len(a), len(b)) and a[n] == b[n]:
        n += 1
    return 4 + n // 2


def expected_records(p, c, lay, fx):
    """(time, type, depth, addr, payload hex|none) of the records the call's block must emit"""
    me, mx = c.m[fx]
    specs = p.fns.get(c.fn, [])
    has_a = any(not s.is_ret() for s in specs)
    has_r = any(s.is_ret() for s in specs)
    recs = []
    for d in range(c.depth):
        recs.append((c.t0 + d, 0, d, lay.funcs[0], "none"))
    pa = me["pay"] if has_a and int(me["total"]) <= maxsize(fx) else "none"
    pr = mx["pay"] if has_r and int(mx["total"]) <= maxsize(fx) else "none"
    recs.append((c.t0 + c.depth, 0, c.depth, lay.funcs[c.fn], pa))
    recs.append((c.t0 + c.depth + 5, 1, c.depth, lay.funcs[c.fn], pr))
    for d in range(c.depth):
        dd = c.depth - 1 - d
        recs.append((c.t0 + c.depth + 6 + d, 1, dd, lay.funcs[0], "none"))
    return recs


def hexpay(h):
    return b"" if h in ("-", "none") else bytes.fromhex(h)


def py_record(time, typ, depth, addr, pay):
    if pay == "none":
        return hdr(time, typ, False, depth, addr)
    b = hexpay(pay)
    return hdr(time, typ, True, depth, addr) + b + b"\0" * ((-len(b)) % 8)


def py_decode_stream(p, lay, data):
    """independent framing reader over a whole record stream -> [(time,type,depth,addr,payload|None)] or error"""
    byaddr = {lay.funcs[k]: specs for k, specs in p.fns.items()}
    out, off = [], 0
    while off < len(data):
        if off + 16 > len(data):
            return None, "truncated header at %d" % off
        t, w = struct.unpack_from("<QQ", data, off)
        off += 16
        typ, more, magic, depth, addr = w & 3, (w >> 2) & 1, (w >> 3) & 7, (w >> 6) & 0x3ff, w >> 16
        if magic != 5:
            return None, "bad magic at %d" % (off - 16)
        pay = None
        if more:
            specs = byaddr.get(addr, [])
            vals, n = py_decode(specs, typ == 1, data[off:])
            if vals is None:
                return None, "payload of record at %d cannot be read" % (off - 16)
            pay = bytes(data[off:off + n])
            off += n + ((-n) % 8)
        out.append((t, typ, depth, addr, pay))
    return out, None


# ---------------------------------------------------------------------------------------------
# H3
# ---------------------------------------------------------------------------------------------
def info_with_specs(dd, argspec, retspec, ptype="regex", argauto=""):
    b = bytearray(dd.info_bytes())
    mask = struct.unpack_from("<Q", b, 24)[0] | (1 << 10)
    struct.pack_into("<Q", b, 24, mask)
    feat = struct.unpack_from("<Q", b, 16)[0] | (1 << 3) | (1 << 4)
    struct.pack_into("<Q", b, 16, feat)
    head, text = bytes(b[:40]), bytes(b[40:])
    lines = text.split(b"\n")
    out = []
    for l in lines:
        out.append(l)
        if l.startswith(b"loadinfo:"):
            n = (1 if argspec else 0) + (1 if retspec else 0)
            out.append(b"argspec:lines=%d" % (n + 3))
            if argspec:
                out.append(b"argspec:" + argspec.encode())
            if retspec:
                out.append(b"retspec:" + retspec.encode())
            out += [b"argauto:" + argauto.encode(), b"retauto:", b"enumauto:"]
    if ptype != "regex":
        out = [b"pattern_type:" + ptype.encode() if l.startswith(b"pattern_type:") else l for l in out]
    return head + b"\n".join(out)


REPLAY_LINE = re.compile(rb"^\s*(?:[\d.]+ (?:ns|us|ms| s| m)\s*)?\[\s*\d+\] \| ( *)(.*)$")


# ---------------------------------------------------------------------------------------------
def run(ctx):
    ok, problems = C.prove(ctx, "C09")
    if not ok:
        C.violation(ctx, "proof", {"kind": "proof-obligation-broken", "problems": problems}, True)
        return C.finish(ctx)
    ctx.snapshot()
    thorough = ctx.tier == "thorough"
    kf = {f["id"]: f for f in C.known_findings("C09")}
    global SS, MRF
    SS = _load_specsrc()
    MRF = _load_memregion()
    AGF = _load_memregion("c09_agent")

    exe, log = h1.build(ctx, "normal", driver="h1_c09_driver.c", out="h1c09")
    if not exe:
        C.violation(ctx, "build", {"kind": "harness-build-failed", "log": log[-3000:]}, True)
        return C.finish(ctx)
    with ThreadPoolExecutor(2) as ex:
        fut_make = ex.submit(ctx.make)
        probes = [h1.run(ctx, exe, {"UFTRACE_MAX_STACK": "8"}, ["END"], 9000 + i) for i in range(2)]
        for pr in probes:
            cleanup_shm(pr)
        if any(not pr["lines"] or not pr["lines"][0].startswith("SYMS ") for pr in probes) or \
                probes[0]["lines"][0] != probes[1]["lines"][0]:
            C.violation(ctx, "harness", {"kind": "harness-failed", "what": "driver addresses are not stable",
                                         "probe": [pr["lines"][:1] + [pr["stderr"][-300:]] for pr in probes]}, True)
            return C.finish(ctx)
        lay = Layout(probes[0]["lines"][0])

        rng = ctx.rng
        procs = [gen_sweep_strings(rng), gen_null_cases(rng), gen_many_ints(rng), gen_xmm(rng), gen_boundaries(rng, lay)]
        for lo in ((880, 1000, 1120) if not thorough else (0, 120, 240, 360, 480, 600, 720, 840, 880, 1000, 1120)):
            procs.append(gen_capacity(rng, lo, lo + 124))
        nrand = 10 if not thorough else 150
        for i in range(nrand):
            procs.append(gen_random(rng, i, 60 if not thorough else 120))
        # spec sources: corpus first, then generated option sets, then one probe per open-finding shape
        src_procs = [SS.directed_src_proc(rng, n, cs) for n, cs in SS.directed_src_cases()]
        for i in range(6 if not thorough else 60):
            src_procs.append(SS.gen_src_proc(rng, i, 40 if not thorough else 80, "glob" if i % 5 == 4 else "regex"))
        src_procs += SS.probe_src_procs(rng)
        for p in src_procs:
            st = p.case.strings()
            p.pre_ops = ["XTA %s %s %s" % (SS.hexs(st["T"]), SS.hexs(st["A"]), SS.hexs(st["R"]))]
        procs += src_procs
        # H4 tie of the agent's deep copy (c09_deep_copy_preserves_spec_order): every process copies the trigger tree
        # libmcount built from its option set and prints both trees
        for p in procs:
            p.pre_ops = list(getattr(p, "pre_ops", [])) + ["DCOPY"]
        with ThreadPoolExecutor(12) as ex2:
            list(ex2.map(lambda ip: run_proc(ctx, exe, lay, ip[1], ip[0]), enumerate(procs)))
        # the readable-region cache against a changing address space (own rng stream: the families above keep
        # the cases they had before this family existed)
        import random as _random
        _saved_rng = ctx.rng
        ctx.rng = _random.Random("c09-memregion-%d" % ctx.seed)
        try:
            mr_cov = MRF.run_family(ctx, exe, kf, thorough)
            made_ok, make_log = fut_make.result()
            mr_cov["e2e"] = MRF.run_e2e(ctx, made_ok, thorough)
            ctx.rng = _random.Random("c09-agent-%d" % ctx.seed)
            agent_cov = AGF.run_family(ctx, made_ok, thorough)
        finally:
            ctx.rng = _saved_rng

    # M6: the traced program must survive whatever pointer it passes ("an unreadable string pointer is shown
    # as an address instead of faulting the traced program")
    crashed = 0
    for p in [p for p in procs if p.failed]:
        if p.crash and p.crash[0] is not None:
            ci, sig, op = p.crash
            c = p.calls[ci]
            crashed += 1
            C.violation(ctx, "crash-%s-%d" % (p.name, ci), {
                "kind": "property-violated-on-implementation",
                "what": "the traced program received signal %d inside the %s hook (%s)"
                        % (sig, "exit" if op == "X" else "entry", c.tag or "f%d" % c.fn),
                "proc": p.name, "call": ci, "tag": c.tag, "fn": "f%d" % c.fn,
                "specs": [s.text() for s in p.fns.get(c.fn, [])],
                "pointers": [{"kind": pt.kind, "addr": "%#x" % lay.addr(pt),
                              "mapped_readable": any(a <= lay.addr(pt) < b for a, b in lay.regions())}
                             for pt in all_ptrs(c)],
                "readable_regions": ["%#x-%#x" % r for r in lay.regions()],
                "env": {k: v for k, v in p.env().items() if len(v) < 600}, "driver_script": c.lines[:80],
                "theorem": "c09_unreadable_never_read (the verdict must be: readable iff start <= p < end of a mapped "
                           "readable region)"})
        else:
            C.violation(ctx, "harness-" + p.name, {"kind": "implementation-crashed-or-harness-failed", "proc": p.name,
                                                    "what": p.failed, "env": p.env(),
                                                    "calls": [c.tag for c in p.calls][:20]}, no_failing_input=True)
    procs = [p for p in procs if not p.failed]
    if not procs:
        return C.finish(ctx)
    dcopy = {"trees": 0, "filters": 0, "lists_with_2_or_more_specs": 0, "differ": 0}
    for p in procs:
        dk = kv(p.pre_out[-1]) if getattr(p, "pre_out", None) else {}
        if "orig" not in dk:
            continue
        dcopy["trees"] += 1
        fl = [f for f in dk["orig"].split(";") if f and f != "-"]
        dcopy["filters"] += len(fl)
        dcopy["lists_with_2_or_more_specs"] += sum(1 for f in fl if "," in f)
        if dk["orig"] != dk.get("copy") or dk.get("pargs") != "1" or len({*dk.get("counts", "0/0:0/0").split(":")[0].split("/")}) != 1:
            dcopy["differ"] += 1
            if dcopy["differ"] <= 3:
                of, cf = dk["orig"].split(";"), dk.get("copy", "").split(";")
                bad = [(a, b) for a, b in zip(of, cf) if a != b][:3]
                C.violation(ctx, "dcopy-" + p.name, {
                    "kind": "property-violated-on-implementation",
                    "what": "uftrace_deep_copy_triggers (what the libmcount agent installs after `uftrace live -p PID ...`) "
                            "does not return the same tree: after an agent update the writer lays the payload out by the "
                            "copied lists, the readers by the info file",
                    "env": {k: v for k, v in p.env().items() if len(v) < 1500},
                    "first_differing_filters (start-end:flags:depth[idx/fmt/size/exact/type/reg-or-ofs/regcnt/type name,...])":
                        [{"original": a, "copy": b} for a, b in bad],
                    "pargs_point_to_own_list": dk.get("pargs"), "counts": dk.get("counts"),
                    "theorem": "c09_deep_copy_preserves_spec_order / c09_deep_copy_tree"})

    # ---- model, all four variants -------------------------------------------------------------
    # the variants are tried in turn (today's expected one first); the remaining ones are only run for the
    # diagnosis when none reproduces the implementation
    variants = [(0, 1), (1, 1), (0, 0), (1, 0)]

    def model_run(fx):
        with ThreadPoolExecutor(8) as exm:
            outs = list(exm.map(lambda p: run_model(model_lines(p, lay, fx)), procs))
        return {p.name: o for p, o in zip(procs, outs)}
    mres, diffs = {}, {}
    for fx in variants:
        mres[fx] = model_run(fx)
        d = []
        for p in procs:
            d += [(p, i, w) for i, w in compare_proc(p, lay, fx, mres[fx][p.name])]
        diffs[fx] = d
        if not d:
            break
    variants = [fx for fx in variants if fx in diffs]
    matching = [fx for fx in variants if not diffs[fx]]
    ncalls = sum(len(p.calls) for p in procs)
    best = matching[0] if matching else min(variants, key=lambda fx: len(diffs[fx]))

    # ---- records: byte-exact stream per call, against recordBytes ------------------------------
    rec_lines, rec_index = [], []
    for p in procs:
        for i, c in enumerate(p.calls):
            er = expected_records(p, c, lay, best)
            c.exp_recs = er
            rec_index.append((p, i, len(rec_lines), len(er)))
            for (t, ty, d, a, pay) in er:
                rec_lines.append("REC %d %d %d %x %s" % (t, ty, d, a, pay))
    rec_out = run_model(rec_lines)
    rec_diffs = []
    for p, i, a, n in rec_index:
        c = p.calls[i]
        exp = "".join(x for x in rec_out[a:a + n])
        if exp != c.impl_recs and not getattr(c, "no_model", False):
            rec_diffs.append((p, i, "record bytes differ from recordBytes"))
        c.model_recs = exp

    # ---- monitors on the implementation's output ------------------------------------------------
    mon = {"values": [], "bounds": [], "null": [], "framing": [], "xmm": []}
    distinct = set()
    n_str_lens = set()
    for p in procs:
        stream = b""
        exp_stream = []
        for i, c in enumerate(p.calls):
            specs = p.fns.get(c.fn, [])
            ie, ix = kv(c.impl_e), kv(c.impl_x)
            distinct.add((tuple(s.token() for s in specs), c.impl_e.split(" ", 1)[1], c.impl_x.split(" ", 1)[1]))
            for pt in all_ptrs(c):
                if pt.kind in READABLE:
                    n_str_lens.add(len(pt.data))
            # M5 the hook must not change the traced function's floating-point argument registers
            if int(ie.get("xc", "0"), 16):
                mon["xmm"].append((p, i, "xmm registers %s changed across the entry hook"
                                   % [k for k in range(8) if int(ie["xc"], 16) >> k & 1]))
            # M2 bounds: nothing beyond offset 1024 of the frame's slice may change
            for which, d in (("entry", ie), ("exit", ix)):
                m = d.get("mem", "-")
                if m != "-" and len(m) // 2 > lay.argbuf_size - 4:
                    mon["bounds"].append((p, i, "%s: bytes up to offset %d of a %d-byte slice were written"
                                          % (which, 4 + len(m) // 2, lay.argbuf_size)))
            # M1 values
            data = bytes.fromhex(c.impl_recs)
            recs, err = py_decode_stream(p, lay, data)
            if recs is None:
                mon["framing"].append((p, i, err))
                continue
            own = [r for r in recs if r[3] == lay.funcs[c.fn] and r[2] == c.depth]
            if len(own) != 2 or own[0][1] != 0 or own[1][1] != 1:
                mon["framing"].append((p, i, "the call did not produce exactly one ENTRY and one EXIT record"))
                continue
            want = [(t, ty, d, a) for (t, ty, d, a, _) in c.exp_recs]
            if [(r[0], r[1], r[2], r[3]) for r in recs] != want:
                mon["framing"].append((p, i, "records (time, type, depth, address) are not the executed calls"))
            for ret, r in ((False, own[0]), (True, own[1])):
                if r[4] is None:
                    continue        # dropped (too big): allowed, checked against the model
                got, _ = py_decode(specs, ret, r[4])
                bad = values_match(expected_values(specs, c, lay, ret), got)
                if bad:
                    mon["values"].append((p, i, ("retval: " if ret else "arguments: ") + bad))
            stream += data
        # M4 framing of the whole process stream
        recs, err = py_decode_stream(p, lay, stream)
        if recs is None:
            mon["framing"].append((p, None, "whole stream: " + err))
    # M3 NULL distinguishable: the same function called with NULL and with a real string must not
    # produce the same payload
    pn = ([p for p in procs if p.name == "null-and-unreadable"] + [None])[0]
    entry_pay = {}
    for i, c in enumerate(pn.calls if pn else []):
        if c.fn != 1:
            continue
        recs, _ = py_decode_stream(pn, lay, bytes.fromhex(c.impl_recs))
        if recs:
            entry_pay[c.tag] = (i, recs[0][4])
    if "f(null)" in entry_pay and entry_pay["f(null)"][1] is not None:
        nullv = py_decode(pn.fns[1], False, entry_pay["f(null)"][1])[0]
        for tag, (i, pay) in entry_pay.items():
            # (the bytes ff ff ff ff are the on-disk marker itself: hypothesis of c09_null_distinguishable)
            if tag not in ("f(null)", "f(%r)" % b"\xff\xff\xff\xff") and pay is not None and \
                    py_decode(pn.fns[1], False, pay)[0] == nullv:
                mon["null"].append((pn, i, "f(NULL) and %s are recorded as the same value %r"
                                    % (tag, nullv)))

    # ---- H3: model payloads read by the real replay ----------------------------------------------
    h3 = run_h3(ctx, procs, lay, best, made_ok, make_log, thorough)
    h5 = run_h5(ctx, made_ok)
    src = run_src(ctx, [p for p in procs if isinstance(p, SS.SrcProc)], lay, best, made_ok, make_log, thorough)

    # ---- verdict ----------------------------------------------------------------------------------
    def describe(p, i):
        if i is None:
            return {"proc": p.name, "env": p.env()}
        c = p.calls[i]
        return {"proc": p.name, "call": i, "tag": c.tag, "fn": "f%d" % c.fn, "depth": c.depth,
                "specs": [s.text() for s in p.fns.get(c.fn, [])],
                "env": {k: v for k, v in p.env().items() if len(v) < 600},
                "driver_script": c.lines if len(c.lines) < 60 else c.lines[:60],
                "impl_entry": c.impl_e[:600], "impl_exit": c.impl_x[:600]}

    reported = 0
    # spec sources: violations that are not one of the characterised findings first
    src_v = sorted(src["violations"], key=lambda v: bool(v[2]))
    seen_groups = {}
    for v in src_v:
        g = "info" if "-info-" in v[0] else v[0].split("-")[0]
        seen_groups[g] = seen_groups.get(g, 0) + 1
        if seen_groups[g] <= (1 if g == "info" else 2):
            C.violation(ctx, v[0], v[1], no_failing_input=v[2])
    src["violation_groups"] = seen_groups
    f6_present = best[0] == 0 and bool(matching)
    s1_present = best[1] == 0 and bool(matching)

    if not matching:
        # no variant of the model reproduces the implementation
        mon_any = [v for v in mon["values"] if not any(v[0] is q and v[1] == j for (q, j, _) in mon["xmm"])] \
            or mon["framing"]
        for (p, i, w) in diffs[best][:3]:
            d = describe(p, i)
            d.update({"kind": "model-code-disagreement", "what": w, "closest_model_variant": list(best),
                      "model_entry": str(p.calls[i].m[best][0])[:600], "model_exit": str(p.calls[i].m[best][1])[:600],
                      "theorem": "correspondence of save_to_argbuf / fetchers with Uft.Argbuf.packRun/fetch"})
            C.violation(ctx, "corr-%s-%d" % (p.name, i), d, no_failing_input=not mon_any)
            reported += 1
    for (p, i, w) in rec_diffs[:2]:
        d = describe(p, i)
        d.update({"kind": "model-code-disagreement", "what": w, "impl_records": p.calls[i].impl_recs[:800],
                  "model_records": p.calls[i].model_recs[:800], "theorem": "c09_framing_preserved (recordBytes)"})
        C.violation(ctx, "rec-%s-%d" % (p.name, i), d, no_failing_input=not mon["framing"])
        reported += 1
    # C09-S2: libc calls made with the traced function's xmm registers live
    xmm_calls = {(p.name, i) for (p, i, w) in mon["xmm"]}
    val_other = [v for v in mon["values"] if (v[0].name, v[1]) not in xmm_calls]
    if mon["xmm"]:
        p, i, w = mon["xmm"][0]
        unread = sum(1 for (q, j, _) in mon["xmm"] if any(pt.kind in UNREADABLE for pt in all_ptrs(q.calls[j])))
        other = [(q, j, w2) for (q, j, w2) in mon["xmm"]
                 if not any(pt.kind in UNREADABLE for pt in all_ptrs(q.calls[j]))
                 and kv(q.calls[j].impl_e).get("arg") == "1"]
        for (q, j, w2) in other[:2]:
            d = describe(q, j)
            d.update({"kind": "property-violated-on-implementation", "theorem": "C01 register preservation",
                      "what": w2 + " although every string pointer was readable and the data fitted"})
            C.violation(ctx, "xmm-%s-%d" % (q.name, j), d)
        what = ("; ".join(["end to end: " + x for x in h5["s2"]] + [""]) if h5["s2"] else "") + \
               ("C09-S2 save_to_argbuf calls snprintf (unreadable string pointer) and save_argument calls pr_warn "
                "(data too big) while the traced function's floating-point argument registers are live: %d calls "
                "returned from the entry hook with changed xmm registers (%d with an unreadable pointer, the others "
                "too big); %d later floating-point arguments were captured wrongly (first: %s %s: %s)"
                % (len(mon["xmm"]), unread, len(mon["values"]) - len(val_other), p.name, p.calls[i].tag, w))
        if "C09-S2" in kf:
            C.known(ctx, kf["C09-S2"], what)
        else:
            d = describe(p, i)
            d.update({"kind": "property-violated-on-implementation", "what": what, "finding": "C09-S2",
                      "theorem": "c09_parse_pack (values fetched from xmm registers) / C01 register preservation"})
            C.violation(ctx, "S2-xmm", d)
    for (p, i, w) in (val_other + mon["framing"])[:3]:
        d = describe(p, i)
        d.update({"kind": "property-violated-on-implementation", "what": w, "theorem": "c09_parse_pack"})
        C.violation(ctx, "mon-%s-%s" % (p.name, i), d)
        reported += 1
    # F6
    if mon["null"]:
        p, i, w = mon["null"][0]
        w = w + "".join("; end to end: " + x for x in h5["f6"])
        if f6_present and "F6" in kf:
            C.known(ctx, kf["F6"], "F6 a NULL string argument is recorded as the characters \"NULL\" "
                                   "(replayed as f(\"NULL\")); implementation matches the pre-fix model; " + w)
        else:
            d = describe(p, i)
            d.update({"kind": "property-violated-on-implementation", "what": w, "finding": "F6",
                      "matches_prefix_model": f6_present, "theorem": "c09_null_distinguishable",
                      "witness": "c09_prefix_null_witness"})
            C.violation(ctx, "F6-null", d)
    elif f6_present:
        C.violation(ctx, "F6-model", {"kind": "model-code-disagreement", "what": "implementation matches the "
                                      "pre-fix NULL model but the monitor saw no collision"}, True)
    # S1
    if mon["bounds"]:
        # show the most telling case first: data that was accepted although a byte beyond the slice was written
        acc = [b for b in mon["bounds"] if b[0].calls[b[1]].tag.startswith("prefill=") and
               kv(b[0].calls[b[1]].impl_e).get("arg") == "1"]
        p, i, w = (acc or mon["bounds"])[0]
        if acc:
            w += " and the data was recorded (size field %s)" % kv(p.calls[i].impl_e).get("sz")
        if s1_present and "S1" in kf:
            C.known(ctx, kf["S1"], "S1 save_to_argbuf stores values before checking the total size: %d calls wrote "
                                   "beyond their 1024-byte slice (first: %s %s: %s); implementation matches the "
                                   "pre-fix model" % (len(mon["bounds"]), p.name, p.calls[i].tag, w))
        else:
            d = describe(p, i)
            d.update({"kind": "property-violated-on-implementation", "what": w, "finding": "S1",
                      "calls_out_of_bounds": len(mon["bounds"]), "matches_prefix_model": s1_present,
                      "theorem": "c09_pack_in_bounds", "witness": "c09_prefix_oob_witness"})
            C.violation(ctx, "S1-bounds", d)
    elif s1_present:
        C.violation(ctx, "S1-model", {"kind": "model-code-disagreement", "what": "implementation matches the "
                                      "pre-fix bounds model but no call left its slice"}, True)
    for v in h3["violations"][:3]:
        C.violation(ctx, v[0], v[1], no_failing_input=v[2])
    h5_left = list(h5["other"])
    if h5["f6"] and not mon["null"]:
        h5_left += h5["f6"]
    if h5["s2"] and not mon["xmm"]:
        h5_left += h5["s2"]
    if h5_left:
        C.violation(ctx, "h5", {"kind": "property-violated-on-implementation", "what": h5_left,
                                "program": "harness/c09_h5.c", "options": H5_OPTS, "replay": h5.get("replay"),
                                "native_stdout": h5.get("native_stdout"), "traced_stdout": h5.get("traced_stdout"),
                                "theorem": "c09_parse_pack"})

    # C09-DUMPF80: the raw dump of a long double
    f80 = list(h3["dump_f80"]) + list((src["h3"] or {}).get("dump_f80") or [])
    e80 = h5.get("dumpf80") or {}
    if f80 or e80.get("present"):
        probe = (0x3fffa000000000000000).to_bytes(12, "little").hex()
        mo = run_model(["DUMPRAW 0 10 " + probe, "DUMPRAW 1 10 " + probe])
        what = ("C09-DUMPF80 `uftrace dump` copies a 10-byte long double into an 8-byte temporary (cmds/dump.c pr_args / "
                "pr_retval: memcpy(&val, ptr, spec->size) with long long val): 2 bytes are written past the variable and the "
                "value is printed without sign and exponent. Shape: an argument or return value spec of size 10 (fparg/80, "
                "retval/f80) read by `uftrace dump`. %d values in the synthesized directories (first: %s)%s; model: "
                "as it is %s, repaired %s (witness c09_prefix_dump_f80_witness)"
                % (h3["dump_f80_count"] + (src["h3"] or {}).get("dump_f80_count", 0), "; ".join(f80[:2]) or "-",
                   "; end to end: ld(1.25L, 4) = 5.0L is dumped as %s, passed %s" % (e80.get("shown"), e80.get("passed"))
                   if e80.get("present") else "", mo[0], mo[1]))
        if "C09-DUMPF80" in kf:
            C.known(ctx, kf["C09-DUMPF80"], what)
        else:
            C.violation(ctx, "C09-DUMPF80", {"kind": "property-violated-on-implementation", "finding": "C09-DUMPF80",
                                             "what": what, "synthesized": f80, "end_to_end": e80,
                                             "options": H5_OPTS, "program": "harness/c09_h5.c",
                                             "proposed_fix": "/verif/proposed_fixes/C09-DUMPF80.diff",
                                             "theorem": "c09_dump_raw_exact", "status": "not listed in known_findings.json"})
    # the characterised spec-source findings last (KNOWN-FINDING once they are listed as open)
    for fid in sorted(src["findings"]):
        fo = src["findings"][fid]
        what = "%s %s. Shape: %s. Probe `%s`: %s%s (implementation matches the pre-fix model, witness %s)" % (
            fid, SS.FINDINGS[fid], SS.SHAPES[fid], " ".join(fo["options"]), "; ".join(fo["h3"][:2]),
            "".join("; end to end (`%s`): %s" % (" ".join(fo.get("h5_options", [])), e) for e in fo["h5"][:2]),
            {"C09-TRIGRET": "c09_prefix_trigger_retval_witness", "C09-TRIGAUTO": "c09_prefix_trigger_auto_witness",
             "C09-OLDFMT": "c09_prefix_oldfmt_witness"}[fid])
        if fid in kf:
            C.known(ctx, kf[fid], what)
        else:
            C.violation(ctx, fid, {"kind": "property-violated-on-implementation", "finding": fid, "what": what,
                                   "shape": SS.SHAPES[fid], "options": fo["options"], "replay_of_probe": fo["h3"],
                                   "end_to_end": fo["h5"], "end_to_end_options": fo.get("h5_options"),
                                   "proposed_fix": "/verif/proposed_fixes/%s.diff" % fid,
                                   "theorem": "c09_spec_lists_agree", "status": "not listed in known_findings.json"})
    samples = []
    for p in procs[:2] + procs[-1:]:
        c = p.calls[len(p.calls) // 2]
        samples.append({"proc": p.name, "specs": [s.text() for s in p.fns.get(c.fn, [])], "tag": c.tag,
                        "impl_exit": c.impl_x[:200], "records": c.impl_recs[:160]})
    ctx.coverage.update({
        "evaluations": 2 * ncalls + h3["calls"] + (len(H5_EXPECT) if h5["ran"] else 0) + (src["h3"] or {}).get("calls", 0)
        + (src["h5"] or {}).get("values", 0),
        "distinct_nontrivial": len(distinct),
        "rule": "H1: per process a table of up to 31 functions with spec lists; per call a full machine state "
                "(6 integer registers, 8 xmm, 110 stack words, return value, xmm0/st0 at exit, string pointers: "
                "readable / NULL / 0x10 / PROT_NONE / ending at a page wall / std::string objects; mapping boundaries: last "
                "byte of a mapping, first byte of a mapping, exactly the end address of a mapping followed by a PROT_NONE "
                "page or by an unmapped hole). Systematic: every "
                "string length 0..110 as argument and return value at both alignments mod 8; pre-fills 880..1020 step 4 "
                "x string lengths through the slice boundary; 126..255 integer arguments; NULL/\"NULL\"/unreadable grid; "
                "then random spec lists x random boundary values. distinct = distinct (spec list, slice after entry, "
                "slice after exit) triples. H3: model payloads -> data directory -> uftrace replay text. "
                "Spec sources: option sets over -T / -A / -R (2-5 items per target function from random sources, each item a "
                "plain name or a regex / glob pattern that may cover other functions, 1-3 specs per item, 45% of them a "
                "re-specification of an argument the function already has, retval actions in -T, actions the option ignores) "
                "-> H1 (libmcount's payload = model pack with the model's writer list; extract_trigger_args = model info "
                "strings), H3 (info file with the real strings, payloads laid out by the writer's list, real replay), H5 "
                "(generated program logging its own arguments x directed + random option sets + --auto-args; replay, dump, "
                "dump --chrome, python and lua script compared value by value with the program's log). Functions whose "
                "lists the model says differ in the tree as it is (open-finding shapes) are left out of H3 and probed by "
                "directed cases.",
        "h1_processes": len(procs), "h1_calls": ncalls, "string_lengths_covered": len(n_str_lens),
        "model_variants_matching": [list(x) for x in matching],
        "model_code_disagreements": {str(list(fx)): len(diffs[fx]) for fx in variants},
        "record_byte_disagreements": len(rec_diffs),
        "monitor_failures": {k: len(v) for k, v in mon.items()},
        "traced_program_crashes": crashed,
        "calls_out_of_bounds": len(mon["bounds"]),
        "h3": {k: v for k, v in h3.items() if k != "violations"},
        "h5": h5,
        "memregion": mr_cov,
        "agent": agent_cov,
        "deep_copy_tie": dcopy,
        "spec_sources": {k: v for k, v in src.items() if k != "violations"},
        "exhaustive": False,
        "samples": samples,
    })
    ctx.assumptions += [
        "x86-64 SysV: integer arguments in rdi..r9 then stack words, floating point in xmm0..7 (low 64 bits)",
        "a string pointer accepted by check_mem_region points to a NUL-terminated string whose first 99 bytes "
        "(or all bytes up to the NUL) are readable",
        "check_mem_region: the Argbuf model uses the specified verdict (readable iff the first byte lies in a mapped readable "
        "region [start, end)) for the string pools, the pages around a PROT_NONE page and around an unmapped hole; the cache "
        "as coded (Uft.MemRegion) is stepped against the real check_mem_region over address-space histories in the mr family. "
        "Kept out of the random histories (they fault the traced program with the code as it is): a cached region that was "
        "unmapped (C09-STALE, directed + guarded), the slack behind the program break (C09-S3, directed), strings running into "
        "an unreadable page (C09-PAGECROSS), the 8 MB slack below the stack; VMAs of one arena slot always start at the slot "
        "base (no nested cache entries)",
        "agent family: the update is taken as installed 1 s after the client returned (a slower agent makes the case pass "
        "vacuously, never fail)",
        "H3 compares the default `uftrace replay` text (no colour, no JSON); floats are rendered by Python's %f",
        "spec sources: pattern matching (regexec / fnmatch / strcmp) is evaluated by Python's re / fnmatch / == on the check "
        "side and enters the model as the set of matched functions; the auto-args table / DWARF is an opaque function of the "
        "model (the same on both sides); H5 programs are built with -O0 (narrow integer parameters are only compared on "
        "their own width); module qualifiers (@libname) and kernel functions are not generated",
    ]
    return C.finish(ctx)


def run_h3(ctx, procs, lay, fx, made_ok, make_log, thorough, chosen=None, prefix="h3"):
    """chosen: explicit list of processes (spec-source family); a process may carry info_specs() (the strings of its
    info file), h3_skip (functions left out) and probe (a finding id: mismatches are evidence, not violations)"""
    res = {"calls": 0, "text_mismatch_model": 0, "text_mismatch_expected": 0, "violations": [], "probes": {}, "skipped_calls": 0,
           "dump_values": 0, "dump_mismatch": 0, "dump_f80": [], "dump_f80_count": 0}
    if not made_ok:
        res["violations"].append(("h3-build", {"kind": "harness-build-failed", "log": make_log[-2000:]}, True))
        return res
    uft = os.path.join(ctx.src, "uftrace")
    if not os.path.exists(uft):
        res["violations"].append(("h3-build", {"kind": "harness-build-failed", "what": "no uftrace binary after make",
                                               "log": make_log[-2000:]}, True))
        return res
    # choose processes: string sweep, null cases, randoms
    if chosen is None:
        chosen = [p for p in procs if p.name in ("string-lengths", "null-and-unreadable") or p.name.startswith("random-")]
        if not thorough:
            chosen = chosen[:6]
    tid = 4242

    def probe_note(p, text):
        pr = res["probes"].setdefault(p.probe, {"present": False, "evidence": []})
        pr["present"] = True
        if len(pr["evidence"]) < 3:
            pr["evidence"].append(text)

    def one(ip):
        i, p = ip
        syms = [(0x1000 + 0x40 * k, 0x40, "f%d" % k) for k in range(NF)]
        recs, expect = [], []
        t = 10000
        for ci, c in enumerate(p.calls):
            specs = p.fns.get(c.fn, [])
            if any(s.model()[1] == "e" for s in specs):
                continue
            if c.fn in getattr(p, "h3_skip", ()):
                res["skipped_calls"] += 1
                continue
            has_a = any(not s.is_ret() for s in specs)
            has_r = any(s.is_ret() for s in specs)
            me, mx = c.m[fx]
            pa = hexpay(me["pay"]) if has_a and me["pay"] != "none" and int(me["total"]) <= maxsize(fx) else None
            pr = hexpay(mx["pay"]) if has_r and mx["pay"] != "none" and int(mx["total"]) <= maxsize(fx) else None
            et = expected_text(specs, c, lay, False) if pa is not None else b""
            rt = expected_text(specs, c, lay, True) if pr is not None else None
            if et is None or (pr is not None and rt is None):
                continue
            # replay formats into a 1024-byte buffer; longer texts are C15's business
            if len(et) > 700 or b"\n" in et or (rt is not None and (b"\n" in rt or len(rt) > 700)):
                continue
            # pointers that resolve to symbols of the synthetic program are printed as &name
            addr = datadir.BASE + 0x1000 + 0x40 * c.fn
            recs.append(datadir.Rec(t, "E", 0, addr, pa or b"", more=pa is not None))
            recs.append(datadir.Rec(t + 7, "X", 0, addr, pr or b"", more=pr is not None))
            expect.append((ci, c, pa, pr, et, rt))
            t += 20
        if not recs:
            return p, [], None, ""
        dd = datadir.DataDir(syms, [datadir.Task(tid, recs)])
        d = os.path.join(ctx.scratch, "%s-%d" % (prefix, i))
        e = p.env()
        if hasattr(p, "info_specs"):
            ia, ir, pt, aa = p.info_specs()
            dd.write(d, overrides={"info": info_with_specs(dd, ia, ir, pt, aa)})
        else:
            dd.write(d, overrides={"info": info_with_specs(dd, e.get("UFTRACE_ARGUMENT"), e.get("UFTRACE_RETVAL"))})
        env = dict(os.environ)
        env.pop("UFTRACE_DIR", None)
        try:
            r = subprocess.run([uft, "replay", "-d", d, "--no-pager", "--color=no"], stdout=subprocess.PIPE,
                               stderr=subprocess.PIPE, timeout=60, env=env)
            if not getattr(p, "probe", None):
                r2 = subprocess.run([uft, "dump", "-d", d, "--no-pager"], stdout=subprocess.PIPE,
                                    stderr=subprocess.PIPE, timeout=60, env=env)
                p.h3_dump = (r2.returncode, r2.stdout, r2.stderr)
            return p, expect, r.returncode, (r.stdout, r.stderr)
        except subprocess.TimeoutExpired:
            return p, expect, -999, (b"", b"TIMEOUT")

    with ThreadPoolExecutor(8) as ex:
        outs = list(ex.map(one, enumerate(chosen)))
    parse_lines, parse_idx = [], []
    for p, expect, rc, out in outs:
        if not expect:
            continue
        if getattr(p, "probe", None):
            res["probes"].setdefault(p.probe, {"present": False, "evidence": []})
        if rc != 0 and getattr(p, "probe", None):
            probe_note(p, "uftrace replay fails (rc=%s): %s" % (rc, out[1][-200:].decode("utf-8", "replace")))
            continue
        if rc != 0:
            res["violations"].append(("h3-replay-" + p.name, {
                "kind": "implementation-failed", "what": "uftrace replay failed on a directory written by the model",
                "rc": rc, "stderr": out[1][-600:].decode("utf-8", "replace"), "env": p.env()}, True))
            continue
        lines = []
        for l in out[0].split(b"\n"):
            m = REPLAY_LINE.match(l)
            if m and not l.startswith(b"#"):
                lines.append(m.group(2))
        p.h3_lines = lines
        p.h3_expect = expect
        if len(lines) != len(expect) and getattr(p, "probe", None):
            probe_note(p, "replay shows %d calls for %d recorded calls: %s" % (
                len(lines), len(expect), " / ".join(l.decode("utf-8", "replace")[:80] for l in lines[:4])))
            continue
        if len(lines) != len(expect):
            res["violations"].append(("h3-lines-" + p.name, {
                **getattr(p, "h3_extra", {}),
                "kind": "property-violated-on-implementation",
                "what": "replay printed %d calls for %d recorded calls (framing lost)" % (len(lines), len(expect)),
                "env": p.env(), "stdout_tail": out[0][-800:].decode("utf-8", "replace"),
                "theorem": "c09_framing_preserved"}, False))
            continue
        pl = ["FIX %d %d" % fx] + ["FN %d %s" % (k, " ".join(s.token() for s in specs))
                                   for k, specs in sorted(p.fns.items())]
        for (ci, c, pa, pr, et, rt) in expect:
            pl.append("PARSE %d E %s" % (c.fn, ((pa or b"") + b"\0" * ((-len(pa or b"")) % 8) + b"\xee\xee").hex()))
            pl.append("PARSE %d X %s" % (c.fn, ((pr or b"") + b"\0" * ((-len(pr or b"")) % 8) + b"\xee\xee").hex()))
        mo = run_model(pl)[1 + len(p.fns):]
        for j, (ci, c, pa, pr, et, rt) in enumerate(expect):
            res["calls"] += 1
            got = lines[j]
            specs = p.fns.get(c.fn, [])
            ka, kx = kv(mo[2 * j]), kv(mo[2 * j + 1])
            has_float = any(s.model()[1] == "f" for s in specs)
            # model text (floats are not rendered by the model: use the expected text there)
            if has_float:
                mt_a, mt_r = et, rt
            else:
                mt_a = hexpay(ka.get("text", "-")) if pa is not None else b""
                mt_r = hexpay(kx.get("text", "-")) if pr is not None else None
            framing_ok = (pa is None or ka.get("rest") == "2") and (pr is None or kx.get("rest") == "2")
            ptrs = all_ptrs(c)
            nullish = any(pt.kind == "null" or (pt.kind == "obj" and pt.inner is None) for pt in ptrs)
            # the four bytes ff ff ff ff are the on-disk NULL marker itself (hypothesis of c09_null_distinguishable)
            marker = any(pt.kind in READABLE and pt.data == b"\xff\xff\xff\xff" for pt in ptrs)
            skip_expected = (nullish and fx[0] == 0) or marker
            if has_float and skip_expected:
                continue

            def line_of(a, r):
                return b"f%d(" % c.fn + a + b")" + (b" = " + r if r is not None else b"") + b";"
            if getattr(p, "probe", None):
                if got != line_of(et, rt):
                    probe_note(p, "replay shows %s, the call was %s" % (got.decode("utf-8", "replace")[:120],
                                                                         line_of(et, rt).decode("utf-8", "replace")[:120]))
                continue
            if got != line_of(mt_a, mt_r) or not framing_ok:
                res["text_mismatch_model"] += 1
                if res["text_mismatch_model"] <= 2:
                    res["violations"].append(("h3-model-%s-%d" % (p.name, ci), {
                        **getattr(p, "h3_extra", {}),
                        "kind": "model-code-disagreement", "what": "replay text differs from the model's rendering",
                        "specs": [s.text() for s in specs], "replay": got.decode("utf-8", "replace")[:500],
                        "model": line_of(mt_a, mt_r).decode("utf-8", "replace")[:500],
                        "payload_args": (pa or b"").hex(), "payload_ret": (pr or b"").hex(),
                        "theorem": "correspondence of read_task_args / get_argspec_string with readArgs/decodeVals/renderVal"},
                        got == line_of(et, rt)))
            # monitor: the text of the values that were really passed (NULL is checked by M3 / F6)
            if got != line_of(et, rt):
                if skip_expected:
                    continue
                res["text_mismatch_expected"] += 1
                if res["text_mismatch_expected"] <= 2:
                    res["violations"].append(("h3-text-%s-%d" % (p.name, ci), {
                        **getattr(p, "h3_extra", {}),
                        "kind": "property-violated-on-implementation",
                        "what": "replay does not show the values the function received",
                        "specs": [s.text() for s in specs], "replay": got.decode("utf-8", "replace")[:500],
                        "expected": line_of(et, rt).decode("utf-8", "replace")[:500], "tag": c.tag,
                        "theorem": "c09_parse_pack"}, False))
    # ---- the raw dump of the same directories: every number / string it prints against the recorded bytes
    for p, expect, rc, out in outs:
        if not expect or rc != 0 or getattr(p, "probe", None) or not hasattr(p, "h3_dump"):
            continue
        drc, dout, derr = p.h3_dump
        if drc != 0:
            res["violations"].append(("h3-dump-" + p.name, {
                **getattr(p, "h3_extra", {}), "kind": "implementation-failed", "what": "uftrace dump failed on a directory "
                "that replay reads", "rc": drc, "stderr": derr[-500:].decode("utf-8", "replace"), "env": p.env()}, True))
            continue
        calls = SS.parse_dump_calls(dout, {"f%d" % k for k in range(NF)})
        if len(calls) != len(expect):
            res["dump_mismatch"] += 1
            if res["dump_mismatch"] <= 2:
                res["violations"].append(("h3-dump-lines-" + p.name, {
                    **getattr(p, "h3_extra", {}), "kind": "property-violated-on-implementation", "env": p.env(),
                    "what": "dump shows %d calls for %d recorded calls" % (len(calls), len(expect)),
                    "theorem": "c09_framing_preserved"}, False))
            continue
        for (ci, c, pa, pr, et, rt), (nm, da, dr) in zip(expect, calls):
            specs = p.fns.get(c.fn, [])
            for ret, pay, got in ((False, pa, da), (True, pr, dr)):
                if pay is None:
                    continue
                vals, _ = py_decode(specs, ret, pay)
                sel_specs = [sp for sp in specs if sp.is_ret() == ret]
                if vals is None or len(got) != len(vals):
                    res["dump_mismatch"] += 1
                    if res["dump_mismatch"] <= 2:
                        res["violations"].append(("h3-dump-count-%s-%d" % (p.name, ci), {
                            **getattr(p, "h3_extra", {}), "kind": "property-violated-on-implementation",
                            "what": "dump shows %d %s for %d recorded" % (len(got), "return values" if ret else "arguments",
                                                                            len(vals or [])),
                            "specs": [sp.text() for sp in specs], "dump": repr(got)[:400], "theorem": "c09_parse_pack"}, False))
                    continue
                for k2, (sp, v, g) in enumerate(zip(sel_specs, vals, got)):
                    idx, fmt, size, ty, loc, sregs = sp.model()
                    if v[0] == "struct" or g[0] == "other":
                        continue
                    if v[0] == "str" and b"\n" in v[1].split(b"\0")[0]:
                        continue        # printed over several lines: not parsed back here
                    res["dump_values"] += 1
                    if v[0] == "str":
                        exp = b"NULL" if v[1] == b"\xff\xff\xff\xff" else v[1].split(b"\0")[0]
                        ok = g[0] == "str" and g[1] == exp
                    else:
                        ok = g[0] == "int" and g[2] == v[2] and (g[1] == 8 * size or fmt == "p")
                    if ok:
                        continue
                    if v[0] == "int" and size > 8 and g[0] == "int" and g[2] == v[2] & M64:
                        res["dump_f80_count"] += 1
                        if len(res["dump_f80"]) < 3:
                            res["dump_f80"].append("%s: %s recorded as %#x, dump shows %#x" % (
                                sp.text(), "return value" if ret else "argument %d" % (k2 + 1), v[2], g[2]))
                        continue
                    res["dump_mismatch"] += 1
                    if res["dump_mismatch"] <= 2:
                        res["violations"].append(("h3-dump-%s-%d" % (p.name, ci), {
                            **getattr(p, "h3_extra", {}), "kind": "property-violated-on-implementation",
                            "what": "dump: %s %d: shown %r, recorded %r" % ("return value" if ret else "argument", k2 + 1, g, v),
                            "specs": [s2.text() for s2 in specs], "payload": pay.hex()[:400], "tag": c.tag,
                            "theorem": "c09_dump_raw_exact / c09_parse_pack"}, False))
    return res


def run_src(ctx, sprocs, lay, fx, made_ok, make_log, thorough):
    """spec-source family after the H1 runs: the info transformation against the model, the readers' list through
    the real replay (H3), generated programs end to end (H5); classification of the open-finding shapes"""
    res = {"procs": len(sprocs), "functions_with_specs": sum(len(p.fns) for p in sprocs), "merge_diff": 0,
           "info_mismatch": 0, "info_variant": None, "xfix": None, "violations": [], "findings": {}, "h3_probe": None,
           "h3": None, "h5": None, "skipped_functions": {}}
    if not sprocs:
        return res

    def tok(l):
        return [x.token() for x in l]
    # 1. the model's writer list against the documented merge semantics
    for p in sprocs:
        for f, (w, r, la, lr) in sorted(p.lists.items()):
            m = SS.py_merge(p.case, f)
            if m is not None and tok(m) != tok(w):
                res["merge_diff"] += 1
                if res["merge_diff"] <= 2:
                    res["violations"].append(("specsrc-merge-%s-f%d" % (p.name, f), dict(
                        p.case.describe(), kind="model-code-disagreement", function="f%d" % f,
                        what="the model's writer list differs from the documented merge semantics (py_merge)",
                        model=[x.text() for x in w], documented=[x.text() for x in m],
                        theorem="c09_spec_lists_agree (model of add_arg_spec / update_filter)"), True))
    # 2. the strings the real extract_trigger_args() returned against the model's info transformation
    common = None
    for p in sprocs:
        kvs = kv(p.pre_out[0]) if getattr(p, "pre_out", None) else {}

        def dec(h):
            return None if h in (None, "-") else bytes.fromhex(h).decode("utf-8", "replace").rstrip("\0")
        p.info_a, p.info_r = dec(kvs.get("argspec")), dec(kvs.get("retspec"))
        p.variants = SS.info_variant(p.case, p.info_a, p.info_r)
        p.h3_extra = dict(p.case.describe(), info_argspec=p.info_a, info_retspec=p.info_r)
        if not p.variants:
            res["info_mismatch"] += 1
            if res["info_mismatch"] <= 2:
                _, line = SS.model_lists(p.case, (0, 0, 0))
                ma, mr, _ = SS.parse_model_info(p.case, line)
                res["violations"].append(("specsrc-info-" + p.name, dict(
                    p.case.describe(), kind="model-code-disagreement",
                    what="extract_trigger_args() does not return the strings the model predicts (any repair variant)",
                    impl_argspec=p.info_a, impl_retspec=p.info_r,
                    model_argspec=";".join(n + ("@" + ",".join(SS.RawSpec(t).text() for t in ts) if ts else "") for n, ts in ma),
                    model_retspec=";".join(n + ("@" + ",".join(SS.RawSpec(t).text() for t in ts) if ts else "") for n, ts in mr),
                    theorem="correspondence of extract_trigger_args with Uft.Argbuf.infoArgs / infoRets "
                            "(hypothesis of c09_spec_lists_agree)"), True))
        else:
            common = set(p.variants) if common is None else common & set(p.variants)
    variant = next((v for v in SS.VARIANTS if common and v in common), (0, 0))
    res["info_variant"] = list(variant) if common else None
    if not made_ok or not os.path.exists(os.path.join(ctx.src, "uftrace")):
        return res
    # 3. the probes through the real replay: which finding shapes are really garbled
    probes = [p for p in sprocs if getattr(p, "probe", None)]
    h3p = run_h3(ctx, sprocs, lay, fx, made_ok, make_log, thorough, chosen=probes, prefix="h3p")
    res["h3_probe"] = {k: v for k, v in h3p.items() if k != "violations"}
    res["violations"] += h3p["violations"]
    present = {fid for fid, pr in h3p["probes"].items() if pr["present"]}
    for fid in present:
        res["findings"][fid] = {"h3": h3p["probes"][fid]["evidence"], "h5": [], "options":
                                next(p.case.argv() for p in probes if p.probe == fid)}
    by_info = set()
    if common:
        if variant[0] == 0:
            by_info.add("C09-TRIGRET")
        if variant[1] == 0:
            by_info.add("C09-TRIGAUTO")
        for fid in ("C09-TRIGRET", "C09-TRIGAUTO"):
            if (fid in present) != (fid in by_info):
                res["violations"].append(("specsrc-probe-" + fid, {
                    "kind": "model-code-disagreement", "finding": fid,
                    "what": "the info strings say the finding is %s, the replay of the probe says it is %s" % (
                        "present" if fid in by_info else "repaired", "present" if fid in present else "absent"),
                    "probe": h3p["probes"].get(fid), "info_variant": list(variant)}, True))
    xf = (variant[0], variant[1], 0 if "C09-OLDFMT" in present else 1)
    res["xfix"] = list(xf)
    # 4. every other process: functions whose lists the model (as the tree is) says disagree are left out
    others = [p for p in sprocs if not getattr(p, "probe", None)]
    for p in others:
        lists, _ = SS.model_lists(p.case, xf)
        p.h3_skip = {f for f, (w, r, la, lr) in lists.items() if not (la and lr)}
        if p.h3_skip:
            for fid in (p.case.shapes() or {"?"}):
                res["skipped_functions"][fid] = res["skipped_functions"].get(fid, 0) + len(p.h3_skip)
    h3 = run_h3(ctx, sprocs, lay, fx, made_ok, make_log, thorough, chosen=others, prefix="h3s")
    res["h3"] = {k: v for k, v in h3.items() if k != "violations"}
    res["violations"] += h3["violations"]
    # 5. end to end
    h5 = SS.run_h5(ctx, thorough, present)
    res["h5"] = {k: v for k, v in h5.items() if k not in ("violations", "info_mismatch")}
    res["h5"]["info_mismatch"] = len(h5["info_mismatch"])
    for m in h5["info_mismatch"][:2]:
        res["violations"].append(("h5src-info-" + m["case"], dict(
            m, kind="model-code-disagreement", theorem="correspondence of extract_trigger_args / `uftrace info` with "
            "Uft.Argbuf.infoArgs / infoRets",
            what="`uftrace info` does not show the argument / return value lines the model predicts"), True))
    res["violations"] += h5["violations"]
    for fid, pr in h5["probes"].items():
        if pr["present"]:
            f = res["findings"].setdefault(fid, {"h3": [], "h5": [], "options": pr["options"]})
            f["h5"] = pr["evidence"]
            f["h5_options"] = pr["options"]
    return res


H5_OPTS = ["-A", "mix@arg1/s,fparg1,fparg2/32,arg2/i64", "-R", "mix@retval/f", "-A", "pick@arg1/i32,arg2/s",
           "-R", "pick@retval/s", "-A", "ld@fparg1/80%stack+1,arg1/i32", "-R", "ld@retval/f80"]
H5_EXPECT = [b'mix("h\xc3\xa9llo", 1.500000, 0.250000, -3) = 0.250000;',
             b'mix(NULL, 2.500000, 0.500000, 7) = 12.500000;',
             b'mix("<0x10>", 3.500000, 0.750000, 100001) = 100008.750000;',
             b'pick(1, "NULL") = "NULL";',
             b'pick(0, "x") = NULL;',
             b'ld(1.250000, 4) = 5.000000;']


def run_h5(ctx, made_ok):
    """end to end: a -pg program under the snapshot's `uftrace record`"""
    res = {"ran": False, "f6": [], "s2": [], "other": []}
    if not made_ok:
        return res
    exe = os.path.join(ctx.scratch, "c09_h5")
    r = C.sh(["gcc", "-pg", "-O1", "-o", exe, os.path.join(C.VERIF, "harness/c09_h5.c")])
    if r.returncode != 0:
        res["other"].append("cannot build the traced program: " + r.stdout[-300:])
        return res
    uft = os.path.join(ctx.src, "uftrace")
    if not os.path.exists(uft):
        return res
    d = os.path.join(ctx.scratch, "h5-data")
    env = dict(os.environ)
    env.pop("UFTRACE_DIR", None)
    try:
        native = subprocess.run([exe], stdout=subprocess.PIPE, stderr=subprocess.PIPE, timeout=20, env=env).stdout
        rec = subprocess.run(["timeout", "40", uft, "record", "--libmcount-path=" + os.path.join(ctx.src, "libmcount"),
                              "--no-event", "--no-pager", "-d", d] + H5_OPTS + [exe],
                             stdout=subprocess.PIPE, stderr=subprocess.PIPE, timeout=60, env=env)
        rep = subprocess.run(["timeout", "20", uft, "replay", "-d", d, "--no-pager", "--color=no", "-F", "main"],
                             stdout=subprocess.PIPE, stderr=subprocess.PIPE, timeout=30, env=env)
        dmp = subprocess.run(["timeout", "20", uft, "dump", "-d", d, "--no-pager"],
                             stdout=subprocess.PIPE, stderr=subprocess.PIPE, timeout=30, env=env)
    except subprocess.TimeoutExpired:
        res["other"].append("record/replay timed out")
        return res
    res["ran"] = True
    res["native_stdout"] = native.decode("utf-8", "replace").strip()
    res["traced_stdout"] = rec.stdout.decode("utf-8", "replace").strip()
    if rec.returncode != 0 or rep.returncode != 0:
        res["other"].append("record rc=%d replay rc=%d: %s" % (rec.returncode, rep.returncode,
                                                                  (rec.stderr + rep.stderr)[-300:].decode("utf-8", "replace")))
        return res
    if rec.stdout != native:
        res["s2"].append("the traced program printed %r, without tracing %r" % (res["traced_stdout"], res["native_stdout"]))
    # raw dump of the long double argument and return value of ld(1.25L, 4) = 5.0L
    want80 = [0x3fffa000000000000000, 0x4001a000000000000000]
    if dmp.returncode != 0:
        res["other"].append("uftrace dump failed: rc=%d %s" % (dmp.returncode, dmp.stderr[-200:].decode("utf-8", "replace")))
    else:
        lds = [c for c in SS.parse_dump_calls(dmp.stdout, {"ld"})]
        shown = [t[2] for c in lds for t in (c[1][:1] + c[2][:1]) if t[0] == "int" and t[1] == 80]
        res["dumpf80"] = {"shown": ["%#x" % v for v in shown], "passed": ["%#x" % v for v in want80],
                          "present": shown != want80}
        if shown != want80 and shown != [v & M64 for v in want80]:
            res["other"].append("dump shows the long double values of ld(1.25L, 4) = 5.0L as %s" % res["dumpf80"]["shown"])
    got = []
    for l in rep.stdout.split(b"\n"):
        m = REPLAY_LINE.match(l)
        if m and re.match(rb"(mix|pick|ld)\(", m.group(2)):
            got.append(m.group(2))
    res["replay"] = [g.decode("utf-8", "replace") for g in got]
    if len(got) != len(H5_EXPECT):
        res["other"].append("replay shows %d of the %d calls" % (len(got), len(H5_EXPECT)))
        return res
    for i, (g, e) in enumerate(zip(got, H5_EXPECT)):
        if g == e:
            continue
        txt = "replay shows %r, the call was %r" % (g.decode("utf-8", "replace"), e.decode("utf-8", "replace"))
        if i in (1, 4) and g == e.replace(b"NULL", b'"NULL"'):
            res["f6"].append(txt)
        elif i == 2:
            res["s2"].append(txt)
        else:
            res["other"].append(txt)
    return res


def replay(ctx, path):
    r = json.load(open(path))
    print(json.dumps(r, indent=1))
    return 0
