"""C19 — Python programs are traced at function granularity with balanced calls.
Lean: Uft/Model/PyTrace.lean, Uft/Model/PyHook.lean, Uft/Props/C19.lean.  Tie: correspondence.
(1) H4: the real uftrace_trace_python() of python/trace-python.c (whole file #included into
harness/c19_pytrace.c, run inside an embedded interpreter with our own cygprof_enter/exit) against
`PyTrace.run` on the same event streams; the property monitor (balance, counters restored,
documented selection) is evaluated on the implementation's output.
(2) H4+H1, end to end: the same function with its cygprof_enter/exit pointers set to the real
__cyg_profile_func_enter/_exit of the snapshot's libmcount, linked statically (harness/c19_hook.c,
c19_hook_mc.c; one process per case, scripted clock), against `PyHook.prun`: first frame by
address incl. reuse of the address, symbol addresses and the written python.fake.sym read back by
utils/symbol.c, libmcount's records, exit hooks that arrive with idx == 0 (also under
AddressSanitizer).  Pre-fix behaviour is recognised through the model flags guard / pin and
reported as F-C19-UNPAIRED-OOB / F-C19-FIRSTFRAME-ALIAS.
(1b) H4, names: histories of code objects (made, called, dropped; the allocator hands the addresses out
again) through the real convert_function_addr() against `PyHook.convertCode`
(c19_name_is_current_code_object).  Every H4 case runs in a forked child of the initialised
interpreter: a fresh process whatever static state the file has.
(3) H5, both tiers: generated Python PROJECTS (script + sibling modules + a package; functions made
with exec/compile/eval and dropped, class bodies, namedtuple/dataclass code generation, closures,
generators, exceptions, sys.exit / os._exit / uncaught exception; harness/c19_projgen.py) started in every
way a user can start a script (relative, ./, absolute, through a symbolic link to the directory —
relative and absolute —, through a symbolic link to the script, found in PATH) under the snapshot's
`uftrace record` in the three libcall modes with -F/-N selections.  Ground truth: the program's own
event log from an untraced run of the same command line under sys.setprofile
(harness/c19_projlog.py); monitor: the set and nesting of the module-qualified calls that
`uftrace replay` shows is the documented selection of the calls the program made (what the import
system does below an `import` is compared only for the program code it runs), stdout and exit
status are those of the native run.  The launcher as found (python/uftrace.py + init_uftrace) is
recognised through `launcher_prefix_dirs` / Model/PyHook §7 and reported as F-C19-SCRIPTDIR.
Thorough tier adds the single-file programs and the two finding scripts under the snapshot's
`uftrace record`."""
import fnmatch
import glob
import itertools
import json
import os
import re
import subprocess

from lib import common as C

FINDING = "F2"
REGEX_CHARS = ".?*+-^$|()[]{}"

MAIN_PY = ["a", "b", "g", "h", "mod.x"]
LIB_PY = ["lib.f", "lib.g"]
CFUN = ["os.getpid", "builtins.len"]
LIBS = LIB_PY + CFUN
LIBSTR = ",".join(LIBS)
MODES = ["NONE", "SINGLE", "NESTED"]

# the 12 filter sets of the exhaustive part (UFTRACE_FILTER strings, regex patterns)
FILTER_SETS = ["-", "a", "!g", "a;!g", "!g;a", "g;a", "!a;!lib.f", "^lib", "a;!.getpid",
               "!a;a", "a;!a;!g", "lib.f;!os.getpid"]

# pattern pools for the random part, per UFTRACE_PATTERN
PATTERNS = {
    "regex": ["a", "b", "g", "h", "^lib", "lib.f", "lib.g", ".getpid", "os.getpid", "builtins.len",
              "^mod", "mod.x", "len$", "^os", "l.*f", "^.$", "ib", "zz"],
    "glob": ["a", "b", "g", "h", "lib.*", "lib.f", "*.getpid", "os.*", "builtins.len", "mod.?",
             "?", "*", "*.?", "zz*"],
    "simple": ["a", "b", "g", "h", "lib.f", "lib.g", "os.getpid", "builtins.len", "mod.x", "lib", "zz"],
}


# ---------------------------------------------------------------- trees / events
def events_of(forest):
    out = []
    for name, kind, kids in forest:
        out.append(("c:" if kind == "p" else "C:") + name)
        out += events_of(kids)
        out.append({"p": "r:", "c": "R:", "x": "X:"}[kind] + name)
    return out


def tree_tokens(forest):
    out = []
    for name, kind, kids in forest:
        out += ["(", kind, name] + tree_tokens(kids) + [")"]
    return out


def tree_of(evs):
    """events -> forest if the stream is a complete, properly nested one, else None"""
    stack = [[]]
    names = []
    for e in evs:
        t, name = e[0], e[2:]
        if t in "cC":
            node = [name, t, []]
            stack[-1].append(node)
            stack.append(node[2])
            names.append((name, t))
        elif t in "rRX":
            if not names:
                return None
            n0, t0 = names.pop()
            if n0 != name or (t0 == "c") != (t == "r"):
                return None
            stack.pop()
            node = stack[-1][-1]
            node[1] = {"r": "p", "R": "c", "X": "x"}[t]
        else:
            return None
    if names:
        return None
    return [tuple_tree(n) for n in stack[0]]


def tuple_tree(n):
    return (n[0], n[1], [tuple_tree(k) for k in n[2]])


def is_prefix_of_nested(evs):
    """a stream cut off at some point (os._exit): every return matches the open call"""
    names = []
    for e in evs:
        t, name = e[0], e[2:]
        if t in "cC":
            names.append((name, t))
        elif t in "rRX":
            if not names:
                return False
            n0, t0 = names.pop()
            if n0 != name or (t0 == "c") != (t == "r"):
                return False
        else:
            return False
    return True


def shapes(n):
    """all forests with n unlabeled nodes"""
    if n == 0:
        return [[]]
    out = []
    for k in range(1, n + 1):
        for kids in shapes(k - 1):
            for sibs in shapes(n - k):
                out.append([kids] + sibs)
    return out


def label(shape, labels, pos):
    forest = []
    for kids in shape:
        name, kind = labels[pos[0]]
        if kind == "c" and pos[0] % 2 == 1:
            kind = "x"          # a C call at an odd preorder position ends by c_exception
        pos[0] += 1
        forest.append((name, kind, label(kids, labels, pos)))
    return forest


def rand_forest(rng, budget, pool, depth=0):
    forest = []
    while budget[0] > 0 and rng.random() < (0.75 if depth else 0.9):
        budget[0] -= 1
        name = rng.choice(pool)
        kind = "p"
        if name in CFUN:
            kind = "x" if rng.random() < 0.25 else "c"
        kids = rand_forest(rng, budget, pool, depth + 1) if rng.random() < 0.6 and depth < 8 else []
        forest.append((name, kind, kids))
    return forest


def rand_filter(rng, ptype):
    k = rng.choice([1, 1, 2, 2, 3, 4])
    ents = []
    for _ in range(k):
        p = rng.choice(PATTERNS[ptype])
        ents.append(("!" if rng.random() < 0.45 else "") + p)
    return ";".join(ents)


# ---------------------------------------------------------------- the property monitor
def parse_filters(filt, ptype):
    if filt == "-":
        return None
    out = []
    for ent in filt.split(";"):
        mode = "in"
        if ent.startswith("!"):
            mode, ent = "out", ent[1:]
        ty = ptype if any(ch in REGEX_CHARS for ch in ent) else "simple"
        out.append((ty, ent, mode))
    return out


def hit(ty, pat, name):
    if ty == "simple":
        return pat == name
    if ty == "glob":
        return fnmatch.fnmatchcase(name, pat)
    return re.search(pat, name) is not None


def doc_selection(forest, mode, filters, libs):
    """The documented selection, written from doc/uftrace-record.md: -F functions
    with everything they call, -N functions and what they call left out (first
    matching option wins), library calls per libcall mode.  Independent of the
    Lean text; compared with `specCalls` through the driver's `spec` op."""
    opt_in = filters is not None and any(m == "in" for _, _, m in filters)
    out = []

    def first(name):
        for ty, pat, m in (filters or []):
            if hit(ty, pat, name):
                return m
        return None

    def walk(nodes, active, blocked, ld):
        for name, kind, kids in nodes:
            m = first(name)
            act = active or m == "in"
            blk = blocked or m == "out"
            sel = (not blk) and (act or not opt_in)
            lib = name in libs
            tr = sel and (not lib or mode == "NESTED" or (mode == "SINGLE" and ld == 0))
            ld2 = ld + 1 if (sel and lib and mode == "SINGLE") else ld
            if tr:
                out.append(name)
            walk(kids, act, blk, ld2)
            if tr:
                out.append(None)
    walk(forest, False, False, 0)
    return out


def parse_impl(line):
    """'E1 X | 0 0 0 | 1:T:a' -> (ops, counters, symtab) ; ops = list of addr or None"""
    parts = [p.strip() for p in line.split("|")]
    if len(parts) != 3:
        return None
    ops = []
    for t in parts[0].split():
        if t == "X":
            ops.append(None)
        elif t.startswith("E") and t[1:].isdigit():
            ops.append(int(t[1:]))
        else:
            return None
    try:
        cnt = [int(x) for x in parts[1].split()]
    except ValueError:
        return None
    syms = {}
    for t in parts[2].split():
        a, ty, name = t.split(":", 2)
        syms[int(a)] = (ty, name)
    return ops, cnt, syms


def monitor(case_line, impl_line):
    """C19 on the implementation's observable behaviour for one case.
    Returns None or (theorem, description)."""
    head, evs = case_line.split("|", 1)
    _, mode, ptype, filt, libs = head.split()
    evs = evs.split()
    libs = [] if libs == "-" else libs.split(",")
    if impl_line.strip().startswith("CRASH"):
        return ("c19_balanced_output", "uftrace_trace_python() did not survive this event stream in a fresh process: " +
                impl_line.strip())
    parsed = parse_impl(impl_line)
    if parsed is None:
        return ("correspondence", "unparsable implementation output")
    ops, cnt, syms = parsed
    if not is_prefix_of_nested(evs):
        return None            # model validation only
    # every prefix: #exit <= #enter
    d = 0
    for i, o in enumerate(ops):
        d += 1 if o is not None else -1
        if d < 0:
            return ("c19_balanced_output", "hook call %d is an exit with nothing open (unpaired cygprof exit)" % i)
    forest = tree_of(evs)
    if forest is None:
        return None            # truncated run: only the prefix property applies
    if d != 0:
        return ("c19_balanced_output", "%d enter(s) never closed at the end of a complete run" % d)
    if cnt != [0, 0, 0]:
        return ("c19_state_restored", "counters after the run are %s, not 0 0 0" % cnt)
    # symbol table: distinct addresses, type P exactly for library functions
    if len(set(n for _, n in syms.values())) != len(syms):
        return ("correspondence", "one name has two addresses")
    for a, (ty, name) in syms.items():
        if (ty == "P") != (name in libs):
            return ("correspondence", "symbol %s has type %s" % (name, ty))
    got = [None if o is None else syms.get(o, ("?", "?%d" % o))[1] for o in ops]
    want = doc_selection(forest, mode, parse_filters(filt, ptype), libs)
    if got != want:
        return ("c19_refines_doc", "recorded calls %s differ from the documented selection %s" % (
            fmt_ops(got), fmt_ops(want)))
    return None


def fmt_ops(ops):
    return " ".join("}" if o is None else o + "{" for o in ops)



# ---------------------------------------------------------------- end to end (Model/PyHook.lean)
# The real uftrace_trace_python() in an embedded interpreter calling the real
# __cyg_profile_func_enter/_exit of the snapshot's libmcount (harness/c19_hook.c, one process per
# case), against `prun` of Model/PyHook.lean: first frame by address, symbol table and
# python.fake.sym, the decision, libmcount's records, exit hooks that arrive with idx == 0.
F_OOB = "F-C19-UNPAIRED-OOB"
F_ALIAS = "F-C19-FIRSTFRAME-ALIAS"
TAIL_NAMES = ["runpy._run_code", "runpy._run_module_as_main"]
AFTER_LIB = ["threading._shutdown", "logging.shutdown"]
HLIBS = LIBS + TAIL_NAMES + AFTER_LIB + ["sys.exit", "builtins.exec", "uftrace.<module>"]
HLIBSTR = ",".join(HLIBS)

SCRIPT_ALIAS = """#!/usr/bin/env python3
# F-C19-FIRSTFRAME-ALIAS: after sys.exit() the frame object of python/uftrace.py's module (the
# tracer's first_frame, remembered by address only) is released; an atexit callback whose frame
# object has the same size is allocated at that address and all its events are dropped.
import atexit, sys
def f0(): pass
def f1(): a=1
def f2(): a=1;b=2
def f3(): a=1;b=2;c=3
def f4(): a=1;b=2;c=3;d=4
def f5(): a=1;b=2;c=3;d=4;e=5
def f6(): a=1;b=2;c=3;d=4;e=5;f=6
def f7(): a=1;b=2;c=3;d=4;e=5;f=6;g=7
def f8(): a=1;b=2;c=3;d=4;e=5;f=6;g=7;h=8
def f9(): a=1;b=2;c=3;d=4;e=5;f=6;g=7;h=8;i=9
def f10(): a=1;b=2;c=3;d=4;e=5;f=6;g=7;h=8;i=9;j=10
def f11(): a=1;b=2;c=3;d=4;e=5;f=6;g=7;h=8;i=9;j=10;k=11
for f in (f11, f10, f9, f8, f7, f6, f5, f4, f3, f2, f1, f0):
    atexit.register(f)
print("done")
sys.exit(3)
"""
SCRIPT_ALIAS_FUNCS = ["f%d" % i for i in range(12)]

SCRIPT_OOB = """#!/usr/bin/env python3
# F-C19-UNPAIRED-OOB: after sys.exit() the `return` events of runpy._run_code and
# runpy._run_module_as_main (entered before tracing started) reach __cygprof_exit with idx == 0:
# it reads rstack[-1].flags; when bit 14 of that foreign word is set idx goes to -1, -2 and the
# calls that follow (threading._shutdown, the atexit callback) are not recorded.
import atexit, sys, threading
def bye():
    print("bye")
def a():
    return 1
atexit.register(bye)
a()
print("done")
sys.exit(3)
"""


class Fids:
    def __init__(self, first=2):
        self.n = first

    def new(self):
        self.n += 1
        return self.n - 1


def hook_tokens(forest, fids, caller, on_new=None):
    """forest -> tokens; every Python call gets a frame object of its own, a C call carries the
    frame of the Python function it was called from"""
    toks = []
    for name, kind, kids in forest:
        if kind == "p":
            k = fids.new()
            toks.append("new@%d" % k)
            if on_new:
                on_new(k)
            toks.append("c:%s@%d" % (name, k))
            toks += hook_tokens(kids, fids, k, on_new)
            toks.append("r:%s@%d" % (name, k))
        else:
            toks.append("C:%s@%d" % (name, caller))
            toks += hook_tokens(kids, fids, caller, on_new)
            toks.append(("R:" if kind == "c" else "X:") + "%s@%d" % (name, caller))
    return toks


def hook_case(mode, ptype, filt, toks, poke="keep", fixed="1"):
    return "hook %s 1 1 %s - %s %s %s %s | %s" % (fixed, poke, mode, ptype, filt, HLIBSTR, " ".join(toks))


def after_forest(rng):
    """what still runs at top level after the program has ended"""
    out = []
    for _ in range(rng.randint(0, 3)):
        n = rng.choice(["threading._shutdown", "bye", "logging.shutdown", "g"])
        kids = []
        if rng.random() < 0.5:
            kids.append((rng.choice(["os.getpid", "builtins.len"]), rng.choice(["c", "c", "x"]), []))
        if rng.random() < 0.3:
            kids.append((rng.choice(["h", "lib.f"]), "p", []))
        out.append((n, "p", kids))
    return out


def gen_hook_cases(ctx):
    """-> list of (case line, env, class)"""
    rng = ctx.rng
    quick = ctx.tier == "quick"
    pool = MAIN_PY + LIB_PY + CFUN
    cases = []
    cfile = os.path.join(C.VERIF, "corpus", "C19", "hook_cases.txt")
    if os.path.exists(cfile):
        for l in open(cfile):
            l = l.strip()
            if not l or l.startswith("#"):
                continue
            env = {}
            while l.startswith("@"):
                kv, l = l[1:].split(" ", 1)
                k, v = kv.split("=", 1)
                env[k] = v
            cases.append((l, env, "corpus"))

    def stack_env():
        r = rng.random()
        if r < 0.5:
            return {}
        if r < 0.75:
            return {"UFTRACE_MAX_STACK": "65535"}          # what `uftrace record` passes by default
        return {"UFTRACE_MAX_STACK": str(rng.choice([2, 3, 5]))}

    def rnd_filter(tail_safe=False):
        ptype = rng.choice(["regex", "regex", "glob", "simple"])
        if rng.random() < 0.3:
            return ptype, "-"
        while True:
            f = rand_filter(rng, ptype)
            if not tail_safe:
                return ptype, f
            fl = parse_filters(f, ptype)
            if not any(hit(ty, pat, n) for ty, pat, _ in fl for n in TAIL_NAMES):
                return ptype, f

    def program(wrap):
        fids = Fids()
        forest = rand_forest(rng, [rng.randint(1, 14)], rng.choice([pool, ["a", "g", "lib.f", "os.getpid"]]))
        toks = ["new@0", "C:builtins.exec@0", "new@1"]
        if wrap:
            forest = [("__main__.<module>", "p", forest)]
        toks += hook_tokens(forest, fids, 1)
        return toks, fids

    # A. whole programs (some cut off: os._exit)
    for _ in range(60 if quick else 1500):
        toks, _ = program(rng.random() < 0.5)
        cls = "e2e-nested"
        if rng.random() < 0.2:
            evi = [i for i, t in enumerate(toks) if not t.startswith(("new@", "del@"))]
            toks = toks[:rng.choice(evi[1:]) + 1] if len(evi) > 1 else toks
            cls = "e2e-truncated"
        ptype, filt = rnd_filter()
        cases.append((hook_case(rng.choice(MODES), ptype, filt, toks), stack_env(), cls))

    # B. sys.exit() / uncaught exception: lone exits of the frames entered before tracing started
    for i in range(70 if quick else 1500):
        toks, fids = program(True) if rng.random() < 0.85 else (["new@0", "C:builtins.exec@0", "new@1"], Fids())
        if rng.random() < 0.5:
            toks += ["X:builtins.exec@0", "r:uftrace.<module>@0"]
        for name in TAIL_NAMES[:rng.randint(1, 2)]:
            k = fids.new()
            toks.append("new@%d" % k)
            if name == "runpy._run_code" and rng.random() < 0.3:
                toks.append("X:builtins.exec@%d" % k)
            toks.append("r:%s@%d" % (name, k))
            toks += hook_tokens(after_forest(rng), fids, k)
        ptype, filt = rnd_filter(tail_safe=True)
        mode = rng.choice(["SINGLE", "SINGLE", "NESTED", "NONE"])
        cases.append((hook_case(mode, ptype, filt, toks, poke=["set", "clear", "keep"][i % 3]), stack_env(),
                      "stray-exit"))

    # C. the first frame object is released and its block handed out again
    for _ in range(45 if quick else 800):
        fids = Fids()
        toks = ["new@0", "C:builtins.exec@0"]
        caller_first = rng.random() < 0.75
        if caller_first:
            toks.append("new@1")
        if rng.random() < 0.6:
            toks.append(rng.choice(["R:builtins.exec@0", "X:builtins.exec@0"]))
        released = rng.random() < 0.85
        if released:
            toks.append("del@0")
        if not caller_first:
            toks.append("new@1")               # the frame of the caller of the top-level C calls gets the block
        holder = [None if caller_first else 1]
        forest = rand_forest(rng, [rng.randint(1, 8)], ["a", "b", "g", "h", "lib.f", "os.getpid", "bye"])

        def on_new(k):
            if holder[0] is None:
                holder[0] = k
        for root in forest:
            toks += hook_tokens([root], fids, 1, on_new)
            if released and holder[0] not in (None, 1) and rng.random() < 0.6:
                toks.append("del@%d" % holder[0])      # the block is free again: the next frame gets it
                holder[0] = None
        ptype, filt = rnd_filter()
        cases.append((hook_case(rng.choice(MODES), ptype, filt, toks), stack_env(), "frame-reuse"))

    # D. symbol table: many names in adversarial orders
    for i in range(25 if quick else 300):
        n = rng.randint(5, 45)
        names = set()
        while len(names) < n:
            r = rng.random()
            if r < 0.4:
                names.add("m%d.f%d" % (rng.randint(0, 6), rng.randint(0, 30)))
            elif r < 0.6:
                names.add("f%d" % rng.randint(0, 60))
            elif r < 0.8:
                names.add("os.c%d" % rng.randint(0, 30))
            else:
                names.add(rng.choice(["a", "aa", "aaa", "ab", "a.b", "a.bb", "Z", "_x", "lib.f", "lib.ff", "lib.g"]))
        names = sorted(names)
        order = i % 4
        if order == 1:
            names.reverse()
        elif order >= 2:
            rng.shuffle(names)
        seq = list(names) + [rng.choice(names) for _ in range(rng.randint(0, 10))]
        fids = Fids()
        toks = ["new@0", "C:builtins.exec@0", "new@1"]
        libs = set()
        for nm in seq:
            if nm.startswith("os."):
                toks += ["C:%s@1" % nm, "R:%s@1" % nm]
                libs.add(nm)
            else:
                k = fids.new()
                toks += ["new@%d" % k, "c:%s@%d" % (nm, k), "r:%s@%d" % (nm, k)]
                if nm.startswith("lib."):
                    libs.add(nm)
        line = "hook 1 1 1 keep - NESTED regex %s %s | %s" % (
            rng.choice(["-", "-", "!^m3", "^m;^f;^os"]), ",".join(sorted(libs)) or "-", " ".join(toks))
        cases.append((line, {}, "symtab-order"))

    # E. arbitrary sequences (model validation only)
    for i in range(40 if quick else 1500):
        fids = Fids()
        toks = ["new@0", "C:builtins.exec@0", "new@1"]
        frames = []
        for _ in range(rng.randint(1, 14)):
            r = rng.random()
            if r < 0.45:
                nm = rng.choice(["os.getpid", "builtins.len"])
                fr = rng.choice([1] + [f for f, _ in frames]) if rng.random() < 0.9 else 0
                toks.append("%s%s@%d" % (rng.choice(["C:", "R:", "X:", "C:", "o:"]), nm, fr))
            else:
                if frames and rng.random() < 0.6:
                    fr, nm = rng.choice(frames)
                else:
                    fr, nm = fids.new(), rng.choice(["a", "g", "lib.f", "b"])
                    frames.append((fr, nm))
                    toks.append("new@%d" % fr)
                toks.append("%s%s@%d" % (rng.choice(["c:", "r:", "c:"]), nm, fr))
        ptype = rng.choice(["regex", "glob", "simple"])
        cases.append((hook_case(rng.choice(MODES), ptype, rand_filter(rng, ptype), toks,
                                poke=["set", "clear", "keep"][i % 3]), stack_env(), "free-form"))
    return cases


def parse_hook_impl(line):
    parts = [p.strip() for p in line.split("|")]
    if len(parts) != 6:
        return None
    try:
        recs = [tuple(int(x) for x in t.split(":")) for t in parts[2].split()]
        st = dict(kv.split("=") for kv in parts[3].split())
        syms = []
        for t in parts[4].split():
            a, ty, name = t.split(":", 2)
            syms.append((int(a), ty, name))
        res = {}
        for t in parts[5].split():
            a, name = t.split("=", 1)
            res[int(a)] = name
        cnt = [int(x) for x in parts[1].split()]
    except (ValueError, KeyError):
        return None
    return {"calls": parts[0].split(), "cnt": cnt, "recs": recs, "idx": int(st.get("idx", -9)),
            "oob": int(st.get("oob", -9)), "lone": int(st.get("lone", -9)), "syms": syms, "res": res}


def hook_program(toks):
    """token list -> (forest of (name, kind, kids, t_entry, t_exit), lone exit names, complete?) for a
    stream a Python program can produce (frame object 0 is uftrace.py's own), else None"""
    stack = [[]]
    names = []
    lone = []
    i = 0
    for t in toks:
        if t.startswith(("new@", "del@")):
            continue
        ev, fid = t.rsplit("@", 1)
        now = 1000 + 10 * i
        i += 1
        if fid == "0":
            continue
        k, name = ev[0], ev[2:]
        if k in "cC":
            node = [name, k, [], now, None]
            stack[-1].append(node)
            stack.append(node[2])
            names.append((name, k))
        elif k in "rRX":
            if not names:
                lone.append(name)
                continue
            n0, k0 = names.pop()
            if n0 != name or (k0 == "c") != (k == "r"):
                return None
            stack.pop()
            node = stack[-1][-1]
            node[1] = {"r": "p", "R": "c", "X": "x"}[k]
            node[4] = now
        else:
            return None
    return stack[0], lone, not names


def doc_records(forest, mode, filters, libs, maxstack):
    """the documented selection as the record stream libmcount writes for it (eager view):
    (time, type, depth, name); calls nested deeper than --max-stack are not recorded"""
    opt_in = filters is not None and any(m == "in" for _, _, m in filters)
    out = []

    def first(name):
        for ty, pat, m in (filters or []):
            if hit(ty, pat, name):
                return m
        return None

    def walk(nodes, active, blocked, ld, depth):
        for name, kind, kids, t0, t1 in nodes:
            m = first(name)
            act = active or m == "in"
            blk = blocked or m == "out"
            sel = (not blk) and (act or not opt_in)
            lib = name in libs
            tr = sel and (not lib or mode == "NESTED" or (mode == "SINGLE" and ld == 0))
            ld2 = ld + 1 if (sel and lib and mode == "SINGLE") else ld
            rec = tr and depth < maxstack
            if rec:
                out.append((t0, 0, depth, name))
            walk(kids, act, blk, ld2, depth + 1 if tr else depth)
            if rec and t1 is not None:
                out.append((t1, 1, depth, name))
    walk(forest, False, False, 0, 0)
    return out


def hook_monitor(model_line, impl_line):
    """C19 end to end on the implementation's observable behaviour for one case: the records are
    the documented selection of the program's calls (well nested, right depth, the clock readings of
    the call's own events), every recorded address resolves through the written python.fake.sym (read
    by the real reader) to the function that was called, the file is sorted with distinct names, an
    exit hook with nothing on the shadow stack changes nothing.  -> None or (theorem, what)"""
    head, toks = model_line.split("|", 1)
    w = head.split()
    maxstack, mode, ptype, filt, libs = int(w[5]), w[6], w[7], w[8], w[9]
    libs = [] if libs == "-" else libs.split(",")
    p = parse_hook_impl(impl_line)
    if p is None:
        return ("correspondence", "unparsable implementation output")
    prog = hook_program(toks.split())
    if prog is None:
        return None
    forest, lone, complete = prog
    filters = parse_filters(filt, ptype)
    if any(hit(ty, pat, n) for ty, pat, _ in (filters or []) for n in lone):
        return None                       # a filter names a function entered before tracing started
    if p["oob"] != 0 or p["idx"] < 0:
        return ("c19_lone_exit_ignored", "an exit hook that arrived with idx == 0 was taken for the exit of "
                "rstack[-1]: idx went negative (%d such hooks in this run)" % p["lone"])
    # the symbol file
    addrs = [a for a, _, _ in p["syms"]]
    if not p["syms"] or p["syms"][-1][1:] != ("?", "__sym_end") or addrs != list(range(1, len(addrs) + 1)):
        return ("c19_fake_sym_sorted", "python.fake.sym is not the consecutive sorted table: %s" % p["syms"][:6])
    names = [n for _, _, n in p["syms"][:-1]]
    if len(set(names)) != len(names):
        return ("c19_sym_addr_injective", "a name has two addresses in a single process")
    for a, ty, n in p["syms"][:-1]:
        if (ty == "P") != (n in libs):
            return ("c19_fake_sym_resolves", "symbol %s has type %s" % (n, ty))
    table = {a: n for a, _, n in p["syms"][:-1]}
    for a, n in p["res"].items():
        if table.get(a) != n:
            return ("c19_fake_sym_resolves", "the reader resolves address %d to %s, the tracer gave it to %s" % (
                a, n, table.get(a)))
    got = []
    for t, ty, d, a in p["recs"]:
        if ty == 0 and a not in p["res"]:
            return ("c19_fake_sym_resolves", "recorded address %d does not resolve" % a)
        got.append((t, ty, d, p["res"].get(a, table.get(a, "?%d" % a))))
    want = doc_records(forest, mode, filters, libs, maxstack)
    if complete:
        if got != want:
            return ("c19_end_to_end_balanced", "records %s differ from the documented selection %s" % (
                fmt_recs(got), fmt_recs(want)))
        if p["idx"] != 0:
            return ("c19_end_to_end_balanced", "idx = %d after a complete run" % p["idx"])
        if p["cnt"] != [0, 0, 0]:
            return ("c19_state_restored", "counters after the run are %s" % p["cnt"])
    elif got != want[:len(got)]:
        return ("c19_end_to_end_balanced", "records %s are not a prefix of the documented selection %s" % (
            fmt_recs(got), fmt_recs(want)))
    return None


def fmt_recs(recs):
    return " ".join("%d:%s%s" % (t, n, "{" if ty == 0 else "}") for t, ty, _, n in recs[:40])


def hook_variant(model_line, fixed, guard, pin):
    w = model_line.split(" ", 4)
    return " ".join([w[0], fixed, guard, pin, w[4]])


def run_hook_cases(ctx, exe, cases, asan=False, base=0):
    """-> list of dict(model, impl, note, rc, stderr)"""
    from concurrent.futures import ThreadPoolExecutor
    from lib import h1

    def one(a):
        i, (line, env, _) = a
        e = dict(env)
        if asan:
            e["ASAN_OPTIONS"] = "detect_leaks=0:abort_on_error=0"
        r = h1.run(ctx, exe, e, [line], base + i, timeout=120)
        out = {"rc": r["rc"], "stderr": r["stderr"], "model": None, "impl": None, "note": ""}
        for l in r["lines"]:
            if l.startswith("MODEL "):
                out["model"] = l[6:]
            elif l.startswith("IMPL "):
                out["impl"] = l[5:]
            elif l.startswith("NOTE "):
                out["note"] = l[5:]
        return out

    with ThreadPoolExecutor(8) as ex:
        return list(ex.map(one, enumerate(cases)))


def find_known(fid):
    for f in C.known_findings("C19"):
        if f.get("id") == fid:
            return f
    return None


def e2e_confirm(ctx, which, tries=6):
    """the finding on a concrete script under the snapshot's `uftrace record` -> dict"""
    okb, log = ctx.make()
    if not okb:
        return {"built": False, "log": log[-500:]}
    uft = os.path.join(ctx.src, "uftrace")
    wd = os.path.join(ctx.scratch, "e2e-" + which)
    os.makedirs(wd, exist_ok=True)
    env = dict(os.environ)
    env["PYTHONPATH"] = os.path.join(ctx.src, "python")
    path = os.path.join(wd, "x.py")
    open(path, "w").write(SCRIPT_ALIAS if which == "alias" else SCRIPT_OOB)
    os.chmod(path, 0o755)
    res = {"built": True, "script": path, "runs": 0, "runs_with_symptom": 0, "detail": ""}
    for i in range(tries if which == "oob" else 2):
        d = os.path.join(wd, "d%d" % i)
        r = subprocess.run(["timeout", "60", uft, "record", "--libmcount-path=" + os.path.join(ctx.src, "libmcount"),
                            "--no-event", "--no-pager", "-d", d, path], stdout=subprocess.PIPE,
                           stderr=subprocess.PIPE, text=True, env=env, cwd=wd)
        rp = subprocess.run(["timeout", "60", uft, "replay", "--no-pager", "-d", d, "-f", "none"],
                            stdout=subprocess.PIPE, stderr=subprocess.PIPE, text=True, env=env)
        ops = replay_to_ops(rp.stdout)
        res["runs"] += 1
        if which == "alias":
            missing = [f for f in SCRIPT_ALIAS_FUNCS if f not in ops]
            if missing:
                res["runs_with_symptom"] += 1
                res["detail"] = "atexit callbacks %s were called but are not in the trace" % ",".join(missing)
        else:
            if "bye" not in ops:
                res["runs_with_symptom"] += 1
                res["detail"] = ("the atexit callback bye() and threading._shutdown() ran (stdout has 'bye': %s) "
                                 "but are not in the trace" % ("bye" in r.stdout))
    return res

# ---------------------------------------------------------------- harness
def build_harness(ctx):
    exe = os.path.join(ctx.scratch, "h_c19")
    pc = C.sh(["pkg-config", "python3-embed", "--cflags"])
    pl = C.sh(["pkg-config", "python3-embed", "--libs"])
    if pc.returncode != 0 or pl.returncode != 0:
        return None, "pkg-config python3-embed failed: " + pc.stdout + pl.stdout
    srcs = [os.path.join(C.VERIF, "harness/c19_pytrace.c")] + [
        os.path.join(ctx.src, "utils", f) for f in
        ("debug.c", "utils.c", "rbtree.c", "shmem.c", "symbol-rawelf.c", "symbol-libelf.c")]
    ok, log = ctx.cc(exe, srcs + pl.stdout.split() + ["-ldl", "-lrt"],
                     extra=["-DHAVE_LIBPYTHON3"] + pc.stdout.split())
    return (exe if ok else None), log


def build_hook_harness(ctx, asan=False):
    """The end-to-end harness: harness/c19_hook.c (#includes python/trace-python.c) +
    harness/c19_hook_mc.c linked statically with the snapshot's libmcount sources, compiled with
    the flags /repo's Makefile uses for libmcount (lib/h1.py's recipe, plus libpython).
    asan: libmcount and the harness instrumented by AddressSanitizer.  -> (exe | None, log)"""
    from concurrent.futures import ThreadPoolExecutor
    from lib import h1
    ctx.snapshot()
    src = ctx.src
    if not os.path.exists(os.path.join(src, "version.h")):
        C.sh(["make", "-C", src, "-s", "version.h"])
        if not os.path.exists(os.path.join(src, "version.h")):
            C.sh(["make", "-C", src, "-s", os.path.join(src, "version.h")])
    pc = C.sh(["pkg-config", "python3-embed", "--cflags"])
    pl = C.sh(["pkg-config", "python3-embed", "--libs"])
    if pc.returncode != 0 or pl.returncode != 0:
        return None, "pkg-config python3-embed failed: " + pc.stdout + pl.stdout
    flags, from_make = h1.lib_flags(ctx)
    san = ["-fsanitize=address", "-fno-omit-frame-pointer", "-DC19_NO_PEEK"] if asan else []
    flags = flags + ["-w", "-D" + C.GUARD] + san
    tag = "asan" if asan else "plain"
    objdir = os.path.join(ctx.scratch, "c19hook-" + tag)
    os.makedirs(objdir, exist_ok=True)
    srcs = [f for f in glob.glob(os.path.join(src, "libmcount/*.c")) if not f.endswith("-nop.c")]
    srcs += [os.path.join(src, "utils", u + ".c") for u in h1.UTILS]
    srcs += glob.glob(os.path.join(src, "utils/symbol*.c"))
    srcs += glob.glob(os.path.join(src, "arch/x86_64/mcount-*.c")) + [os.path.join(src, "arch/x86_64/symbol.c")]
    srcs += glob.glob(os.path.join(src, "arch/x86_64/*.S"))
    jobs = []
    for f in srcs:
        o = os.path.join(objdir, os.path.relpath(f, src).replace("/", "_") + ".o")
        jobs.append((["gcc"] + flags + ["-c", f, "-o", o], o))
    dflags = [f for f in flags if f not in ("-fvisibility=hidden", "-mgeneral-regs-only", "-fno-builtin")]
    hdir = os.path.join(C.VERIF, "harness")
    o = os.path.join(objdir, "drv_c19_hook_mc.o")
    jobs.append((["gcc"] + dflags + ["-O0", "-c", os.path.join(hdir, "c19_hook_mc.c"), "-o", o], o))
    # the python side: as the Makefile builds python/trace-python.c (no -DLIBMCOUNT)
    pyflags = [f for f in dflags if f != "-DLIBMCOUNT"]
    o = os.path.join(objdir, "drv_c19_hook.o")
    jobs.append((["gcc"] + pyflags + ["-O0", "-DHAVE_LIBPYTHON3"] + pc.stdout.split() +
                 ["-c", os.path.join(hdir, "c19_hook.c"), "-o", o], o))

    def runj(j):
        r = C.sh(j[0])
        return r.returncode, r.stdout

    with ThreadPoolExecutor(16) as ex:
        res = list(ex.map(runj, jobs))
    bad = [(j, r) for j, r in zip(jobs, res) if r[0] != 0]
    if bad:
        return None, "\n".join(" ".join(j[0][-3:]) + "\n" + r[1][-1200:] for j, r in bad[:5])
    exe = os.path.join(ctx.scratch, "h_c19hook-" + tag)
    libs = pl.stdout.split() + ["-ldl", "-pthread", "-lrt", "-lelf", "-ldw", "-lstdc++"]
    r = C.sh(["gcc", "-o", exe] + san + [j[1] for j in jobs] + libs + ["-no-pie"])
    if r.returncode != 0:
        r = C.sh(["gcc", "-o", exe] + san + [j[1] for j in jobs] + libs)
        if r.returncode != 0:
            return None, r.stdout[-3000:]
    return exe, ("flags from make -n" if from_make else "fallback flags")


def run_harness(exe, lines, timeout=1500, workers=8):
    """the harness forks one process per case; the cases are spread over `workers` harness processes"""
    from concurrent.futures import ThreadPoolExecutor

    class R:
        returncode = 0
        stderr = ""

    def part(chunk):
        r = subprocess.run([exe], input="\n".join(chunk) + "\n", stdout=subprocess.PIPE,
                           stderr=subprocess.PIPE, text=True, timeout=timeout)
        return r

    n = max(1, min(workers, len(lines) // 50 or 1))
    size = (len(lines) + n - 1) // n
    chunks = [lines[i:i + size] for i in range(0, len(lines), size)]
    with ThreadPoolExecutor(n) as ex:
        rs = list(ex.map(part, chunks))
    out = []
    res = R()
    for r in rs:
        out += r.stdout.split("\n")
        if r.returncode != 0 and res.returncode == 0:
            res.returncode = r.returncode
        res.stderr += r.stderr
    models = [l[6:] for l in out if l.startswith("MODEL ")]
    impls = [l[5:] for l in out if l.startswith("IMPL ")]
    infos = [l for l in out if l.startswith("INFO ")]
    return res, models, impls, infos


def case_line(mode, ptype, filt, evs, fixed="1"):
    return "%s %s %s %s %s | %s" % (fixed, mode, ptype, filt, LIBSTR, " ".join(evs))


def with_fixed(line, fixed):
    if line.startswith("code "):
        return line
    return fixed + line[1:]


def gen_code_case(rng):
    """a history of code objects: frames (each with a code object of its own) are made, get `call`
    events and are dropped; the allocator hands the blocks out again (LIFO), so later code objects
    live where dead ones lived"""
    names = ["f%d" % i for i in range(6)] + ["rules.rule_%d" % i for i in range(8)] + ["m.g", "m.K", "m.K.get", "lam"]
    libs = sorted(rng.sample(names, rng.randint(0, 4)))
    slots = {}
    toks = []
    fresh = list(names)
    rng.shuffle(fresh)
    style = rng.random()
    for _ in range(rng.randint(4, 40)):
        r = rng.random()
        free = [k for k in range(8) if k not in slots]
        if style < 0.4:
            # the rule-engine shape: make, call, drop - one at a time
            k = 0
            nm = fresh.pop() if fresh and rng.random() < 0.8 else rng.choice(names)
            toks += ["n:%d=%s" % (k, nm)] + ["e:%d" % k] * rng.randint(1, 2) + ["d:%d" % k]
            continue
        if slots and r < 0.45:
            toks.append("e:%d" % rng.choice(sorted(slots)))
        elif free and (r < 0.75 or not slots):
            k = rng.choice(free)
            slots[k] = fresh.pop() if fresh and rng.random() < 0.6 else rng.choice(names)
            toks.append("n:%d=%s" % (k, slots[k]))
            if rng.random() < 0.7:
                toks.append("e:%d" % k)
        elif slots:
            k = rng.choice(sorted(slots))
            del slots[k]
            toks.append("d:%d" % k)
    return "code %s | %s" % (",".join(libs) or "-", " ".join(toks))


def code_monitor(case, impl_line):
    """names: the symbol of every event is the one of the function whose code object the frame holds at
    that event; one address per name.  -> None or (theorem, what)"""
    if impl_line.strip().startswith("CRASH"):
        return ("c19_name_is_current_code_object", "convert_function_addr() did not survive this history of code "
                "objects: " + impl_line.strip())
    slots = {}
    want = []
    for t in case.split("|", 1)[1].split():
        k = int(t[2:].split("=")[0])
        if t[0] == "n":
            slots[k] = t.split("=", 1)[1]
        elif t[0] == "d":
            slots.pop(k, None)
        else:
            want.append(slots.get(k))
    got = impl_line.split()
    if len(got) != len(want):
        return ("correspondence", "unparsable implementation output")
    addr_of, name_of = {}, {}
    for i, (g, w) in enumerate(zip(got, want)):
        name, _, addr = g.rpartition(":")
        if name != w:
            return ("c19_name_is_current_code_object", "event %d is a call of %s, recorded under the symbol of %s "
                    "(%d code objects made and dropped before it)" % (i, w, name or "nothing", i))
        if addr_of.setdefault(name, addr) != addr or name_of.setdefault(addr, name) != name:
            return ("c19_name_is_current_code_object", "name %s / address %s: not one address per name" % (name, addr))
    return None


def generate(ctx):
    """-> list of (case line, class)"""
    rng = ctx.rng
    cases = []
    # corpus first
    cdir = os.path.join(C.VERIF, "corpus", "C19")
    if os.path.isdir(cdir):
        for fn in sorted(os.listdir(cdir)):
            if fn.startswith("hook") or os.path.isdir(os.path.join(cdir, fn)):
                continue                     # end-to-end corpus: gen_hook_cases; projects: run_projects
            for l in open(os.path.join(cdir, fn)):
                l = l.strip()
                if l and not l.startswith("#"):
                    cases.append((l, "corpus"))
    # exhaustive nested streams
    alphabet = [("a", "p"), ("g", "p"), ("lib.f", "p"), ("os.getpid", "c")]
    nmax = 3 if ctx.tier == "quick" else 4
    nexh = 0
    for n in range(1, nmax + 1):
        for shape in shapes(n):
            for labels in itertools.product(alphabet, repeat=n):
                forest = label(shape, labels, [0])
                evs = events_of(forest)
                for mode in MODES:
                    for filt in FILTER_SETS:
                        cases.append((case_line(mode, "regex", filt, evs), "exhaustive"))
                        nexh += 1
    pool = MAIN_PY + LIB_PY + CFUN
    # 4-node streams sampled in the quick tier
    if ctx.tier == "quick":
        sh4 = shapes(4)
        for _ in range(120):
            labels = [rng.choice(alphabet) for _ in range(4)]
            evs = events_of(label(rng.choice(sh4), labels, [0]))
            for mode in MODES:
                for filt in FILTER_SETS:
                    cases.append((case_line(mode, "regex", filt, evs), "sampled-8-events"))
    # random larger nested streams, random filters / pattern types
    nrand = 2500 if ctx.tier == "quick" else 50000
    for _ in range(nrand):
        forest = rand_forest(rng, [rng.randint(1, 40)], rng.choice([pool, pool, ["a", "g", "lib.f", "os.getpid"]]))
        evs = events_of(forest)
        if not evs:
            continue
        ptype = rng.choice(["regex", "regex", "glob", "simple"])
        filt = "-" if rng.random() < 0.1 else rand_filter(rng, ptype)
        cls = "random-nested"
        if rng.random() < 0.2:          # the program stops somewhere (os._exit)
            evs = evs[:rng.randint(1, len(evs))]
            cls = "random-truncated"
        cases.append((case_line(rng.choice(MODES), ptype, filt, evs), cls))
    # histories of code objects (made, called, dropped; addresses handed out again)
    for _ in range(400 if ctx.tier == "quick" else 6000):
        cases.append((gen_code_case(rng), "code-objects"))
    # arbitrary event sequences (not nested): model validation only
    nfree = 600 if ctx.tier == "quick" else 10000
    for _ in range(nfree):
        evs = []
        for _ in range(rng.randint(1, 14)):
            name = rng.choice(["a", "g", "lib.f", "os.getpid", "b"])
            if name in CFUN:
                evs.append(rng.choice(["C:", "R:", "X:", "C:", "o:"]) + name)
            else:
                evs.append(rng.choice(["c:", "r:", "c:"]) + name)
        ptype = rng.choice(["regex", "glob", "simple"])
        cases.append((case_line(rng.choice(MODES), ptype, rand_filter(rng, ptype), evs), "free-form"))
    return cases, nexh



def run_hook_part(ctx, fixed_flag):
    """end-to-end correspondence + monitor; reports findings / violations; -> coverage dict"""
    exe, log = build_hook_harness(ctx)
    if exe is None:
        C.violation(ctx, "hook-build", {"kind": "harness-build-failed", "log": log[-3000:]}, True)
        return {"built": False}
    ctx.notes.append("end-to-end harness (trace-python.c + static libmcount) built with " + log)
    cases = gen_hook_cases(ctx)
    res = run_hook_cases(ctx, exe, cases)
    broken = [i for i, r in enumerate(res) if r["model"] is None or r["impl"] is None]
    if broken:
        i = broken[0]
        C.violation(ctx, "hook-harness", {"kind": "harness-failed", "cases_without_output": len(broken),
                                          "model_input": cases[i][0], "env": cases[i][1], "rc": res[i]["rc"],
                                          "stderr": res[i]["stderr"][-1500:]}, True)
        return {"built": True, "harness_failures": len(broken)}
    n = len(cases)
    models = [r["model"] for r in res]
    impls = [C.norm(r["impl"]) for r in res]
    var = {}
    for g, p in (("1", "1"), ("0", "1"), ("1", "0"), ("0", "0")):
        var[(g, p)] = [C.norm(x) for x in C.run_model("C19", [hook_variant(m, fixed_flag, g, p) for m in models])]
    mon = {}
    for i in range(n):
        bad = hook_monitor(models[i], impls[i])
        if bad:
            mon[i] = bad
    neq = [i for i in range(n) if impls[i] != var[("1", "1")][i]]
    # which pre-fix flags explain each disagreement
    need_oob, need_alias, unexplained = [], [], []
    for i in neq:
        if impls[i] == var[("0", "1")][i]:
            need_oob.append(i)
        elif impls[i] == var[("1", "0")][i]:
            need_alias.append(i)
        elif impls[i] == var[("0", "0")][i]:
            need_oob.append(i)
            need_alias.append(i)
        else:
            unexplained.append(i)
    g = "0" if need_oob else "1"
    p = "0" if need_alias else "1"
    # with those flags the pre-fix model has to explain every case; a frame-reuse case in which the
    # allocator did not hand the block out again (NOTE alias=-) is allowed to look like the repaired code
    not_reused = 0
    for i in range(n):
        if impls[i] == var[(g, p)][i]:
            continue
        if p == "0" and impls[i] == var[(g, "1")][i] and "alias=-" in res[i]["note"]:
            not_reused += 1
            continue
        if g == "0" and impls[i] == var[("1", p)][i]:
            continue          # cannot happen (the guard only matters when it is looked at); kept explicit
        if i not in unexplained:
            unexplained.append(i)
    firstref = sorted({r["note"].split("firstref=")[1].split()[0] for r in res if "firstref=" in r["note"]})

    def replay_obj(i, kind, script=None):
        o = {"kind": kind, "model_input": models[i], "harness_input": cases[i][0], "env": cases[i][1],
             "class": cases[i][2], "impl_output": impls[i], "model_output": var[("1", "1")][i],
             "model_output_prefix_guard0": var[("0", "1")][i], "model_output_prefix_pin0": var[("1", "0")][i],
             "harness_note": res[i]["note"], "what": mon[i][1] if i in mon else None,
             "theorem": mon[i][0] if i in mon else "correspondence PyHook.prun vs uftrace_trace_python + libmcount"}
        if script:
            o.update(script)
        return o

    # ---- AddressSanitizer build: the out-of-bounds read itself, whatever the word holds
    asan = {"built": False}
    aexe, alog = build_hook_harness(ctx, asan=True)
    asan_hits = []
    if aexe is None:
        C.violation(ctx, "hook-asan-build", {"kind": "harness-build-failed", "log": alog[-2000:]}, True)
    else:
        # runs in which an exit hook arrives with idx == 0 (per the repaired model), and a few without
        def lone_of(i):
            q = parse_hook_impl(var[("1", "1")][i])
            return q["lone"] if q else 0
        withl = [i for i in range(n) if cases[i][2] in ("stray-exit", "corpus") and lone_of(i) > 0]
        without = [i for i in range(n) if cases[i][2] == "stray-exit" and lone_of(i) == 0]
        k = 10 if ctx.tier == "quick" else 60
        sel = [(cases[i][0].replace(" set - ", " keep - ").replace(" clear - ", " keep - "), cases[i][1], cases[i][2])
               for i in withl[:k] + without[:k // 4]]
        ares = run_hook_cases(ctx, aexe, sel, asan=True, base=100000)
        # how many exit hooks arrive with idx == 0 in each of these runs (repaired model)
        mlines = []
        for line, env, _ in sel:
            w = line.split(" ", 6)
            mlines.append(" ".join(w[:4] + ["0", env.get("UFTRACE_MAX_STACK", "1024"), w[6]]))
        lone_n = [parse_hook_impl(x)["lone"] for x in C.run_model("C19", mlines)]
        clean = 0
        other = []
        for (line, env, _), r, ln in zip(sel, ares, lone_n):
            if "AddressSanitizer" in r["stderr"]:
                where = "__cygprof_exit" if ("__cygprof_exit" in r["stderr"] and ln > 0) else "elsewhere"
                asan_hits.append((line, env, where, r["stderr"]))
            elif r["impl"] is None:
                other.append((line, r))
            else:
                clean += 1
        asan = {"built": True, "cases": len(sel), "clean": clean, "cases_with_a_lone_exit": sum(1 for x in lone_n if x > 0),
                "reports_in_cygprof_exit": sum(1 for h in asan_hits if h[2] == "__cygprof_exit"),
                "reports_elsewhere": sum(1 for h in asan_hits if h[2] != "__cygprof_exit")}
        for line, r in other[:1]:
            C.violation(ctx, "hook-asan-harness", {"kind": "harness-failed", "harness_input": line, "rc": r["rc"],
                                                   "stderr": r["stderr"][-1500:]}, True)
        for line, env, where, err in [h for h in asan_hits if h[2] != "__cygprof_exit"][:1]:
            C.violation(ctx, "hook-asan", {"kind": "property-violated-on-implementation", "harness_input": line,
                                           "env": env, "what": "AddressSanitizer report outside __cygprof_exit",
                                           "asan": "\n".join(err.split("\n")[:25]),
                                           "theorem": "c19_end_to_end_balanced"})

    # ---- findings
    e2e = {}
    oob_seen = bool(need_oob) or any(h[2] == "__cygprof_exit" for h in asan_hits)
    if oob_seen:
        cand = sorted((i for i in need_oob if i in mon), key=lambda i: (len(models[i]), i))
        what = ("%s open: an exit hook that arrives with idx == 0 (the returns of runpy's frames after sys.exit()/an "
                "uncaught exception) makes __cygprof_exit read rstack[-1].flags, 64 bytes before the malloc'ed array "
                "(AddressSanitizer build: heap-buffer-overflow READ in %d of the %d runs with such a hook); when bit 14 of that word is set idx goes negative and the "
                "following calls are lost (%d of %d harness cases; implementation matches the pre-fix model "
                "guard=false)" % (F_OOB, asan.get("reports_in_cygprof_exit", 0), asan.get("cases_with_a_lone_exit", 0),
                                  len(need_oob), n))
        f = find_known(F_OOB)
        if f is not None:
            C.known(ctx, f, what + ("; minimal: %s" % models[cand[0]] if cand else ""))
        else:
            e2e["oob"] = e2e_confirm(ctx, "oob")
            script = {"script": SCRIPT_OOB, "script_cmd": "PYTHONPATH=<repo>/python timeout 60 <repo>/uftrace record "
                      "--libmcount-path=<repo>/libmcount --no-event -d D ./x.py; uftrace replay -d D  (repeat: the "
                      "outcome depends on bit 14 of an address-space-layout dependent word)",
                      "e2e": e2e["oob"], "finding": F_OOB, "witness_theorem": "c19_prefix_unpaired_oob_witness"}
            if cand:
                C.violation(ctx, "oob-case%d" % cand[0], replay_obj(cand[0], "property-violated-on-implementation", script))
            elif asan_hits:
                line, env, where, err = asan_hits[0]
                o = {"kind": "property-violated-on-implementation", "harness_input": line, "env": env, "asan_build": True,
                     "what": "heap-buffer-overflow READ in __cygprof_exit: rstack[idx - 1] with idx == 0",
                     "asan": "\n".join(err.split("\n")[:25]), "theorem": "c19_lone_exit_ignored"}
                o.update(script)
                C.violation(ctx, "oob-asan", o)
    if not need_alias and firstref == ["0"] and not_reused == 0 and any(c[2] == "frame-reuse" for c in cases):
        ctx.notes.append("the tracer takes no reference to the first frame (refcount delta 0) and no frame-reuse case "
                         "showed a dropped call: the allocator did not hand the first frame's block out again")
    if need_alias:
        cand = sorted((i for i in need_alias if i in mon), key=lambda i: (len(models[i]), i))
        what = ("%s open: first_frame is remembered by address without a reference; a frame object allocated at that "
                "address after the first frame was released is taken for it and all its events are dropped (%d of %d "
                "harness cases; implementation matches the pre-fix model pin=false)" % (F_ALIAS, len(need_alias), n))
        f = find_known(F_ALIAS)
        if f is not None:
            C.known(ctx, f, what + ("; minimal: %s" % models[cand[0]] if cand else ""))
        else:
            e2e["alias"] = e2e_confirm(ctx, "alias")
            script = {"script": SCRIPT_ALIAS, "script_cmd": "PYTHONPATH=<repo>/python timeout 60 <repo>/uftrace record "
                      "--libmcount-path=<repo>/libmcount --no-event -d D ./x.py; uftrace replay -d D -f none",
                      "e2e": e2e["alias"], "finding": F_ALIAS, "witness_theorem": "c19_prefix_firstframe_alias_witness"}
            i = cand[0] if cand else need_alias[0]
            C.violation(ctx, "alias-case%d" % i,
                        replay_obj(i, "property-violated-on-implementation" if cand else "model-code-disagreement", script),
                        not cand)
    # ---- anything the two findings do not explain
    explained = set(need_oob) | set(need_alias)
    rep = 0
    for i in sorted((i for i in mon if i not in explained), key=lambda i: (len(models[i]), i))[:3]:
        C.violation(ctx, "hook-case%d" % i, replay_obj(i, "property-violated-on-implementation"))
        rep += 1
    if not rep:
        for i in sorted(unexplained, key=lambda i: (len(models[i]), i))[:3]:
            C.violation(ctx, "hook-case%d" % i, replay_obj(i, "model-code-disagreement"), True)
    classes = {}
    for c in cases:
        classes[c[2]] = classes.get(c[2], 0) + 1
    nontrivial = set()
    lone_total = 0
    for i in range(n):
        pr = parse_hook_impl(impls[i])
        if pr and pr["recs"]:
            nontrivial.add(models[i].split("|", 1)[1])
        if pr:
            lone_total += max(pr["lone"], 0)
    samples = [{"model_input": models[i][:300], "impl": impls[i][:240], "model": var[("1", "1")][i][:240]}
               for i in range(3, n, max(1, n // 4))]
    return {"built": True, "cases": n, "by_class": classes, "distinct_with_records": len(nontrivial),
            "disagreements_vs_repaired_model": len(neq), "explained_by_guard_false": len(need_oob),
            "explained_by_pin_false": len(need_alias), "unexplained": len(unexplained),
            "frame_reuse_cases_where_allocator_did_not_reuse": not_reused,
            "monitor_failures_on_impl": len(mon), "exit_hooks_with_idx_0": lone_total,
            "tracer_refcount_on_first_frame": firstref, "asan": asan, "e2e_confirmation": e2e, "samples": samples}


def f2_open():
    for f in C.known_findings("C19"):
        if f.get("id") == FINDING:
            return f
    return None


def run(ctx):
    ok, problems = C.prove(ctx, "C19")
    if not ok:
        C.violation(ctx, "proof", {"kind": "proof-obligation-broken", "problems": problems}, True)
        # section 7: go on and look for a concrete failing input (the driver may still build)
        okd, _ = C.lake_build(["uv_C19"])
        if not okd:
            ctx.snapshot()
            ctx.coverage.update({"evaluations": 0, "distinct_nontrivial": 0, "projects": run_projects(ctx)})
            return C.finish(ctx)

    ctx.snapshot()
    exe, log = build_harness(ctx)
    if exe is None:
        C.violation(ctx, "build", {"kind": "harness-build-failed", "log": log[-3000:]}, True)
        ctx.coverage.update({"evaluations": 0, "distinct_nontrivial": 0, "projects": run_projects(ctx)})
        return C.finish(ctx)

    cases, nexh = generate(ctx)
    lines = [c[0] for c in cases]
    r, models, impls, infos = run_harness(exe, lines)
    if r.returncode != 0 or len(models) != len(cases) or len(impls) != len(cases) or infos:
        C.violation(ctx, "harness", {"kind": "harness-failed", "rc": r.returncode, "infos": infos[:5],
                                     "stderr": r.stderr[-2000:], "cases": len(cases),
                                     "got": [len(models), len(impls)]}, True)
        hook = run_hook_part(ctx, "1")
        ctx.coverage.update({"evaluations": 0, "distinct_nontrivial": 0, "end_to_end": hook,
                             "projects": run_projects(ctx)})
        return C.finish(ctx)

    m_fixed = C.run_model("C19", [with_fixed(m, "1") for m in models])
    m_pre = C.run_model("C19", [with_fixed(m, "0") for m in models])

    # the monitor's reading of the manual against the Lean specification
    spec_in, spec_idx, spec_want = [], [], []
    for i, l in enumerate(lines):
        if l.startswith("code "):
            continue
        head, evs = l.split("|", 1)
        forest = tree_of(evs.split())
        if forest is None:
            continue
        _, mode, ptype, filt, libs = head.split()
        spec_in.append("spec " + head.strip() + " | " + " ".join(tree_tokens(forest)))
        spec_idx.append(i)
        spec_want.append(doc_selection(forest, mode, parse_filters(filt, ptype),
                                       [] if libs == "-" else libs.split(",")))
    spec_out = C.run_model("C19", spec_in) if spec_in else []
    spec_mismatch = 0
    for k, i in enumerate(spec_idx):
        # driver prints E<addr>: translate through the (model's) symbol table of the fixed run
        syms = parse_impl(m_fixed[i])
        names = [None if t == "X" else syms[2][int(t[1:])][1] for t in spec_out[k].split()] if syms else None
        if names != spec_want[k]:
            spec_mismatch += 1
            if spec_mismatch <= 2:
                C.violation(ctx, "spec%d" % i, {
                    "kind": "monitor-and-lean-spec-disagree", "model_input": spec_in[k],
                    "lean_specCalls": spec_out[k], "python_doc_selection": fmt_ops(spec_want[k]),
                    "theorem": "c19_refines_doc"}, True)

    # compare
    n = len(cases)
    neq_fixed = [i for i in range(n) if C.norm(impls[i]) != C.norm(m_fixed[i])]
    neq_pre = [i for i in range(n) if C.norm(impls[i]) != C.norm(m_pre[i])]
    mon = {}
    code_reuse = 0
    for i in range(n):
        if lines[i].startswith("code "):
            bad = code_monitor(lines[i], impls[i])
            al = [t.split("=")[0] for t in models[i].split() if t.startswith("a:")]
            code_reuse += len(al) - len(set(al))
        else:
            bad = monitor(lines[i], impls[i])
        if bad:
            mon[i] = bad
    matches_prefix_everywhere = bool(neq_fixed) and not neq_pre
    neither = [i for i in neq_fixed if i in set(neq_pre)]

    def replay_obj(i, kind):
        return {"kind": kind, "model_input": lines[i], "class": cases[i][1],
                "impl_output": C.norm(impls[i]), "model_output": C.norm(m_fixed[i]),
                "model_output_prefix_F2": C.norm(m_pre[i]),
                "what": mon[i][1] if i in mon else None,
                "theorem": mon[i][0] if i in mon else "correspondence PyTrace.run vs uftrace_trace_python",
                "matches_prefix_model_F2": C.norm(impls[i]) == C.norm(m_pre[i])}

    reported = 0
    if matches_prefix_everywhere:
        # the implementation is the code as found (pre-fix model): finding F2
        failing = sorted((i for i in mon if i in set(neq_fixed)), key=lambda i: (len(lines[i]), i))
        other = sorted((i for i in mon if i not in set(neq_fixed)), key=lambda i: (len(lines[i]), i))
        f = f2_open()
        if failing:
            i = failing[0]
            if f is not None:
                C.known(ctx, f, "%s open: -F with -N emits an unpaired cygprof exit (%d of %d cases; "
                        "implementation matches the pre-fix model everywhere); minimal: %s => %s" % (
                            FINDING, len(failing), n, lines[i], C.norm(impls[i]).split("|")[0].strip()))
            else:
                for i in failing[:2]:
                    C.violation(ctx, "case%d" % i, replay_obj(i, "property-violated-on-implementation"))
                    reported += 1
        else:
            C.violation(ctx, "case%d" % neq_fixed[0],
                        replay_obj(neq_fixed[0], "model-code-disagreement"), True)
            reported += 1
        for i in other[:2]:
            C.violation(ctx, "case%d" % i, replay_obj(i, "property-violated-on-implementation"))
            reported += 1
    else:
        for i in sorted(mon, key=lambda i: (len(lines[i]), i))[:3]:
            C.violation(ctx, "case%d" % i, replay_obj(i, "property-violated-on-implementation"))
            reported += 1
        if not mon:
            for i in sorted(neq_fixed, key=lambda i: (len(lines[i]), i))[:3]:
                C.violation(ctx, "case%d" % i, replay_obj(i, "model-code-disagreement"), True)
                reported += 1

    hook = run_hook_part(ctx, "0" if matches_prefix_everywhere else "1")

    projects = run_projects(ctx)
    e2e = {}
    if ctx.tier == "thorough":
        e2e = run_e2e(ctx)

    # coverage, measured
    classes = {}
    nontrivial = set()
    suppressed = 0
    for i in range(n):
        classes[cases[i][1]] = classes.get(cases[i][1], 0) + 1
        p = parse_impl(impls[i])
        if p:
            ents = sum(1 for e in lines[i].split("|", 1)[1].split() if e[0] in "cC")
            got = sum(1 for o in p[0] if o is not None)
            if 0 < got < ents:
                nontrivial.add(lines[i][2:])
            if got < ents:
                suppressed += 1
    samples = []
    for i in range(7, n, max(1, n // 5)):
        samples.append({"model_input": lines[i][:300], "impl": C.norm(impls[i])[:200],
                        "model": C.norm(m_fixed[i])[:200]})
    ctx.coverage.update({
        "evaluations": n + (hook.get("cases", 0) if isinstance(hook, dict) else 0) + projects.get("record_runs", 0),
        "distinct_nontrivial": len(nontrivial),
        "rule": "corpus; then every properly nested profile-event stream of <= %d calls (%d events) over the "
                "alphabet {a, g (main), lib.f (python library), os.getpid (C)} x 3 libcall modes x 12 "
                "UFTRACE_FILTER strings; then random call trees (<= 40 calls, depth <= 9, 9 names) with random "
                "1-4 entry filters over regex/glob/simple patterns, 20%% of them cut off at a random event; then "
                "arbitrary (not nested) event sequences for model validation. distinct_nontrivial = distinct "
                "cases where some but not all calls were recorded. end_to_end: corpus/C19/hook_cases.txt, then random "
                "programs with frame objects (some cut off), programs followed by the lone exits of runpy's frames and "
                "what still runs after them (bit 14 of the word below rstack set / clear / as found), streams in which "
                "the first frame object is released and its block handed out again, 5-45 symbol names in sorted / "
                "reversed / random order, arbitrary sequences; --max-stack default / 65535 / 2-5; the lone-exit cases "
                "again under AddressSanitizer. code-objects: 4-40 make/call/drop steps over 8 frame slots and 18 "
                "function names (40%% in the make-call-drop-one-at-a-time shape). projects: corpus/C19/projects, then "
                "%d generated projects x 9 start modes (x2 in the thorough tier), libcall mode cycled, -F/-N from a pool of "
                "21 selections" % (3 if ctx.tier == "quick" else 4, 6 if ctx.tier == "quick" else 8,
                                   12 if ctx.tier == "quick" else 40),
        "by_class": classes,
        "exhaustive_cases": nexh,
        "exhaustive": False,
        "cases_with_suppressed_calls": suppressed,
        "code_objects_allocated_at_an_address_used_before": code_reuse,
        "model_code_disagreements_vs_fixed_model": len(neq_fixed),
        "model_code_disagreements_vs_prefix_model_F2": len(neq_pre),
        "disagreeing_with_both_models": len(neither),
        "implementation_matches_prefix_model_F2_everywhere": matches_prefix_everywhere,
        "monitor_failures_on_impl": len(mon),
        "monitor_vs_lean_spec_checked": len(spec_in),
        "monitor_vs_lean_spec_mismatch": spec_mismatch,
        "e2e": e2e,
        "projects": projects,
        "end_to_end": hook,
        "samples": samples,
    })
    if matches_prefix_everywhere:
        ctx.notes.append("implementation = pre-fix model (finding F2, python/trace-python.c apply_filters): "
                         "c19_balanced_output / c19_refines_doc hold for the repaired code only; see "
                         "c19_prefix_unbalanced_witness")
    ctx.notes.append("after sys.exit()/an uncaught exception the returns of runpy's frames still reach the tracer "
                     "(python/uftrace.py has no try/finally around exec): one unpaired cygprof_exit each in the "
                     "default and --nest-libcall modes (c19_stray_return_unpaired_exit), which reaches libmcount with "
                     "idx == 0; the repaired __cygprof_exit drops it with a WARN on stderr (c19_lone_exit_ignored, "
                     "c19_end_to_end_balanced), the code as found reads rstack[-1] (c19_prefix_unpaired_oob_witness)")
    ctx.assumptions += [
        "the interpreter delivers properly nested call/return, c_call/c_return|c_exception events to the profile "
        "function of one thread (sys.setprofile discipline); os._exit cuts the stream",
        "a function name determines whether it is a library function (sym->flag is cached per name)",
        "libc regexec/fnmatch are abstracted as a predicate; the driver implements the subset "
        "{literal, ., x*, ^, $} / {literal, *, ?} that the generator uses",
        "harness resets the file's static state between cases to emulate a fresh process",
        "libmcount's own handling of UFTRACE_FILTER on the pseudo addresses is not modelled (C05): in the end-to-end "
        "harness libmcount's constructor runs before UFTRACE_FILTER is set, the theorems assume `Plain` for libmcount",
        "end-to-end harness: frame objects are types.SimpleNamespace objects (one allocator size class, so the LIFO "
        "reuse of the first frame's block can be provoked by del@/new@); `set`/`clear` cases force bit 14 of the word "
        "at &rstack[-1].flags for the duration of one hook call (it stands for arbitrary heap contents; under "
        "uftrace record it varies with the address-space layout); after libmcount has taken rstack[-1] for a frame "
        "the case is compared only up to that point",
        "one thread, one process in the harness; the fork/multiprocessing part of the symbol-table model "
        "(World) is covered by theorems only",
        "projects (H5): a function is program code when it belongs to __main__ or its file lies under the directory "
        "the script really is in (what the interpreter puts in sys.path[0]), library code otherwise; the calls the "
        "import system makes below an import statement are compared only for the program code they run (they depend "
        "on path caches and directory sizes); PYTHONHASHSEED=0, PYTHONDONTWRITEBYTECODE=1 in all runs; "
        "`WARN: unpaired cygprof exit` on stderr after sys.exit()/an uncaught exception is counted, not judged "
        "(c19_lone_exit_ignored); stderr is not compared",
    ]
    return C.finish(ctx)


# ---------------------------------------------------------------- H5 (thorough): real programs
PROG_FUNCS = ["a", "b", "g", "h"]


def gen_program(rng, exit_mode):
    """A Python program over a,b,g,h (acyclic calls) using C functions, a caught
    exception, a generator, recursion, a method and a closure."""
    order = {"a": ["b", "g", "h"], "b": ["g", "h"], "g": ["h"], "h": []}
    src = ["#!/usr/bin/env python3", "import os", "import sys", "",
           "def thrower():", "    raise ValueError('x')", "",
           "def gen():", "    yield 1", "    yield 2", "",
           "def rec(n):", "    if n > 0:", "        rec(n - 1)", "    return os.getpid()", "",
           "class K:", "    def m(self):", "        return len('ab')", "",
           "def outer():", "    def inner():", "        return 1", "    return inner()", ""]
    for f in PROG_FUNCS:
        src.append("def %s():" % f)
        body = []
        for _ in range(rng.randint(0, 4)):
            c = rng.choice(order[f] + ["os.getpid", "len", "raise", "gen", "rec", "meth", "closure", "ospath",
                                       "cexc", "sorted"])
            if c == "os.getpid":
                body.append("    os.getpid()")
            elif c == "len":
                body.append("    len('abc')")
            elif c == "raise":
                body += ["    try:", "        thrower()", "    except ValueError:", "        pass"]
            elif c == "gen":
                body += ["    for _ in gen():", "        pass"]
            elif c == "rec":
                body.append("    rec(%d)" % rng.randint(0, 3))
            elif c == "meth":
                body.append("    K().m()")
            elif c == "closure":
                body.append("    outer()")
            elif c == "ospath":           # a library function written in Python (module already loaded)
                body.append("    os.path.join('a', 'b')")
            elif c == "cexc":
                body += ["    try:", "        int('zz')", "    except ValueError:", "        pass"]
            elif c == "sorted":
                body.append("    sorted([2, 1], key=lambda v: len(str(v)))")
            else:
                body.append("    %s()" % c)
        src += body or ["    pass"]
        src.append("")
    for _ in range(rng.randint(1, 3)):
        src.append("%s()" % rng.choice(PROG_FUNCS))
    src.append("print('done')")
    if exit_mode == "sys.exit":
        src.append("sys.exit(3)")
    elif exit_mode == "os._exit":
        src += ["sys.stdout.flush()", "os._exit(4)"]
    elif exit_mode == "raise":
        src.append("thrower()")
    return "\n".join(src) + "\n"


def replay_to_ops(text):
    """`uftrace replay -f none` -> list of names / None (exit)"""
    ops = []
    for l in text.split("\n"):
        b = l.strip()
        if b.startswith("uftrace stopped tracing"):
            break
        if not b or b.startswith("#"):
            continue
        if b.startswith("}"):
            ops.append(None)
        elif b.endswith("{"):
            ops.append(b[:-1].strip()[:-2])
        elif b.endswith(";"):
            ops.append(b[:-1].strip()[:-2])
            ops.append(None)
    return ops


def read_log(path):
    evs, libs = [], set()
    for l in open(path):
        t = l.split()
        if not t:
            continue
        evs.append(t[0])
        if len(t) > 1 and t[1] == "L":
            libs.add(t[0][2:])
    return evs, libs


def expected_ops(evs, libs, mode, filters):
    """Ground-truth events -> the hook calls the documented selection asks for.
    Returns (ops, cut, number of calls left open) ; cut = True when the program
    stopped inside calls (os._exit)."""
    # an uncaught exception / sys.exit: the returns of the frames that were
    # entered before tracing started (runpy) follow; they are not calls of the program
    names = []
    keep = []
    for e in evs:
        t, name = e[0], e[2:]
        if t in "cC":
            names.append(name)
            keep.append(e)
        elif names and names[-1] == name:
            names.pop()
            keep.append(e)
        # else: stray return, dropped by libmcount ("unpaired cygprof exit")
    cut = bool(names)
    # close what os._exit left open to get a tree
    closed = list(keep) + ["r:" + n for n in reversed(names)]
    forest = tree_of_loose(closed)
    want = doc_selection(forest, mode, filters, libs)
    return want, cut, len(names)


def tree_of_loose(evs):
    stack = [[]]
    for e in evs:
        t, name = e[0], e[2:]
        if t in "cC":
            node = (name, "p" if t == "c" else "c", [])
            stack[-1].append(node)
            stack.append(node[2])
        else:
            stack.pop()
    return stack[0]


def until_module_end(ops):
    if not ops or ops[0] != "__main__.<module>":
        return ops
    d = 0
    for i, o in enumerate(ops):
        d += 1 if o is not None else -1
        if d == 0:
            return ops[:i + 1]
    return ops


def run_e2e(ctx):
    rng = ctx.rng
    okb, log = ctx.make()
    if not okb:
        C.violation(ctx, "e2e-build", {"kind": "snapshot-build-failed", "log": log[-2000:]}, True)
        return {"built": False}
    uft = os.path.join(ctx.src, "uftrace")
    wd = os.path.join(ctx.scratch, "e2e")
    os.makedirs(wd, exist_ok=True)
    env = dict(os.environ)
    env["PYTHONPATH"] = os.path.join(ctx.src, "python")
    nprog = 20
    runs = fails = known_hits = stray_warn = 0
    f = f2_open()
    filter_opts = [[], ["-F", "a"], ["-N", "g"], ["-F", "a", "-N", "g"], ["-F", "b", "-N", "h"],
                   ["-N", "thrower"], ["-F", "g"], ["-N", "^posixpath.join$"], ["-F", "rec", "-N", "^posix.getpid$"],
                   ["-F", "^K.m$"], ["-N", "gen", "-N", "^builtins.len$"]]
    # (-F patterns are anchored on both sides: libmcount applies UFTRACE_FILTER to the native symbols
    #  of the interpreter as well, and an opt-in pattern that matches one of them empties the trace — C05)
    for pi in range(nprog):
        exit_mode = rng.choice(["none", "none", "none", "sys.exit", "os._exit", "raise"])
        path = os.path.join(wd, "p%d.py" % pi)
        open(path, "w").write(gen_program(rng, exit_mode))
        os.chmod(path, 0o755)
        base = subprocess.run(["timeout", "60", path], stdout=subprocess.PIPE, stderr=subprocess.PIPE,
                              text=True, env=env, cwd=wd)
        logf = os.path.join(wd, "p%d.log" % pi)
        lenv = dict(env)
        lenv["C19_LOG"] = logf
        lenv["PYTHONPATH"] = os.path.join(C.VERIF, "harness")
        # started like uftrace.py is (`python3 -m …`), so that the frames below exec() are the same
        subprocess.run(["timeout", "60", "python3", "-m", "c19_pylog", path],
                       stdout=subprocess.PIPE, stderr=subprocess.PIPE, text=True, env=lenv, cwd=wd)
        evs, libs = read_log(logf)
        for mode, mopt in (("SINGLE", []), ("NONE", ["--no-libcall"]), ("NESTED", ["--nest-libcall"])):
            for filt in rng.sample(filter_opts, 2):
                d = os.path.join(wd, "d%d" % runs)
                cmd = ["timeout", "60", uft, "record", "--libmcount-path=" + os.path.join(ctx.src, "libmcount"),
                       "--no-event", "--no-pager", "-d", d] + mopt + filt + [path]
                r = subprocess.run(cmd, stdout=subprocess.PIPE, stderr=subprocess.PIPE, text=True, env=env, cwd=wd)
                runs += 1
                rp = subprocess.run(["timeout", "60", uft, "replay", "--no-pager", "-d", d, "-f", "none"],
                                    stdout=subprocess.PIPE, stderr=subprocess.PIPE, text=True, env=env)
                got = replay_to_ops(rp.stdout)
                ents = []
                for i in range(0, len(filt), 2):
                    ents.append(("regex" if any(ch in REGEX_CHARS for ch in filt[i + 1]) else "simple",
                                 filt[i + 1], "in" if filt[i] == "-F" else "out"))
                want, cut, nopen = expected_ops(evs, libs, mode, ents or None)
                if cut:
                    # stopped by os._exit: the closers of the open calls are never recorded, and the
                    # hook (os_exit -> uftrace_python.exit) is part of uftrace, not of the program
                    drop = ("os_exit", "uftrace_python.exit", "posix._exit")
                    w = [x for x in want if x not in drop]
                    g = [x for x in got if x not in drop]
                    while w and w[-1] is None:
                        w.pop()
                    while g and g[-1] is None:
                        g.pop()
                    same = g == w
                else:
                    # what the interpreter itself calls after the script has ended (printing the
                    # traceback of an uncaught exception) is not part of the program
                    same = until_module_end(got) == until_module_end(want)
                if "unpaired cygprof exit" in r.stderr:
                    stray_warn += 1
                same_out = (r.stdout == base.stdout and (r.returncode == 0) == (base.returncode == 0))
                if not same or not same_out:
                    mixed = ("-F" in filt and "-N" in filt)
                    if mixed and f is not None and same_out:
                        known_hits += 1
                        continue
                    fails += 1
                    if fails <= int(os.environ.get("C19_E2E_MAXREP", "2")):
                        C.violation(ctx, "e2e%d" % runs, {
                            "kind": "property-violated-on-implementation", "program": open(path).read(),
                            "options": mopt + filt, "replay": rp.stdout[-1500:], "expected": fmt_ops(want),
                            "got": fmt_ops(got), "stdout_same": same_out, "record_rc": r.returncode,
                            "untraced_rc": base.returncode, "record_stderr": r.stderr[-500:],
                            "exit_mode": exit_mode,
                            "theorem": "c19_refines_doc / c19_balanced_output (end to end)"})
    # what runs after the script has ended (atexit callbacks, threading._shutdown) belongs to the trace
    # too: the two scripts of F-C19-FIRSTFRAME-ALIAS / F-C19-UNPAIRED-OOB
    after = {}
    for which, fid in (("alias", F_ALIAS), ("oob", F_OOB)):
        e = e2e_confirm(ctx, which, tries=12)
        after[which] = e
        if e.get("runs_with_symptom"):
            kf = find_known(fid)
            if kf is not None:
                C.known(ctx, kf, "%s open (script under uftrace record): %s in %d of %d runs" % (
                    fid, e["detail"], e["runs_with_symptom"], e["runs"]))
            else:
                C.violation(ctx, "e2e-" + which, {
                    "kind": "property-violated-on-implementation", "finding": fid,
                    "script": SCRIPT_ALIAS if which == "alias" else SCRIPT_OOB, "e2e": e, "what": e["detail"],
                    "theorem": "c19_end_to_end_balanced (calls after the end of the script)"})
    return {"built": True, "programs": nprog, "record_runs": runs, "failures": fails,
            "known_F2_shapes": known_hits, "runs_with_unpaired_exit_warning": stray_warn,
            "after_script_end": after}


# ---------------------------------------------------------------- H5 (both tiers): generated PROJECTS
# A project = script + sibling modules + a package (harness/c19_projgen.py), started in every way a user
# can start it; ground truth = the program's own event log from an UNTRACED run under sys.setprofile
# (harness/c19_projlog.py, names computed independently of trace-python.c).  Monitor = C19's statement:
# the set and nesting of the (module-qualified) calls uftrace replay shows is the documented selection
# of the calls the program made, names included; stdout and exit status are those of the native run.
F_SCRIPTDIR = "F-C19-SCRIPTDIR"
START_MODES = ["rel", "dot", "abs", "abs-symdir", "rel-symdir", "symscript-rel", "symscript-abs",
               "path", "path-symdir"]
LIBCALL_OPTS = {"SINGLE": [], "NONE": ["--no-libcall"], "NESTED": ["--nest-libcall"]}


def project_materialize(W, proj):
    """W/app = the project, W/link -> app, W/bin/tool -> ../app/main.py, W/deep/l2 -> ../link"""
    app = os.path.join(W, "app")
    for rel, text in proj["files"].items():
        p = os.path.join(app, rel)
        os.makedirs(os.path.dirname(p), exist_ok=True)
        with open(p, "w") as f:
            f.write(text)
    os.chmod(os.path.join(app, "main.py"), 0o755)
    os.symlink("app", os.path.join(W, "link"))
    os.makedirs(os.path.join(W, "bin"))
    os.symlink("../app/main.py", os.path.join(W, "bin", "tool"))
    os.makedirs(os.path.join(W, "deep"))
    os.symlink("../link", os.path.join(W, "deep", "l2"))


def start_cmd(W, mode):
    """-> (argv0 as the user types it, cwd, directory put in front of PATH or None)"""
    return {
        "rel": ("app/main.py", W, None),
        "dot": ("./main.py", os.path.join(W, "app"), None),
        "abs": (os.path.join(W, "app/main.py"), W, None),
        "abs-symdir": (os.path.join(W, "deep/l2/main.py"), W, None),
        "rel-symdir": ("link/main.py", W, None),
        "symscript-rel": ("bin/tool", W, None),
        "symscript-abs": (os.path.join(W, "bin/tool"), W, None),
        "path": ("main.py", W, os.path.join(W, "app")),
        "path-symdir": ("main.py", W, os.path.join(W, "link")),
    }[mode]


def launcher_prefix_dirs(argv0, cwd, pathdir):
    """python/uftrace.py + init_uftrace() as found (before the repair proposed for F-C19-SCRIPTDIR):
    -> (sys.path[0], main_dir).  The repaired launcher uses dirname(realpath(script)) for both."""
    if pathdir is not None:
        pathname = pathdir + "/" + argv0
        return os.path.dirname(pathname), os.path.dirname(pathname)
    pathname = argv0 if argv0[0] == "/" else cwd + "/" + argv0
    main_dir = os.path.dirname(argv0) if argv0[0] == "/" else os.path.dirname(os.path.realpath(os.path.join(cwd, argv0)))
    return os.path.dirname(pathname), main_dir


def launcher_model_check(ctx, W):
    """Model/PyHook §7 (`sysPath0`, `mainDir`, `isProgramFile`) against this file's reading of
    python/uftrace.py + init_uftrace (`launcher_prefix_dirs`, which the project runs validate against
    the real thing), for every start mode, as found and repaired.  -> number of disagreements"""
    lines, want = [], []
    real = os.path.join(W, "app")
    for sm in START_MODES:
        argv0, cwd, pathdir = start_cmd(W, sm)
        arg = pathdir + "/" + argv0 if pathdir else argv0
        isabs = arg[0] == "/"
        absn = arg if isabs else cwd + "/" + arg
        rp = os.path.realpath(absn)
        for fixed in (0, 1):
            if fixed:
                sp0 = md = os.path.dirname(rp)
            else:
                sp0, md = launcher_prefix_dirs(argv0, cwd, pathdir)
            files = [sp0 + "/helper.py", sp0 + "/pkg/core.py", real + "/generated_rules.py", "/usr/lib/python3/os.py"]
            flags = ["1" if (f.startswith(md) and f[len(md):len(md) + 1] == "/") else "0" for f in files]
            lines.append("launch %d %d %s %s %s=%s | %s" % (fixed, isabs, cwd, arg, absn, rp, " ".join(files)))
            want.append("%s %s | %s" % (sp0, md, " ".join(flags)))
    got = C.run_model("C19", lines)
    bad = [(l, w, g) for l, w, g in zip(lines, want, got) if C.norm(w) != C.norm(g)]
    for l, w, g in bad[:1]:
        C.violation(ctx, "launcher-model", {"kind": "model-code-disagreement", "model_input": l, "model_output": g,
                                            "launcher_as_read_from_uftrace_py": w,
                                            "theorem": "c19_sibling_modules_are_program_code"}, True)
    return len(lines), len(bad)


def read_projlog(path):
    """-> (events, {name: class M|D|L}, {name: co_filename})"""
    evs, cls, files = [], {}, {}
    try:
        fh = open(path)
    except OSError:
        return evs, cls, files
    for l in fh:
        t = l.split()
        if not t:
            continue
        evs.append(t[0])
        if len(t) > 1:
            cls.setdefault(t[0][2:], t[1])
        if len(t) > 2:
            files.setdefault(t[0][2:], t[2])
    return evs, cls, files


def info_exit_status(text):
    m = re.search(r"exit status\s*:\s*(.*)", text)
    if not m:
        return None
    s = m.group(1).strip()
    m2 = re.match(r"exited with code: (\d+)", s)
    return int(m2.group(1)) if m2 else s


IMPORT_ROOTS = ("importlib._bootstrap._find_and_load", "importlib._bootstrap._handle_fromlist",
                "importlib._bootstrap._gcd_import", "builtins.__import__")


def strip_import_internals(ops, cls):
    """What the import system calls on behalf of an `import` statement depends on the environment (the
    path-importer cache, the number of entries of the directories on sys.path, how sys.path[0] is spelled),
    not on the program: below an import root only program code (class M/D of the ground-truth log) and
    what it calls is compared.  The import root itself stays."""
    out = []
    stack = []          # (kept?, context below this node: True = inside the import system)
    for o in ops:
        if o is None:
            if stack:
                kept, _ = stack.pop()
                if kept:
                    out.append(None)
            else:
                out.append(None)
            continue
        inside = stack[-1][1] if stack else False
        prog = cls.get(o) in ("M", "D")
        if inside and not prog:
            stack.append((False, True))
            continue
        out.append(o)
        stack.append((True, (o in IMPORT_ROOTS) and not prog))
    return out


def compare_ops(got, want, cut):
    if cut:
        drop = ("os_exit", "uftrace_python.exit", "posix._exit")
        w = [x for x in want if x not in drop]
        g = [x for x in got if x not in drop]
        while w and w[-1] is None:
            w.pop()
        while g and g[-1] is None:
            g.pop()
        return g == w
    return until_module_end(got) == until_module_end(want)


def first_diff(got, want):
    g, w = until_module_end(got), until_module_end(want)
    for i in range(max(len(g), len(w))):
        a = g[i] if i < len(g) else "<end>"
        b = w[i] if i < len(w) else "<end>"
        if a != b:
            lo = max(0, i - 6)
            return {"at": i, "trace_has": fmt_ops(g[lo:i + 6]), "program_did": fmt_ops(w[lo:i + 6])}
    return None


def _sh(cmd, cwd, env, timeout=120):
    try:
        r = subprocess.run(cmd, cwd=cwd, env=env, stdout=subprocess.PIPE, stderr=subprocess.PIPE, text=True,
                           timeout=timeout, errors="replace")
        return r.returncode, r.stdout, r.stderr
    except subprocess.TimeoutExpired:
        return -999, "", "TIMEOUT"


def project_env():
    env = dict(os.environ)
    env["PYTHONDONTWRITEBYTECODE"] = "1"
    env["PYTHONHASHSEED"] = "0"
    env.pop("PYTHONPATH", None)
    return env


def project_run_one(ctx, out, proj, ri):
    """native run, ground-truth run, traced run + replay + info of one (project, start mode, options)"""
    uft = os.path.join(ctx.src, "uftrace")
    sm, lm, filt = proj["runs"][ri]
    W = proj["W"]
    argv0, cwd, pathdir = start_cmd(W, sm)
    env = project_env()
    if pathdir:
        env["PATH"] = pathdir + ":" + env.get("PATH", "")
    nrc, nout, nerr = _sh([argv0], cwd, env)
    # ground truth: the same command line, untraced, under sys.setprofile
    lenv = dict(env)
    lenv["C19_LOG"] = os.path.join(out, "p%d-%d.log" % (proj["idx"], ri))
    lenv["PYTHONPATH"] = os.path.join(C.VERIF, "harness")
    lrc, lout, lerr = _sh(["python3", "-m", "c19_projlog", argv0], cwd, lenv)
    tenv = dict(env)
    tenv["PYTHONPATH"] = os.path.join(ctx.src, "python")
    d = os.path.join(out, "p%d-%d.data" % (proj["idx"], ri))
    cmd = [uft, "record", "--libmcount-path=" + os.path.join(ctx.src, "libmcount"), "--no-event", "--no-pager",
           "-d", d] + LIBCALL_OPTS[lm] + filt + [argv0]
    rrc, rout, rerr = _sh(["timeout", "100"] + cmd, cwd, tenv)
    _, rp, _ = _sh(["timeout", "100", uft, "replay", "--no-pager", "-d", d, "-f", "none"], cwd, tenv)
    _, info, _ = _sh(["timeout", "60", uft, "info", "--no-pager", "-d", d], cwd, tenv)
    return {"native": (nrc, nout, nerr), "record": (rrc, rout, rerr), "replay": rp, "info": info,
            "ref": (lrc, lout, lerr), "log": read_projlog(lenv["C19_LOG"]),
            "cmd": cmd[:1] + ["record"] + cmd[5:], "cwd": cwd, "pathdir": pathdir, "argv0": argv0}


def project_judge(proj, ri, res):
    """C19's statement on one traced run -> None, or (replay object, shape of F-C19-SCRIPTDIR | None)"""
    sm, lm, filt = proj["runs"][ri]
    evs, cls, files = res["log"]
    ents = []
    for i in range(0, len(filt), 2):
        ents.append(("regex", filt[i + 1], "in" if filt[i] == "-F" else "out"))
    libs = {n for n, c in cls.items() if c == "L"}
    want, cut, nopen = expected_ops(evs, libs, lm, ents or None)
    want = strip_import_internals(want, cls)
    got = strip_import_internals(replay_to_ops(res["replay"]), cls)
    nrc, nout, nerr = res["native"]
    rrc, rout, rerr = res["record"]
    problems = []
    if not evs or res["ref"][1] != nout:
        problems.append("reference run of the program disagrees with the native run (check's own problem)")
    same = compare_ops(got, want, cut)
    if not same:
        problems.append("trace differs from the calls the program made")
    if rout != nout:
        problems.append("stdout of the script changed under uftrace record")
    st = info_exit_status(res["info"])
    if st != nrc:
        problems.append("exit status recorded by uftrace (%r) is not the script's (%r)" % (st, nrc))
    if (rrc == 0) != (nrc == 0):
        problems.append("uftrace record rc %d but the script's status is %d" % (rrc, nrc))
    if not problems:
        return None
    # ---- is this the launcher as found?  (sys.path[0] and main_dir computed differently)
    argv0, cwd, pathdir = start_cmd(proj["W"], sm)
    sp0, md = launcher_prefix_dirs(argv0, cwd, pathdir)
    real = os.path.join(proj["W"], "app")
    shape = None
    if not os.path.exists(os.path.join(sp0, "helper.py")):
        if "ModuleNotFoundError" in rerr and rout != nout:
            shape = "symlinked-script"          # the neighbours are looked up next to the link
    elif sp0 != md:
        libs_pre = set(libs)
        for n, c in cls.items():
            if c != "D":
                continue
            f = files.get(n, "")
            if f.startswith(real + "/"):           # imported from (or named after) sys.path[0] in the traced run
                f = sp0 + f[len(real):]
            if not (f.startswith(md) and f[len(md):len(md) + 1] == "/"):
                libs_pre.add(n)
        want_pre, cut_pre, _ = expected_ops(evs, libs_pre, lm, ents or None)
        cls_pre = {n: ("L" if n in libs_pre else c) for n, c in cls.items()}
        want_pre = strip_import_internals(want_pre, cls_pre)
        got_pre = strip_import_internals(replay_to_ops(res["replay"]), cls_pre)
        if compare_ops(got_pre, want_pre, cut_pre) and rout == nout and st == nrc:
            shape = "relative-path-through-symlinked-directory"
    obj = {"kind": "property-violated-on-implementation", "what": "; ".join(problems), "start_mode": sm,
           "libcall_mode": lm, "options": LIBCALL_OPTS[lm] + filt, "filter_options": filt,
           "command": " ".join(res["cmd"]),
           "cwd": res["cwd"], "PATH_prefix": res["pathdir"], "layout": "app/ = project; link -> app; deep/l2 -> ../link; "
           "bin/tool -> ../app/main.py", "features": proj["features"], "exit_mode": proj["exit"],
           "files": proj["files"], "first_difference": first_diff(got, want) if not same else None,
           "stdout_native": nout[-600:], "stdout_traced": rout[-600:], "record_stderr": rerr[-800:],
           "native_rc": nrc, "record_rc": rrc, "info_exit_status": st,
           "theorem": "c19_refines_doc / c19_end_to_end_balanced / c19_name_is_current_code_object (end to end)"}
    if shape:
        obj.update({"finding": F_SCRIPTDIR, "shape": shape, "sys_path0_as_found": sp0, "main_dir_as_found": md,
                    "witness_theorem": "c19_prefix_scriptdir_witness",
                    "proposed_fix": "proposed_fixes/C19-SCRIPTDIR.diff"})
    return obj, shape


# ---------------------------------------------------------------- H5b: projects that FORK
# harness/c19_projgen.py gen_fork_project: parent waits / parent exits first (the child blocks on a pipe
# until the parent is gone) / double fork / multiprocessing.Process; the child calls functions (of the
# script, of a sibling module, methods, builtins) nobody called before the fork.  Ground truth = one
# sys.setprofile log PER PROCESS of an untraced run (c19_projlog.py starts a new log after a fork).
# Monitor (C19's statement, per process): the sequences of program-code calls the processes made are the
# sequences of program-code entries of the tasks of the trace, under their NAMES; no call of the trace
# is unnamed (<9>(), <a>(): an address with no entry in python.fake.sym); the script's output (as a
# multiset of lines: the processes are not ordered against each other) and exit status are unchanged.
FORK_DROP = ("os_exit",)
UNNAMED_RE = re.compile(r"^<[0-9a-f]+>$")


def replay_by_task(text):
    """`uftrace replay -f tid` -> ({tid: [entry names in order]}, [unnamed entries])"""
    tasks, unnamed = {}, []
    for l in text.split("\n"):
        m = re.match(r"\s*\[\s*(\d+)\] \|\s*(.*?)\s*$", l)
        if not m:
            continue
        b = m.group(2)
        if not b or b.startswith("}") or b.startswith("/*"):
            continue
        if b.endswith("{") or b.endswith(";"):
            name = b[:-1].strip()
            if name.endswith("()"):
                name = name[:-2]
            tasks.setdefault(m.group(1), []).append(name)
            if UNNAMED_RE.match(name):
                unnamed.append(name)
    return tasks, unnamed


def fork_run_one(ctx, out, proj, ri):
    uft = os.path.join(ctx.src, "uftrace")
    sm, lm, filt = proj["runs"][ri]
    argv0, cwd, pathdir = start_cmd(proj["W"], sm)
    env = project_env()
    nrc, nout, nerr, nto = C.run_bounded([argv0], 60, cwd=cwd, env=env, errors="replace")
    lenv = dict(env)
    base = os.path.join(out, "f%d-%d.log" % (proj["idx"], ri))
    lenv["C19_LOG"] = base
    lenv["PYTHONPATH"] = os.path.join(C.VERIF, "harness")
    lrc, lout, lerr, lto = C.run_bounded(["python3", "-m", "c19_projlog", argv0], 60, cwd=cwd, env=lenv, errors="replace")
    logs = [read_projlog(base)]
    for f in sorted(os.listdir(out)):
        if f.startswith(os.path.basename(base) + "."):
            logs.append(read_projlog(os.path.join(out, f)))
    tenv = dict(env)
    tenv["PYTHONPATH"] = os.path.join(ctx.src, "python")
    d = os.path.join(out, "f%d-%d.data" % (proj["idx"], ri))
    cmd = [uft, "record", "--libmcount-path=" + os.path.join(ctx.src, "libmcount"), "--no-event", "--no-pager",
           "-d", d] + LIBCALL_OPTS[lm] + [argv0]
    rrc, rout, rerr, rto = C.run_bounded(cmd, 100, cwd=cwd, env=tenv, errors="replace")
    _, rp, _, _ = C.run_bounded([uft, "replay", "--no-pager", "-d", d, "-f", "tid"], 100, cwd=cwd, env=tenv, errors="replace")
    _, info, _, _ = C.run_bounded([uft, "info", "--no-pager", "-d", d], 60, cwd=cwd, env=tenv, errors="replace")
    return {"native": (nrc, nout, nerr), "record": (rrc, rout, rerr), "replay": rp, "info": info,
            "ref": (lrc, lout, lerr), "logs": logs, "timeouts": [nto, lto, rto],
            "cmd": cmd[:1] + ["record"] + cmd[5:], "cwd": cwd, "argv0": argv0}


def fork_judge(proj, ri, res):
    sm, lm, filt = proj["runs"][ri]
    prog = set()
    for evs, cls, files in res["logs"]:
        prog |= {n for n, c in cls.items() if c in ("M", "D")}
    prog -= set(FORK_DROP)
    want = []
    for evs, cls, files in res["logs"]:
        seq = [e[2:] for e in evs if e[0] == "c" and e[2:] in prog]
        if seq:
            want.append(seq)
    tasks, unnamed = replay_by_task(res["replay"])
    got = [[n for n in seq if n in prog] for seq in tasks.values()]
    got = [g for g in got if g]
    nrc, nout, nerr = res["native"]
    rrc, rout, rerr = res["record"]
    problems = []
    lines = lambda t: sorted(t.split("\n"))
    if any(res["timeouts"][:2]) or len(want) < 2 or lines(res["ref"][1]) != lines(nout):
        problems.append("reference run of the program disagrees with the native run (check's own problem)")
    if res["timeouts"][2]:
        problems.append("uftrace record did not finish within 100 s")
    missing = []
    if sorted(got) != sorted(want):
        seen = {n for g in got for n in g}
        missing = sorted({n for w in want for n in w} - seen)
        problems.append("the program-code calls of the %d processes are not the entries of the tasks of the trace%s"
                        % (len(want), " (never shown under their name: %s)" % ", ".join(missing) if missing else ""))
    if unnamed:
        problems.append("the trace has %d calls of unnamed functions (%s)" % (len(unnamed), ", ".join(sorted(set(unnamed))[:6])))
    if lines(rout) != lines(nout):
        problems.append("stdout of the script changed under uftrace record")
    st = info_exit_status(res["info"])
    if st != nrc:
        problems.append("exit status recorded by uftrace (%r) is not the script's (%r)" % (st, nrc))
    if (rrc == 0) != (nrc == 0):
        problems.append("uftrace record rc %d but the script's status is %d" % (rrc, nrc))
    if not problems:
        return None
    return {"kind": "property-violated-on-implementation", "family": "fork-project", "what": "; ".join(problems),
            "fork_variant": proj["variant"], "start_mode": sm, "libcall_mode": lm, "options": LIBCALL_OPTS[lm],
            "filter_options": [], "command": " ".join(res["cmd"]), "cwd": res["cwd"], "files": proj["files"],
            "features": proj["features"], "exit_mode": proj["exit"],
            "functions_first_called_in_a_child": proj.get("late"),
            "program_calls_per_process": [" ".join(w) for w in sorted(want)],
            "trace_entries_per_task": [" ".join(g) for g in sorted(got)],
            "names_missing_in_trace": missing, "unnamed_calls_in_trace": sorted(set(unnamed)),
            "stdout_native": nout[-600:], "stdout_traced": rout[-600:], "record_stderr": rerr[-800:],
            "native_rc": nrc, "record_rc": rrc, "info_exit_status": st,
            "theorem": "c19_refines_doc (per process); Model/PyHook World: a symbol interned by any process of the "
                       "run is in the symbol file the readers see"}


def run_fork_projects(ctx, root, out):
    import random
    from concurrent.futures import ThreadPoolExecutor
    import c19_projgen as G
    rng = random.Random("C19-fork-%d" % ctx.seed)        # own stream: the older families keep their draws
    quick = ctx.tier == "quick"
    nproj = 8 if quick else 32
    variants = ["wait", "parent-first", "double", "mp"]
    projects = []
    for k in range(nproj):
        proj = G.gen_fork_project(rng, k, variants[k % 4])
        W = os.path.join(root, "f%d" % k)
        os.makedirs(W)
        project_materialize(W, proj)
        proj["W"], proj["idx"] = W, k
        lm = MODES[(k // 4 + k) % 3]
        if proj["heavy"] and lm == "NESTED":
            lm = "NONE"
        proj["runs"] = [(["rel", "dot", "abs"][(k // 4) % 3], lm, [])]
        projects.append(proj)
    with ThreadPoolExecutor(8) as ex:
        results = list(ex.map(lambda p: fork_run_one(ctx, out, p, 0), projects))
    fails, reports, procs = 0, [], 0
    by_variant = {}
    for proj, res in zip(projects, results):
        by_variant[proj["variant"]] = by_variant.get(proj["variant"], 0) + 1
        procs += len(res["logs"])
        obj = fork_judge(proj, 0, res)
        if obj is not None and "stdout of the script changed" not in obj["what"] and "exit status" not in obj["what"] \
                and ("unnamed functions" in obj["what"] or "never shown under their name" in obj["what"]):
            # open finding F-C19-FORK-SYMTAB-RACE (timing dependent): names first interned by a forked child are now
            # and then missing from python.fake.sym.  It counts as that finding only if the very same project passes
            # when it is recorded again: a defect that is really in the tree fails both times and is reported.
            proj["runs"] = proj["runs"] + proj["runs"][:1]
            obj2 = fork_judge(proj, 1, fork_run_one(ctx, out, proj, 1))
            ent = next((f for f in C.known_findings("C19") if f["id"] == "F-C19-FORK-SYMTAB-RACE" and f["status"] == "open"), None)
            if obj2 is None and ent is not None:
                C.known(ctx, ent, "F-C19-FORK-SYMTAB-RACE functions first called in a forked child (%s variant) were recorded "
                                  "without a name in one run and correctly in the repeated run (timing dependent; %s)"
                        % (proj["variant"], obj["what"][:150]))
                obj = None
        if obj is not None:
            fails += 1
            reports.append(("e2e-fork%d-%s" % (proj["idx"], proj["variant"]), obj))
    reports.sort(key=lambda r: (len(r[1]["files"]["main.py"]), r[0]))
    for name, obj in reports[:2]:
        C.violation(ctx, name, obj)
    return {"fork_projects": nproj, "by_variant": by_variant, "processes_logged": procs, "failures": fails}


def run_projects(ctx):
    """-> coverage dict; reports violations / the open finding"""
    import sys
    from concurrent.futures import ThreadPoolExecutor
    sys.path.insert(0, os.path.join(C.VERIF, "harness"))
    import c19_projgen as G
    rng = ctx.rng
    okb, log = ctx.make()
    if not okb:
        C.violation(ctx, "e2e-build", {"kind": "snapshot-build-failed", "log": log[-2000:]}, True)
        return {"built": False}
    root = os.path.join(os.path.realpath(ctx.scratch), "projects")
    out = os.path.join(os.path.realpath(ctx.scratch), "projects-out")       # logs and data: not inside a project
    os.makedirs(root, exist_ok=True)
    os.makedirs(out, exist_ok=True)
    quick = ctx.tier == "quick"
    nproj = 12 if quick else 40
    # features every run must contain somewhere (deterministic spread), the rest is random per project
    must = [["rules-drop"], ["rules-drop", "rules-inside"], ["rules-drop", "lambdas"], ["classgen", "rules-drop"],
            ["namedtuple"], ["dataclass"], ["rules-kept", "rules-inside"], ["pkg", "helper-class"],
            ["rules-drop", "namedtuple"], ["lambdas", "classgen"], ["local-class", "closure"], ["generator", "exception"]]
    projects = []
    # corpus first: the witness project of F-C19-SCRIPTDIR (and whatever else was minimised into corpus/C19/projects)
    cdir = os.path.join(C.VERIF, "corpus", "C19", "projects")
    corpus = sorted(os.listdir(cdir)) if os.path.isdir(cdir) else []
    for pi in range(len(corpus) + nproj):
        if pi < len(corpus):
            proj = json.load(open(os.path.join(cdir, corpus[pi])))
            fixed_runs = [tuple(r) for r in proj.get("runs", [])]
        else:
            proj = G.gen_project(rng, pi, must[(pi - len(corpus)) % len(must)])
            fixed_runs = None
        W = os.path.join(root, "p%d" % pi)
        os.makedirs(W)
        project_materialize(W, proj)
        proj["W"] = W
        proj["idx"] = pi
        proj["runs"] = []
        if fixed_runs is not None:
            proj["runs"] = [(sm, lm, list(filt)) for sm, lm, filt in fixed_runs]
            projects.append(proj)
            continue
        modes = list(START_MODES) if quick else list(START_MODES) * 2
        for si, sm in enumerate(modes):
            lm = MODES[(pi + si + (si // len(START_MODES))) % 3]
            if proj["heavy"] and lm == "NESTED":
                lm = "SINGLE"
            filt = rng.choice(G.FILTER_POOL)
            proj["runs"].append((sm, lm, filt))
        projects.append(proj)

    with ThreadPoolExecutor(12) as ex:
        jobs = [(p, ri) for p in projects for ri in range(len(p["runs"]))]
        results = list(ex.map(lambda j: project_run_one(ctx, out, j[0], j[1]), jobs))

    try:
        lm_cases, lm_bad = launcher_model_check(ctx, projects[0]["W"])
    except Exception as e:        # the driver is not available (broken proof obligation): e2e goes on
        lm_cases, lm_bad = 0, str(e)[-200:]
    runs = fails = finding_hits = warn_lines = 0
    by_mode = {}
    fail_modes = {}
    reports = []
    finding_cases = []
    events_total = 0
    kf = find_known(F_SCRIPTDIR)
    for (proj, ri), res in zip(jobs, results):
        sm, lm, filt = proj["runs"][ri]
        runs += 1
        by_mode[sm] = by_mode.get(sm, 0) + 1
        events_total += len(res["log"][0])
        warn_lines += res["record"][2].count("unpaired cygprof exit")
        j = project_judge(proj, ri, res)
        if j is None:
            continue
        obj, shape = j
        if shape:
            finding_hits += 1
            finding_cases.append(("e2e-proj%d-%s" % (proj["idx"], sm), obj, shape))
            continue
        fails += 1
        fail_modes[sm] = fail_modes.get(sm, 0) + 1
        reports.append(("e2e-proj%d-%s" % (proj["idx"], sm), obj))
    # smallest programs first; at most 3 replays
    reports.sort(key=lambda r: (len(r[1]["files"]["main.py"]), r[0]))
    for name, obj in reports[:3]:
        C.violation(ctx, name, obj)
    if finding_cases:
        shapes_seen = sorted({s for _, _, s in finding_cases})
        what = ("%s open: python/uftrace.py puts dirname(<cwd>/<script>) into sys.path while trace-python.c takes "
                "realpath() of a relative script name for the program's directory (and neither resolves a script that "
                "is a symbolic link): %d of %d project runs (%s)" % (F_SCRIPTDIR, finding_hits, runs, ", ".join(shapes_seen)))
        if kf is not None:
            C.known(ctx, kf, what)
        else:
            done = set()
            for name, obj, shape in sorted(finding_cases, key=lambda r: (len(r[1]["files"]["main.py"]), r[0])):
                if shape not in done:
                    done.add(shape)
                    C.violation(ctx, name, obj)
    try:
        fork_cov = run_fork_projects(ctx, root, out)
    except Exception as e:
        import traceback
        fork_cov = {"error": traceback.format_exc()[-600:]}
        C.violation(ctx, "e2e-fork-family", {"kind": "check-internal-error", "error": fork_cov["error"]}, True)
    return {"built": True, "projects": nproj, "corpus_projects": len(corpus), "record_runs": runs, "by_start_mode": by_mode,
            "fork_family": fork_cov,
            "launcher_model_cases": lm_cases, "launcher_model_disagreements": lm_bad,
            "failures": fails, "failures_by_start_mode": fail_modes,
            "runs_matching_the_launcher_as_found_F_SCRIPTDIR": finding_hits,
            "ground_truth_events": events_total, "unpaired_exit_warnings_on_stderr": warn_lines,
            "features": sorted({f for p in projects for f in p["features"]}),
            "exit_modes": sorted({p["exit"] for p in projects})}


def replay_project(ctx, obj):
    """re-run one project case of a replay file against the current tree"""
    okb, log = ctx.make()
    if not okb:
        print("snapshot build failed:\n" + log[-1500:])
        return 2
    root = os.path.join(os.path.realpath(ctx.scratch), "projects")
    out = os.path.join(os.path.realpath(ctx.scratch), "projects-out")
    os.makedirs(out, exist_ok=True)
    W = os.path.join(root, "p0")
    os.makedirs(W)
    proj = {"files": obj["files"], "features": obj.get("features", []), "exit": obj.get("exit_mode"), "W": W, "idx": 0,
            "runs": [(obj["start_mode"], obj["libcall_mode"], obj.get("filter_options", []))]}
    project_materialize(W, proj)
    res = project_run_one(ctx, out, proj, 0)
    j = project_judge(proj, 0, res)
    print("command : %s   (cwd %s, PATH prefix %s)" % (" ".join(res["cmd"]), res["cwd"], res["pathdir"]))
    if j is None:
        print("monitor : ok (trace = the calls the program made; stdout and exit status unchanged)")
        return 0
    o, shape = j
    print("monitor : " + o["what"])
    print("first difference: %s" % o["first_difference"])
    if shape:
        print("matches the launcher as found (%s, shape %s)" % (F_SCRIPTDIR, shape))
    return 1


def replay_fork_project(ctx, obj):
    okb, log = ctx.make()
    if not okb:
        print("snapshot build failed:\n" + log[-1500:])
        return 2
    sys_path = os.path.join(C.VERIF, "harness")
    import sys
    if sys_path not in sys.path:
        sys.path.insert(0, sys_path)
    root = os.path.join(os.path.realpath(ctx.scratch), "projects")
    out = os.path.join(os.path.realpath(ctx.scratch), "projects-out")
    os.makedirs(out, exist_ok=True)
    W = os.path.join(root, "f0")
    os.makedirs(W)
    proj = {"files": obj["files"], "features": obj.get("features", []), "exit": obj.get("exit_mode"), "W": W, "idx": 0,
            "variant": obj.get("fork_variant"), "late": obj.get("functions_first_called_in_a_child"),
            "runs": [(obj["start_mode"], obj["libcall_mode"], [])]}
    project_materialize(W, proj)
    res = fork_run_one(ctx, out, proj, 0)
    o = fork_judge(proj, 0, res)
    print("command : %s   (cwd %s)" % (" ".join(res["cmd"]), res["cwd"]))
    if o is None:
        print("monitor : ok (every call of every process is in the trace under its name; stdout and exit status unchanged)")
        return 0
    print("monitor : " + o["what"])
    print("program calls per process : %s" % o["program_calls_per_process"])
    print("trace entries per task    : %s" % o["trace_entries_per_task"])
    return 1


def replay(ctx, path):
    obj = json.load(open(path))
    print(json.dumps(obj, indent=1))
    line = obj.get("model_input")
    if obj.get("family") == "fork-project":
        ctx.snapshot()
        return replay_fork_project(ctx, obj)
    if "files" in obj and "start_mode" in obj:
        ctx.snapshot()
        return replay_project(ctx, obj)
    if obj.get("harness_input", "").startswith("hook ") or (line or "").startswith("hook "):
        return replay_hook(ctx, obj)
    if not line or line.startswith("spec "):
        return 0
    ctx.snapshot()
    exe, log = build_harness(ctx)
    if exe is None:
        print("harness build failed:\n" + log[-2000:])
        return 2
    r, models, impls, infos = run_harness(exe, [line])
    if len(impls) != 1:
        print("harness failed: " + r.stderr[-500:])
        return 2
    m1 = C.run_model("C19", [with_fixed(models[0], "1")])[0]
    m0 = C.run_model("C19", [with_fixed(models[0], "0")])[0]
    bad = code_monitor(line, impls[0]) if line.startswith("code ") else monitor(line, impls[0])
    print("case            : " + line)
    print("implementation  : " + C.norm(impls[0]))
    print("model (fixed)   : " + C.norm(m1))
    print("model (pre-fix) : " + C.norm(m0))
    print("monitor         : " + ("ok" if not bad else "%s: %s" % bad))
    return 1 if (bad or C.norm(impls[0]) != C.norm(m1)) else 0


def replay_hook(ctx, obj):
    from lib import h1
    line = obj.get("harness_input") or obj["model_input"]
    env = dict(obj.get("env") or {})
    asan = bool(obj.get("asan_build"))
    exe, log = build_hook_harness(ctx, asan=asan)
    if exe is None:
        print("harness build failed:\n" + log[-2000:])
        return 2
    r = run_hook_cases(ctx, exe, [(line, env, "replay")], asan=asan)[0]
    rc = 0
    if "AddressSanitizer" in r["stderr"]:
        print("AddressSanitizer report:\n" + "\n".join(r["stderr"].split("\n")[:25]))
        rc = 1
    elif r["model"] is None or r["impl"] is None:
        print("harness failed (rc %s): %s" % (r["rc"], r["stderr"][-800:]))
        return 2
    else:
        impl = C.norm(r["impl"])
        outs = {}
        for g, p in (("1", "1"), ("0", "1"), ("1", "0")):
            outs[(g, p)] = C.norm(C.run_model("C19", [hook_variant(r["model"], "1", g, p)])[0])
        bad = hook_monitor(r["model"], impl)
        print("case                       : " + r["model"])
        print("environment                : %s" % env)
        print("implementation             : " + impl)
        print("model (repaired)           : " + outs[("1", "1")])
        print("model (pre-fix guard=false): " + outs[("0", "1")])
        print("model (pre-fix pin=false)  : " + outs[("1", "0")])
        print("harness note               : " + r["note"])
        print("monitor                    : " + ("ok" if not bad else "%s: %s" % bad))
        rc = 1 if (bad or impl != outs[("1", "1")]) else 0
    if obj.get("finding") in (F_OOB, F_ALIAS):
        e = e2e_confirm(ctx, "oob" if obj["finding"] == F_OOB else "alias")
        print("script under `uftrace record`: %s" % e)
        if e.get("runs_with_symptom"):
            rc = 1
    return rc
