"""C19 — Python programs are traced at function granularity with balanced calls.
Lean: Uft/Model/PyTrace.lean, Uft/Props/C19.lean.  Tie: correspondence (H4): the
real uftrace_trace_python() of python/trace-python.c (whole file #included into
harness/c19_pytrace.c, run inside an embedded interpreter with our own
cygprof_enter/exit) against the model on the same event streams; the property
monitor (balance, counters restored, documented selection) is evaluated on the
implementation's output.  Thorough tier adds H5: generated Python programs under
the snapshot's `uftrace record`."""
import fnmatch
import itertools
import json
import os
import re
import subprocess

from lib import common as C

FINDING = "F2"
REGEX_CHARS = ".?*+-^$|()[]{}"

MAIN_PY = ["a", "b", "g", "h", "mod.x"]
LIB_PY = ["lib.f", "lib.g"]
CFUN = ["os.getpid", "builtins.len"]
LIBS = LIB_PY + CFUN
LIBSTR = ",".join(LIBS)
MODES = ["NONE", "SINGLE", "NESTED"]

# the 12 filter sets of the exhaustive part (UFTRACE_FILTER strings, regex patterns)
FILTER_SETS = ["-", "a", "!g", "a;!g", "!g;a", "g;a", "!a;!lib.f", "^lib", "a;!.getpid",
               "!a;a", "a;!a;!g", "lib.f;!os.getpid"]

# pattern pools for the random part, per UFTRACE_PATTERN
PATTERNS = {
    "regex": ["a", "b", "g", "h", "^lib", "lib.f", "lib.g", ".getpid", "os.getpid", "builtins.len",
              "^mod", "mod.x", "len$", "^os", "l.*f", "^.$", "ib", "zz"],
    "glob": ["a", "b", "g", "h", "lib.*", "lib.f", "*.getpid", "os.*", "builtins.len", "mod.?",
             "?", "*", "*.?", "zz*"],
    "simple": ["a", "b", "g", "h", "lib.f", "lib.g", "os.getpid", "builtins.len", "mod.x", "lib", "zz"],
}


# ---------------------------------------------------------------- trees / events
def events_of(forest):
    out = []
    for name, kind, kids in forest:
        out.append(("c:" if kind == "p" else "C:") + name)
        out += events_of(kids)
        out.append({"p": "r:", "c": "R:", "x": "X:"}[kind] + name)
    return out


def tree_tokens(forest):
    out = []
    for name, kind, kids in forest:
        out += ["(", kind, name] + tree_tokens(kids) + [")"]
    return out


def tree_of(evs):
    """events -> forest if the stream is a complete, properly nested one, else None"""
    stack = [[]]
    names = []
    for e in evs:
        t, name = e[0], e[2:]
        if t in "cC":
            node = [name, t, []]
            stack[-1].append(node)
            stack.append(node[2])
            names.append((name, t))
        elif t in "rRX":
            if not names:
                return None
            n0, t0 = names.pop()
            if n0 != name or (t0 == "c") != (t == "r"):
                return None
            stack.pop()
            node = stack[-1][-1]
            node[1] = {"r": "p", "R": "c", "X": "x"}[t]
        else:
            return None
    if names:
        return None
    return [tuple_tree(n) for n in stack[0]]


def tuple_tree(n):
    return (n[0], n[1], [tuple_tree(k) for k in n[2]])


def is_prefix_of_nested(evs):
    """a stream cut off at some point (os._exit): every return matches the open call"""
    names = []
    for e in evs:
        t, name = e[0], e[2:]
        if t in "cC":
            names.append((name, t))
        elif t in "rRX":
            if not names:
                return False
            n0, t0 = names.pop()
            if n0 != name or (t0 == "c") != (t == "r"):
                return False
        else:
            return False
    return True


def shapes(n):
    """all forests with n unlabeled nodes"""
    if n == 0:
        return [[]]
    out = []
    for k in range(1, n + 1):
        for kids in shapes(k - 1):
            for sibs in shapes(n - k):
                out.append([kids] + sibs)
    return out


def label(shape, labels, pos):
    forest = []
    for kids in shape:
        name, kind = labels[pos[0]]
        if kind == "c" and pos[0] % 2 == 1:
            kind = "x"          # a C call at an odd preorder position ends by c_exception
        pos[0] += 1
        forest.append((name, kind, label(kids, labels, pos)))
    return forest


def rand_forest(rng, budget, pool, depth=0):
    forest = []
    while budget[0] > 0 and rng.random() < (0.75 if depth else 0.9):
        budget[0] -= 1
        name = rng.choice(pool)
        kind = "p"
        if name in CFUN:
            kind = "x" if rng.random() < 0.25 else "c"
        kids = rand_forest(rng, budget, pool, depth + 1) if rng.random() < 0.6 and depth < 8 else []
        forest.append((name, kind, kids))
    return forest


def rand_filter(rng, ptype):
    k = rng.choice([1, 1, 2, 2, 3, 4])
    ents = []
    for _ in range(k):
        p = rng.choice(PATTERNS[ptype])
        ents.append(("!" if rng.random() < 0.45 else "") + p)
    return ";".join(ents)


# ---------------------------------------------------------------- the property monitor
def parse_filters(filt, ptype):
    if filt == "-":
        return None
    out = []
    for ent in filt.split(";"):
        mode = "in"
        if ent.startswith("!"):
            mode, ent = "out", ent[1:]
        ty = ptype if any(ch in REGEX_CHARS for ch in ent) else "simple"
        out.append((ty, ent, mode))
    return out


def hit(ty, pat, name):
    if ty == "simple":
        return pat == name
    if ty == "glob":
        return fnmatch.fnmatchcase(name, pat)
    return re.search(pat, name) is not None


def doc_selection(forest, mode, filters, libs):
    """The documented selection, written from doc/uftrace-record.md: -F functions
    with everything they call, -N functions and what they call left out (first
    matching option wins), library calls per libcall mode.  Independent of the
    Lean text; compared with `specCalls` through the driver's `spec` op."""
    opt_in = filters is not None and any(m == "in" for _, _, m in filters)
    out = []

    def first(name):
        for ty, pat, m in (filters or []):
            if hit(ty, pat, name):
                return m
        return None

    def walk(nodes, active, blocked, ld):
        for name, kind, kids in nodes:
            m = first(name)
            act = active or m == "in"
            blk = blocked or m == "out"
            sel = (not blk) and (act or not opt_in)
            lib = name in libs
            tr = sel and (not lib or mode == "NESTED" or (mode == "SINGLE" and ld == 0))
            ld2 = ld + 1 if (sel and lib and mode == "SINGLE") else ld
            if tr:
                out.append(name)
            walk(kids, act, blk, ld2)
            if tr:
                out.append(None)
    walk(forest, False, False, 0)
    return out


def parse_impl(line):
    """'E1 X | 0 0 0 | 1:T:a' -> (ops, counters, symtab) ; ops = list of addr or None"""
    parts = [p.strip() for p in line.split("|")]
    if len(parts) != 3:
        return None
    ops = []
    for t in parts[0].split():
        if t == "X":
            ops.append(None)
        elif t.startswith("E") and t[1:].isdigit():
            ops.append(int(t[1:]))
        else:
            return None
    try:
        cnt = [int(x) for x in parts[1].split()]
    except ValueError:
        return None
    syms = {}
    for t in parts[2].split():
        a, ty, name = t.split(":", 2)
        syms[int(a)] = (ty, name)
    return ops, cnt, syms


def monitor(case_line, impl_line):
    """C19 on the implementation's observable behaviour for one case.
    Returns None or (theorem, description)."""
    head, evs = case_line.split("|", 1)
    _, mode, ptype, filt, libs = head.split()
    evs = evs.split()
    libs = [] if libs == "-" else libs.split(",")
    parsed = parse_impl(impl_line)
    if parsed is None:
        return ("correspondence", "unparsable implementation output")
    ops, cnt, syms = parsed
    if not is_prefix_of_nested(evs):
        return None            # model validation only
    # every prefix: #exit <= #enter
    d = 0
    for i, o in enumerate(ops):
        d += 1 if o is not None else -1
        if d < 0:
            return ("c19_balanced_output", "hook call %d is an exit with nothing open (unpaired cygprof exit)" % i)
    forest = tree_of(evs)
    if forest is None:
        return None            # truncated run: only the prefix property applies
    if d != 0:
        return ("c19_balanced_output", "%d enter(s) never closed at the end of a complete run" % d)
    if cnt != [0, 0, 0]:
        return ("c19_state_restored", "counters after the run are %s, not 0 0 0" % cnt)
    # symbol table: distinct addresses, type P exactly for library functions
    if len(set(n for _, n in syms.values())) != len(syms):
        return ("correspondence", "one name has two addresses")
    for a, (ty, name) in syms.items():
        if (ty == "P") != (name in libs):
            return ("correspondence", "symbol %s has type %s" % (name, ty))
    got = [None if o is None else syms.get(o, ("?", "?%d" % o))[1] for o in ops]
    want = doc_selection(forest, mode, parse_filters(filt, ptype), libs)
    if got != want:
        return ("c19_refines_doc", "recorded calls %s differ from the documented selection %s" % (
            fmt_ops(got), fmt_ops(want)))
    return None


def fmt_ops(ops):
    return " ".join("}" if o is None else o + "{" for o in ops)


# ---------------------------------------------------------------- harness
def build_harness(ctx):
    exe = os.path.join(ctx.scratch, "h_c19")
    pc = C.sh(["pkg-config", "python3-embed", "--cflags"])
    pl = C.sh(["pkg-config", "python3-embed", "--libs"])
    if pc.returncode != 0 or pl.returncode != 0:
        return None, "pkg-config python3-embed failed: " + pc.stdout + pl.stdout
    srcs = [os.path.join(C.VERIF, "harness/c19_pytrace.c")] + [
        os.path.join(ctx.src, "utils", f) for f in
        ("debug.c", "utils.c", "rbtree.c", "shmem.c", "symbol-rawelf.c", "symbol-libelf.c")]
    ok, log = ctx.cc(exe, srcs + pl.stdout.split() + ["-ldl", "-lrt"],
                     extra=["-DHAVE_LIBPYTHON3"] + pc.stdout.split())
    return (exe if ok else None), log


def run_harness(exe, lines, timeout=1500):
    r = subprocess.run([exe], input="\n".join(lines) + "\n", stdout=subprocess.PIPE,
                       stderr=subprocess.PIPE, text=True, timeout=timeout)
    out = r.stdout.split("\n")
    models = [l[6:] for l in out if l.startswith("MODEL ")]
    impls = [l[5:] for l in out if l.startswith("IMPL ")]
    infos = [l for l in out if l.startswith("INFO ")]
    return r, models, impls, infos


def case_line(mode, ptype, filt, evs, fixed="1"):
    return "%s %s %s %s %s | %s" % (fixed, mode, ptype, filt, LIBSTR, " ".join(evs))


def with_fixed(line, fixed):
    return fixed + line[1:]


def generate(ctx):
    """-> list of (case line, class)"""
    rng = ctx.rng
    cases = []
    # corpus first
    cdir = os.path.join(C.VERIF, "corpus", "C19")
    if os.path.isdir(cdir):
        for fn in sorted(os.listdir(cdir)):
            for l in open(os.path.join(cdir, fn)):
                l = l.strip()
                if l and not l.startswith("#"):
                    cases.append((l, "corpus"))
    # exhaustive nested streams
    alphabet = [("a", "p"), ("g", "p"), ("lib.f", "p"), ("os.getpid", "c")]
    nmax = 3 if ctx.tier == "quick" else 4
    nexh = 0
    for n in range(1, nmax + 1):
        for shape in shapes(n):
            for labels in itertools.product(alphabet, repeat=n):
                forest = label(shape, labels, [0])
                evs = events_of(forest)
                for mode in MODES:
                    for filt in FILTER_SETS:
                        cases.append((case_line(mode, "regex", filt, evs), "exhaustive"))
                        nexh += 1
    pool = MAIN_PY + LIB_PY + CFUN
    # 4-node streams sampled in the quick tier
    if ctx.tier == "quick":
        sh4 = shapes(4)
        for _ in range(120):
            labels = [rng.choice(alphabet) for _ in range(4)]
            evs = events_of(label(rng.choice(sh4), labels, [0]))
            for mode in MODES:
                for filt in FILTER_SETS:
                    cases.append((case_line(mode, "regex", filt, evs), "sampled-8-events"))
    # random larger nested streams, random filters / pattern types
    nrand = 2500 if ctx.tier == "quick" else 50000
    for _ in range(nrand):
        forest = rand_forest(rng, [rng.randint(1, 40)], rng.choice([pool, pool, ["a", "g", "lib.f", "os.getpid"]]))
        evs = events_of(forest)
        if not evs:
            continue
        ptype = rng.choice(["regex", "regex", "glob", "simple"])
        filt = "-" if rng.random() < 0.1 else rand_filter(rng, ptype)
        cls = "random-nested"
        if rng.random() < 0.2:          # the program stops somewhere (os._exit)
            evs = evs[:rng.randint(1, len(evs))]
            cls = "random-truncated"
        cases.append((case_line(rng.choice(MODES), ptype, filt, evs), cls))
    # arbitrary event sequences (not nested): model validation only
    nfree = 600 if ctx.tier == "quick" else 10000
    for _ in range(nfree):
        evs = []
        for _ in range(rng.randint(1, 14)):
            name = rng.choice(["a", "g", "lib.f", "os.getpid", "b"])
            if name in CFUN:
                evs.append(rng.choice(["C:", "R:", "X:", "C:", "o:"]) + name)
            else:
                evs.append(rng.choice(["c:", "r:", "c:"]) + name)
        ptype = rng.choice(["regex", "glob", "simple"])
        cases.append((case_line(rng.choice(MODES), ptype, rand_filter(rng, ptype), evs), "free-form"))
    return cases, nexh


def f2_open():
    for f in C.known_findings("C19"):
        if f.get("id") == FINDING:
            return f
    return None


def run(ctx):
    ok, problems = C.prove(ctx, "C19")
    if not ok:
        C.violation(ctx, "proof", {"kind": "proof-obligation-broken", "problems": problems}, True)
        return C.finish(ctx)

    ctx.snapshot()
    exe, log = build_harness(ctx)
    if exe is None:
        C.violation(ctx, "build", {"kind": "harness-build-failed", "log": log[-3000:]}, True)
        return C.finish(ctx)

    cases, nexh = generate(ctx)
    lines = [c[0] for c in cases]
    r, models, impls, infos = run_harness(exe, lines)
    if r.returncode != 0 or len(models) != len(cases) or len(impls) != len(cases) or infos:
        C.violation(ctx, "harness", {"kind": "harness-failed", "rc": r.returncode, "infos": infos[:5],
                                     "stderr": r.stderr[-2000:], "cases": len(cases),
                                     "got": [len(models), len(impls)]}, True)
        return C.finish(ctx)

    m_fixed = C.run_model("C19", [with_fixed(m, "1") for m in models])
    m_pre = C.run_model("C19", [with_fixed(m, "0") for m in models])

    # the monitor's reading of the manual against the Lean specification
    spec_in, spec_idx, spec_want = [], [], []
    for i, l in enumerate(lines):
        head, evs = l.split("|", 1)
        forest = tree_of(evs.split())
        if forest is None:
            continue
        _, mode, ptype, filt, libs = head.split()
        spec_in.append("spec " + head.strip() + " | " + " ".join(tree_tokens(forest)))
        spec_idx.append(i)
        spec_want.append(doc_selection(forest, mode, parse_filters(filt, ptype),
                                       [] if libs == "-" else libs.split(",")))
    spec_out = C.run_model("C19", spec_in) if spec_in else []
    spec_mismatch = 0
    for k, i in enumerate(spec_idx):
        # driver prints E<addr>: translate through the (model's) symbol table of the fixed run
        syms = parse_impl(m_fixed[i])
        names = [None if t == "X" else syms[2][int(t[1:])][1] for t in spec_out[k].split()] if syms else None
        if names != spec_want[k]:
            spec_mismatch += 1
            if spec_mismatch <= 2:
                C.violation(ctx, "spec%d" % i, {
                    "kind": "monitor-and-lean-spec-disagree", "model_input": spec_in[k],
                    "lean_specCalls": spec_out[k], "python_doc_selection": fmt_ops(spec_want[k]),
                    "theorem": "c19_refines_doc"}, True)

    # compare
    n = len(cases)
    neq_fixed = [i for i in range(n) if C.norm(impls[i]) != C.norm(m_fixed[i])]
    neq_pre = [i for i in range(n) if C.norm(impls[i]) != C.norm(m_pre[i])]
    mon = {}
    for i in range(n):
        bad = monitor(lines[i], impls[i])
        if bad:
            mon[i] = bad
    matches_prefix_everywhere = bool(neq_fixed) and not neq_pre
    neither = [i for i in neq_fixed if i in set(neq_pre)]

    def replay_obj(i, kind):
        return {"kind": kind, "model_input": lines[i], "class": cases[i][1],
                "impl_output": C.norm(impls[i]), "model_output": C.norm(m_fixed[i]),
                "model_output_prefix_F2": C.norm(m_pre[i]),
                "what": mon[i][1] if i in mon else None,
                "theorem": mon[i][0] if i in mon else "correspondence PyTrace.run vs uftrace_trace_python",
                "matches_prefix_model_F2": C.norm(impls[i]) == C.norm(m_pre[i])}

    reported = 0
    if matches_prefix_everywhere:
        # the implementation is the code as found (pre-fix model): finding F2
        failing = sorted((i for i in mon if i in set(neq_fixed)), key=lambda i: (len(lines[i]), i))
        other = sorted((i for i in mon if i not in set(neq_fixed)), key=lambda i: (len(lines[i]), i))
        f = f2_open()
        if failing:
            i = failing[0]
            if f is not None:
                C.known(ctx, f, "%s open: -F with -N emits an unpaired cygprof exit (%d of %d cases; "
                        "implementation matches the pre-fix model everywhere); minimal: %s => %s" % (
                            FINDING, len(failing), n, lines[i], C.norm(impls[i]).split("|")[0].strip()))
            else:
                for i in failing[:2]:
                    C.violation(ctx, "case%d" % i, replay_obj(i, "property-violated-on-implementation"))
                    reported += 1
        else:
            C.violation(ctx, "case%d" % neq_fixed[0],
                        replay_obj(neq_fixed[0], "model-code-disagreement"), True)
            reported += 1
        for i in other[:2]:
            C.violation(ctx, "case%d" % i, replay_obj(i, "property-violated-on-implementation"))
            reported += 1
    else:
        for i in sorted(mon, key=lambda i: (len(lines[i]), i))[:3]:
            C.violation(ctx, "case%d" % i, replay_obj(i, "property-violated-on-implementation"))
            reported += 1
        if not mon:
            for i in sorted(neq_fixed, key=lambda i: (len(lines[i]), i))[:3]:
                C.violation(ctx, "case%d" % i, replay_obj(i, "model-code-disagreement"), True)
                reported += 1

    e2e = {}
    if ctx.tier == "thorough":
        e2e = run_e2e(ctx)

    # coverage, measured
    classes = {}
    nontrivial = set()
    suppressed = 0
    for i in range(n):
        classes[cases[i][1]] = classes.get(cases[i][1], 0) + 1
        p = parse_impl(impls[i])
        if p:
            ents = sum(1 for e in lines[i].split("|", 1)[1].split() if e[0] in "cC")
            got = sum(1 for o in p[0] if o is not None)
            if 0 < got < ents:
                nontrivial.add(lines[i][2:])
            if got < ents:
                suppressed += 1
    samples = []
    for i in range(7, n, max(1, n // 5)):
        samples.append({"model_input": lines[i][:300], "impl": C.norm(impls[i])[:200],
                        "model": C.norm(m_fixed[i])[:200]})
    ctx.coverage.update({
        "evaluations": n,
        "distinct_nontrivial": len(nontrivial),
        "rule": "corpus; then every properly nested profile-event stream of <= %d calls (%d events) over the "
                "alphabet {a, g (main), lib.f (python library), os.getpid (C)} x 3 libcall modes x 12 "
                "UFTRACE_FILTER strings; then random call trees (<= 40 calls, depth <= 9, 9 names) with random "
                "1-4 entry filters over regex/glob/simple patterns, 20%% of them cut off at a random event; then "
                "arbitrary (not nested) event sequences for model validation. distinct_nontrivial = distinct "
                "cases where some but not all calls were recorded" % (3 if ctx.tier == "quick" else 4,
                                                                       6 if ctx.tier == "quick" else 8),
        "by_class": classes,
        "exhaustive_cases": nexh,
        "exhaustive": False,
        "cases_with_suppressed_calls": suppressed,
        "model_code_disagreements_vs_fixed_model": len(neq_fixed),
        "model_code_disagreements_vs_prefix_model_F2": len(neq_pre),
        "disagreeing_with_both_models": len(neither),
        "implementation_matches_prefix_model_F2_everywhere": matches_prefix_everywhere,
        "monitor_failures_on_impl": len(mon),
        "monitor_vs_lean_spec_checked": len(spec_in),
        "monitor_vs_lean_spec_mismatch": spec_mismatch,
        "e2e": e2e,
        "samples": samples,
    })
    if matches_prefix_everywhere:
        ctx.notes.append("implementation = pre-fix model (finding F2, python/trace-python.c apply_filters): "
                         "c19_balanced_output / c19_refines_doc hold for the repaired code only; see "
                         "c19_prefix_unbalanced_witness")
    ctx.notes.append("after sys.exit()/an uncaught exception the returns of runpy's frames still reach the tracer "
                     "(python/uftrace.py has no try/finally around exec): one unpaired cygprof_exit each in the "
                     "default and --nest-libcall modes, dropped by libmcount with a WARN on stderr "
                     "(c19_stray_return_unpaired_exit); the recorded trace stays balanced")
    ctx.assumptions += [
        "the interpreter delivers properly nested call/return, c_call/c_return|c_exception events to the profile "
        "function of one thread (sys.setprofile discipline); os._exit cuts the stream",
        "a function name determines whether it is a library function (sym->flag is cached per name)",
        "libc regexec/fnmatch are abstracted as a predicate; the driver implements the subset "
        "{literal, ., x*, ^, $} / {literal, *, ?} that the generator uses",
        "harness resets the file's static state between cases to emulate a fresh process",
        "libmcount's own handling of UFTRACE_FILTER on the pseudo addresses is not modelled (C05)",
    ]
    return C.finish(ctx)


# ---------------------------------------------------------------- H5 (thorough): real programs
PROG_FUNCS = ["a", "b", "g", "h"]


def gen_program(rng, exit_mode):
    """A Python program over a,b,g,h (acyclic calls) using C functions, a caught
    exception, a generator, recursion, a method and a closure."""
    order = {"a": ["b", "g", "h"], "b": ["g", "h"], "g": ["h"], "h": []}
    src = ["#!/usr/bin/env python3", "import os", "import sys", "",
           "def thrower():", "    raise ValueError('x')", "",
           "def gen():", "    yield 1", "    yield 2", "",
           "def rec(n):", "    if n > 0:", "        rec(n - 1)", "    return os.getpid()", "",
           "class K:", "    def m(self):", "        return len('ab')", "",
           "def outer():", "    def inner():", "        return 1", "    return inner()", ""]
    for f in PROG_FUNCS:
        src.append("def %s():" % f)
        body = []
        for _ in range(rng.randint(0, 4)):
            c = rng.choice(order[f] + ["os.getpid", "len", "raise", "gen", "rec", "meth", "closure", "ospath",
                                       "cexc", "sorted"])
            if c == "os.getpid":
                body.append("    os.getpid()")
            elif c == "len":
                body.append("    len('abc')")
            elif c == "raise":
                body += ["    try:", "        thrower()", "    except ValueError:", "        pass"]
            elif c == "gen":
                body += ["    for _ in gen():", "        pass"]
            elif c == "rec":
                body.append("    rec(%d)" % rng.randint(0, 3))
            elif c == "meth":
                body.append("    K().m()")
            elif c == "closure":
                body.append("    outer()")
            elif c == "ospath":           # a library function written in Python (module already loaded)
                body.append("    os.path.join('a', 'b')")
            elif c == "cexc":
                body += ["    try:", "        int('zz')", "    except ValueError:", "        pass"]
            elif c == "sorted":
                body.append("    sorted([2, 1], key=lambda v: len(str(v)))")
            else:
                body.append("    %s()" % c)
        src += body or ["    pass"]
        src.append("")
    for _ in range(rng.randint(1, 3)):
        src.append("%s()" % rng.choice(PROG_FUNCS))
    src.append("print('done')")
    if exit_mode == "sys.exit":
        src.append("sys.exit(3)")
    elif exit_mode == "os._exit":
        src += ["sys.stdout.flush()", "os._exit(4)"]
    elif exit_mode == "raise":
        src.append("thrower()")
    return "\n".join(src) + "\n"


def replay_to_ops(text):
    """`uftrace replay -f none` -> list of names / None (exit)"""
    ops = []
    for l in text.split("\n"):
        b = l.strip()
        if b.startswith("uftrace stopped tracing"):
            break
        if not b or b.startswith("#"):
            continue
        if b.startswith("}"):
            ops.append(None)
        elif b.endswith("{"):
            ops.append(b[:-1].strip()[:-2])
        elif b.endswith(";"):
            ops.append(b[:-1].strip()[:-2])
            ops.append(None)
    return ops


def read_log(path):
    evs, libs = [], set()
    for l in open(path):
        t = l.split()
        if not t:
            continue
        evs.append(t[0])
        if len(t) > 1 and t[1] == "L":
            libs.add(t[0][2:])
    return evs, libs


def expected_ops(evs, libs, mode, filters):
    """Ground-truth events -> the hook calls the documented selection asks for.
    Returns (ops, cut, number of calls left open) ; cut = True when the program
    stopped inside calls (os._exit)."""
    # an uncaught exception / sys.exit: the returns of the frames that were
    # entered before tracing started (runpy) follow; they are not calls of the program
    names = []
    keep = []
    for e in evs:
        t, name = e[0], e[2:]
        if t in "cC":
            names.append(name)
            keep.append(e)
        elif names and names[-1] == name:
            names.pop()
            keep.append(e)
        # else: stray return, dropped by libmcount ("unpaired cygprof exit")
    cut = bool(names)
    # close what os._exit left open to get a tree
    closed = list(keep) + ["r:" + n for n in reversed(names)]
    forest = tree_of_loose(closed)
    want = doc_selection(forest, mode, filters, libs)
    return want, cut, len(names)


def tree_of_loose(evs):
    stack = [[]]
    for e in evs:
        t, name = e[0], e[2:]
        if t in "cC":
            node = (name, "p" if t == "c" else "c", [])
            stack[-1].append(node)
            stack.append(node[2])
        else:
            stack.pop()
    return stack[0]


def until_module_end(ops):
    if not ops or ops[0] != "__main__.<module>":
        return ops
    d = 0
    for i, o in enumerate(ops):
        d += 1 if o is not None else -1
        if d == 0:
            return ops[:i + 1]
    return ops


def run_e2e(ctx):
    rng = ctx.rng
    okb, log = ctx.make()
    if not okb:
        C.violation(ctx, "e2e-build", {"kind": "snapshot-build-failed", "log": log[-2000:]}, True)
        return {"built": False}
    uft = os.path.join(ctx.src, "uftrace")
    wd = os.path.join(ctx.scratch, "e2e")
    os.makedirs(wd, exist_ok=True)
    env = dict(os.environ)
    env["PYTHONPATH"] = os.path.join(ctx.src, "python")
    nprog = 20
    runs = fails = known_hits = stray_warn = 0
    f = f2_open()
    filter_opts = [[], ["-F", "a"], ["-N", "g"], ["-F", "a", "-N", "g"], ["-F", "b", "-N", "h"],
                   ["-N", "thrower"], ["-F", "g"], ["-N", "^posixpath.join$"], ["-F", "rec", "-N", "^posix.getpid$"],
                   ["-F", "^K.m$"], ["-N", "gen", "-N", "^builtins.len$"]]
    # (-F patterns are anchored on both sides: libmcount applies UFTRACE_FILTER to the native symbols
    #  of the interpreter as well, and an opt-in pattern that matches one of them empties the trace — C05)
    for pi in range(nprog):
        exit_mode = rng.choice(["none", "none", "none", "sys.exit", "os._exit", "raise"])
        path = os.path.join(wd, "p%d.py" % pi)
        open(path, "w").write(gen_program(rng, exit_mode))
        os.chmod(path, 0o755)
        base = subprocess.run(["timeout", "60", path], stdout=subprocess.PIPE, stderr=subprocess.PIPE,
                              text=True, env=env, cwd=wd)
        logf = os.path.join(wd, "p%d.log" % pi)
        lenv = dict(env)
        lenv["C19_LOG"] = logf
        lenv["PYTHONPATH"] = os.path.join(C.VERIF, "harness")
        # started like uftrace.py is (`python3 -m …`), so that the frames below exec() are the same
        subprocess.run(["timeout", "60", "python3", "-m", "c19_pylog", path],
                       stdout=subprocess.PIPE, stderr=subprocess.PIPE, text=True, env=lenv, cwd=wd)
        evs, libs = read_log(logf)
        for mode, mopt in (("SINGLE", []), ("NONE", ["--no-libcall"]), ("NESTED", ["--nest-libcall"])):
            for filt in rng.sample(filter_opts, 2):
                d = os.path.join(wd, "d%d" % runs)
                cmd = ["timeout", "60", uft, "record", "--libmcount-path=" + os.path.join(ctx.src, "libmcount"),
                       "--no-event", "--no-pager", "-d", d] + mopt + filt + [path]
                r = subprocess.run(cmd, stdout=subprocess.PIPE, stderr=subprocess.PIPE, text=True, env=env, cwd=wd)
                runs += 1
                rp = subprocess.run(["timeout", "60", uft, "replay", "--no-pager", "-d", d, "-f", "none"],
                                    stdout=subprocess.PIPE, stderr=subprocess.PIPE, text=True, env=env)
                got = replay_to_ops(rp.stdout)
                ents = []
                for i in range(0, len(filt), 2):
                    ents.append(("regex" if any(ch in REGEX_CHARS for ch in filt[i + 1]) else "simple",
                                 filt[i + 1], "in" if filt[i] == "-F" else "out"))
                want, cut, nopen = expected_ops(evs, libs, mode, ents or None)
                if cut:
                    # stopped by os._exit: the closers of the open calls are never recorded, and the
                    # hook (os_exit -> uftrace_python.exit) is part of uftrace, not of the program
                    drop = ("os_exit", "uftrace_python.exit", "posix._exit")
                    w = [x for x in want if x not in drop]
                    g = [x for x in got if x not in drop]
                    while w and w[-1] is None:
                        w.pop()
                    while g and g[-1] is None:
                        g.pop()
                    same = g == w
                else:
                    # what the interpreter itself calls after the script has ended (printing the
                    # traceback of an uncaught exception) is not part of the program
                    same = until_module_end(got) == until_module_end(want)
                if "unpaired cygprof exit" in r.stderr:
                    stray_warn += 1
                same_out = (r.stdout == base.stdout and (r.returncode == 0) == (base.returncode == 0))
                if not same or not same_out:
                    mixed = ("-F" in filt and "-N" in filt)
                    if mixed and f is not None and same_out:
                        known_hits += 1
                        continue
                    fails += 1
                    if fails <= int(os.environ.get("C19_E2E_MAXREP", "2")):
                        C.violation(ctx, "e2e%d" % runs, {
                            "kind": "property-violated-on-implementation", "program": open(path).read(),
                            "options": mopt + filt, "replay": rp.stdout[-1500:], "expected": fmt_ops(want),
                            "got": fmt_ops(got), "stdout_same": same_out, "record_rc": r.returncode,
                            "untraced_rc": base.returncode, "record_stderr": r.stderr[-500:],
                            "exit_mode": exit_mode,
                            "theorem": "c19_refines_doc / c19_balanced_output (end to end)"})
    return {"built": True, "programs": nprog, "record_runs": runs, "failures": fails,
            "known_F2_shapes": known_hits, "runs_with_unpaired_exit_warning": stray_warn}


def replay(ctx, path):
    obj = json.load(open(path))
    print(json.dumps(obj, indent=1))
    line = obj.get("model_input")
    if not line or line.startswith("spec "):
        return 0
    ctx.snapshot()
    exe, log = build_harness(ctx)
    if exe is None:
        print("harness build failed:\n" + log[-2000:])
        return 2
    r, models, impls, infos = run_harness(exe, [line])
    if len(impls) != 1:
        print("harness failed: " + r.stderr[-500:])
        return 2
    m1 = C.run_model("C19", [with_fixed(line, "1")])[0]
    m0 = C.run_model("C19", [with_fixed(line, "0")])[0]
    bad = monitor(line, impls[0])
    print("case            : " + line)
    print("implementation  : " + C.norm(impls[0]))
    print("model (fixed)   : " + C.norm(m1))
    print("model (pre-fix) : " + C.norm(m0))
    print("monitor         : " + ("ok" if not bad else "%s: %s" % bad))
    return 1 if (bad or C.norm(impls[0]) != C.norm(m1)) else 0
