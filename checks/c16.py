"""C16 — Recording over the network stores the same data as recording locally.
Lean: Uft/Model/Net.lean, Uft/Lemmas/Net.lean, Uft/Props/C16.lean.
Tie: correspondence (H4): the real send_trace_* / handle_client_sock /
recv_trace_* of cmds/recv.c, write_buffer and the metadata senders of
cmds/record.c (extracted verbatim), read_all / write_all / writev_all of
utils/utils.c run with interposed partial reads/writes and a re-segmenting
relay, against the model; plus the property monitor on the received directory.
End to end (harness/c16_e2e.py, harness/c16_send.c): a real `uftrace recv` on a loopback port; synthesized
complete data directories (function records, per-cpu perf files with holes and cpu numbers >= 10) sent by the
real senders, the received directory compared byte for byte with the local one and `uftrace replay / report /
dump / dump --chrome / graph / info` of both directories compared; real `uftrace record` next to real
`uftrace record --host` of one program, compared after canonicalising pids, times and addresses.
Sizes: synthesized task files of 2^16 .. several MiB sent in task buffers (one write_buffer call = one flush of a
shared-memory buffer) of 2^16, 2^20, 2^20 +- 4 / 8 / 16, 2, 3 and 8 MiB; a real `record -b 8M [--host]` of a program
that makes > 100k calls (one buffer of several MiB flushed at the end).
"""
import importlib.util
import json
import os
import re
import shutil
import subprocess
import time

from lib import common as C

FIND_DIR = "same-dirname"     # F-C16-DIR
FIND_MW = "many-writers"      # F-C16-S5


def hx(b):
    return b.hex() if b else "-"


def gen(seed, n):
    x = seed
    out = bytearray()
    for _ in range(n):
        x = (x * 1103515245 + 12345) % 2147483648
        out.append((x // 65536) % 256)
    return bytes(out)


class B:
    """a byte payload: literal or generated (G<seed>.<len>)"""

    def __init__(self, lit=None, seed=None, n=None):
        self.lit, self.seed, self.n = lit, seed, n

    def tok(self):
        return hx(self.lit) if self.lit is not None else "G%d.%d" % (self.seed, self.n)

    def val(self):
        return self.lit if self.lit is not None else gen(self.seed, self.n)

    def __len__(self):
        return len(self.lit) if self.lit is not None else self.n


def fnv(b):
    h = 0xcbf29ce484222325
    for c in b:
        h = ((h ^ c) * 0x100000001b3) & 0xFFFFFFFFFFFFFFFF
    return h


def digest(b):
    return "%d:%016x" % (len(b), fnv(b))


# ---------------------------------------------------------------------------
# steps of a client script: tuples
#   ("N", name) ("D"|"WB", tid, B) ("K"|"P", cpu, B) ("I", hdr40, B) ("M", name, B)
#   ("F", name, B) ("L", B) ("E",) ("R", B) ("ALL", flags)
def step_tok(s):
    k = s[0]
    if k == "N":
        return "N:" + hx(s[1])
    if k in ("D", "WB", "K", "P"):
        return "%s:%d:%s" % (k, s[1], s[2].tok())
    if k == "I":
        return "I:%s:%s" % (hx(s[1]), s[2].tok())
    if k in ("M", "F"):
        return "%s:%s:%s" % (k, hx(s[1]), s[2].tok())
    if k == "L":
        return "L:" + s[1].tok()
    if k == "E":
        return "E"
    if k == "R":
        return "R:" + s[1].tok()
    if k == "ALL":
        return "ALL:" + (s[1] or "-")
    raise ValueError(k)


def expand(steps):
    """client steps -> list of (unit index, [model message tokens]); the spec of
    what the recorder sends (order of the tail as in write_symbol_files)."""
    files = {}
    log = None
    units = []
    for s in steps:
        k = s[0]
        if k == "F":
            files[s[1]] = s[2]
        elif k == "L":
            log = s[1]
        elif k == "N":
            units.append(["N:" + hx(s[1])])
        elif k in ("D", "WB"):
            units.append(["D:%d:%s" % (s[1] % 2 ** 32, s[2].tok())])
        elif k in ("K", "P"):
            units.append(["%s:%d:%s" % (k, s[1] % 2 ** 32, s[2].tok())])
        elif k == "I":
            units.append(["I:%s:%s" % (hx(s[1]), s[2].tok())])
        elif k == "M":
            files[s[1]] = s[2]
            units.append(["M:%s:%s" % (hx(s[1]), s[2].tok())])
        elif k == "E":
            units.append(["E"])
        elif k == "R":
            if len(s[1]):
                units.append(["R:" + s[1].tok()])
        elif k == "ALL":
            u = []
            names = sorted(files)

            def m(n):
                u.append("M:%s:%s" % (hx(n), files[n].tok()))
            m(b"task.txt")
            for n in names:
                if n.startswith(b"sid-") and n.endswith(b".map"):
                    m(n)
            for n in names:
                if n.endswith(b".sym"):
                    m(n)
            for n in names:
                if n.endswith(b".dbg"):
                    m(n)
            info = files[b"info"].val()
            u.append("I:%s:%s" % (hx(info[:40]), hx(info[40:])))
            fl = s[1] or ""
            if "k" in fl:
                m(b"kernel_header")
                m(b"kallsyms")
            if "e" in fl and b"events.txt" in files:
                m(b"events.txt")
            if "l" in fl and log is not None:
                u.append("M:%s:%s" % (hx(b"c16.log"), log.tok()))
            u.append("E")
            units.append(u)
    return units


def local_steps(steps):
    """the same run recorded locally: what ends up in the local directory"""
    return [s for s in steps if s[0] not in ("E", "R", "ALL")]


class NetCase:
    def __init__(self, clients, order=None, eintr=0, wpat="-", fpat="-", desc=""):
        self.clients = clients        # list of (segpattern string, [steps])
        self.order = order            # list of client indices per unit, or None
        self.eintr, self.wpat, self.fpat, self.desc = eintr, wpat, fpat, desc

    def harness_line(self, recvdir, sendbase):
        parts = ["net", recvdir, sendbase,
                 ",".join(map(str, self.order)) if self.order else "-",
                 str(self.eintr), self.wpat, self.fpat]
        for pat, steps in self.clients:
            parts += ["|", pat] + [step_tok(s) for s in steps]
        return " ".join(parts)

    def model_line(self, fixed):
        units = [expand(steps) for _, steps in self.clients]
        order = []
        if self.order:
            cur = [0] * len(self.clients)
            for i in self.order:
                if cur[i] < len(units[i]):
                    order += [i] * len(units[i][cur[i]])
                    cur[i] += 1
        parts = ["net", "1" if fixed else "0", ",".join(map(str, order)) if order else "-"]
        for ci, (pat, _) in enumerate(self.clients):
            parts += ["|", pat] + [t for u in units[ci] for t in u]
        return " ".join(parts)

    def to_json(self):
        return {"clients": [[p, [step_tok(s) for s in st]] for p, st in self.clients],
                "order": self.order, "eintr_every": self.eintr, "wpat": self.wpat, "fpat": self.fpat,
                "desc": self.desc}


def parse_tree(txt):
    """'D <hex> F <hex> <dig> … E …' -> {dirname: {file: digest}}"""
    t = txt.split()
    out, i = {}, 0
    while i < len(t):
        if t[i] != "D":
            return None
        name = t[i + 1]
        i += 2
        files = {}
        while i < len(t) and t[i] != "E":
            if t[i] in ("F",):
                files[t[i + 1]] = t[i + 2]
                i += 3
            else:            # X <hex>: a nested directory
                files[t[i + 1]] = "dir"
                i += 2
        i += 1
        out[name] = files
    return out


def parse_files(txt):
    t = txt.split()
    return {t[i + 1]: t[i + 2] for i in range(0, len(t) - 2, 3) if t[i] == "F"}


# ---------------------------------------------------------------------------
# generators
HDR = bytes([0x46, 0x74, 0x72, 0x61, 0x63, 0x65, 0x21, 0x00,   # "Ftrace!\0"
             4, 0, 0, 0, 40, 0, 1, 2,
             0xff, 0x1f, 0, 0, 0, 0, 0, 0x80, 0x3f, 0, 0, 0, 0, 0, 0, 1,
             0x00, 0x04, 0xaa, 0xbb, 0xcc, 0xdd, 0xee, 0x11])


def rand_hdr(rng):
    return HDR[:8] + bytes(rng.randrange(256) for _ in range(32))


def rand_payload(rng, big_ok, seedc):
    r = rng.random()
    if r < 0.15:
        return B(lit=b"")
    if r < 0.6:
        return B(lit=bytes(rng.randrange(256) for _ in range(rng.randint(1, 24))))
    if r < 0.9 or not big_ok:
        return B(seed=rng.randrange(1 << 30), n=rng.randint(25, 600))
    if r < 0.97:
        return B(seed=rng.randrange(1 << 30), n=rng.randint(3000, 9000))
    return B(seed=rng.randrange(1 << 30), n=rng.randint(70000, 300000))


def rand_client(rng, name, big_ok, style=None):
    steps = [("N", name)]
    tids = [rng.choice([1, 7, 1234, 99999, 4194304, -5, 2147483647]) for _ in range(rng.randint(1, 3))]
    # the cpus of this client that produce kernel / perf data: a few of a machine's cpus, with holes, also >= 10
    cpus = rng.sample(CPUS, rng.randint(1, 4))
    for _ in range(rng.randint(0, 8)):
        r = rng.random()
        if r < 0.7:
            steps.append((rng.choice(["D", "WB"]), rng.choice(tids), rand_payload(rng, big_ok, 0)))
        elif r < 0.82:
            steps.append(("K", rng.choice(cpus), rand_payload(rng, False, 0)))
        else:
            steps.append(("P", rng.choice(cpus), rand_payload(rng, False, 0)))
    style = style or rng.choice(["single", "all", "all", "bare"])
    meta = [(b"task.txt", rand_payload(rng, False, 0)),
            (b"sid-%08x.map" % rng.randrange(1 << 32), rand_payload(rng, False, 0)),
            (rng.choice([b"a.out.sym", b"libc.so.6.sym", b"x.sym"]), rand_payload(rng, big_ok, 0)),
            (b"a.out.dbg", rand_payload(rng, False, 0))]
    if rng.random() < 0.5:
        meta.append((b"sid-%08x.map" % rng.randrange(1 << 32), rand_payload(rng, False, 0)))
    seen = set()
    meta = [m for m in meta if not (m[0] in seen or seen.add(m[0]))]
    info = B(lit=rand_hdr(rng) + bytes(rng.randrange(256) for _ in range(rng.randint(0, 60))))
    if style == "single":
        rng.shuffle(meta)
        for n, b in meta:
            steps.append(("M", n, b))
        iv = info.val()
        steps.append(("I", iv[:40], B(lit=iv[40:])))
        steps.append(("E",))
    elif style == "all":
        for n, b in meta:
            steps.append(("F", n, b))
        steps.append(("F", b"info", info))
        flags = ""
        if rng.random() < 0.4:
            flags += "k"
            steps.append(("F", b"kernel_header", rand_payload(rng, False, 0)))
            steps.append(("F", b"kallsyms", rand_payload(rng, big_ok, 0)))
        if rng.random() < 0.5:
            flags += "e"
            if rng.random() < 0.7:
                steps.append(("F", b"events.txt", rand_payload(rng, False, 0)))
        if rng.random() < 0.4:
            flags += "l"
            if rng.random() < 0.8:
                steps.append(("L", rand_payload(rng, False, 0)))
        steps.append(("ALL", flags))
    return steps


CPUS = [0, 1, 2, 3, 5, 7, 9, 10, 11, 12, 15, 16, 31, 63, 64, 99, 100, 127, 128, 255, 256, 1023, 4095]
SEGPATS = ["1", "2", "3", "5", "7", "8", "4,4", "1,2,3,4,5,6,7,8,9", "12", "13,1", "1,0,2,0", "0,3",
           "4096", "65536", "-", "100,1", "9,0,0,31"]
WPATS = ["-", "1", "1,-1,2", "3,5,-1,100000", "4096", "8", "7,-1", "12,1", "65536,-1,-1,1"]
FPATS = ["-", "1", "2,-1", "5,100000", "-1,3"]


def stream_len(steps):
    n = 0
    for u in expand(steps):
        for t in u:
            f = t.split(":")
            def blen(s):
                if s == "-":
                    return 0
                if s.startswith("G"):
                    return int(s.split(".")[1])
                return len(s) // 2
            if f[0] == "N":
                n += 8 + blen(f[1])
            elif f[0] in ("D", "K", "P"):
                n += 12 + blen(f[2])
            elif f[0] == "I":
                n += 48 + blen(f[2])
            elif f[0] == "M":
                n += 12 + blen(f[1]) + blen(f[2])
            elif f[0] == "E":
                n += 8
            elif f[0] == "R":
                n += blen(f[1])
    return n


def fixed_scenario():
    """small run touching every message type; used for the split-point sweep"""
    return [("N", b"d"), ("WB", 7, B(lit=b"\x01\x02\x03")), ("D", 7, B(lit=b"")), ("K", 1, B(lit=b"kk")),
            ("P", 0, B(lit=b"p")), ("M", b"task.txt", B(lit=b"SESS\n")),
            ("I", HDR, B(lit=b"info:xyz\n")), ("D", -5, B(lit=b"\xff")), ("E",)]


def gen_net_cases(ctx):
    rng = ctx.rng
    thorough = ctx.tier == "thorough"
    cases = []
    # 1. split sweep: every split point of the fixed scenario's stream (inside every header field)
    fs = fixed_scenario()
    L = stream_len(fs)
    step = 1
    for p in range(1, L, step):
        cases.append(NetCase([("%d,1000000" % p, fs)], desc="split@%d" % p))
    # 2. fixed scenario under every pattern and writer pattern
    for sp in SEGPATS:
        cases.append(NetCase([(sp, fs)], eintr=rng.choice([0, 2, 5]), wpat=rng.choice(WPATS),
                             fpat=rng.choice(FPATS), desc="fixed seg=" + sp))
    for wp in WPATS:
        cases.append(NetCase([("3", fs)], wpat=wp, fpat=rng.choice(FPATS), desc="fixed wpat=" + wp))
    # 3. random single clients
    nrand = 110 if not thorough else 5000
    for i in range(nrand):
        sp = rng.choice(SEGPATS)
        small = sp.replace(",0", "").replace("0,", "") not in ("4096", "65536", "-", "100,1")
        steps = rand_client(rng, rng.choice([b"d", b"uftrace.data", b"x.y"]), big_ok=not small)
        if small and stream_len(steps) > 6000:
            sp = "4096"
        cases.append(NetCase([(sp, steps)], eintr=rng.choice([0, 0, 3, 7]), wpat=rng.choice(WPATS),
                             fpat=rng.choice(FPATS), desc="random single"))
    # 4. several clients, interleaved at unit granularity, different names
    nmulti = 30 if not thorough else 1500
    for i in range(nmulti):
        k = rng.choice([2, 2, 3]) if not thorough else rng.choice([2, 3, 4, 8])
        names = [b"c%d" % j for j in range(k)]
        if rng.random() < 0.3:
            names[0] = b"c1.old"      # rotation target of another client's name
        cl = []
        for j in range(k):
            steps = rand_client(rng, names[j], big_ok=False)
            sp = rng.choice(["1", "3", "8", "4096", "-", "7,0"])
            if stream_len(steps) > 4000:
                sp = "4096"
            cl.append((sp, steps))
        order = []
        for j in range(k):
            order += [j] * len(expand(cl[j][1]))
        rng.shuffle(order)
        cases.append(NetCase(cl, order=order, eintr=rng.choice([0, 4]), wpat=rng.choice(WPATS),
                             fpat=rng.choice(FPATS), desc="multi distinct names"))
    # 5. several clients using the SAME directory name while connected (F-C16-DIR)
    same = []
    a = [("N", b"d"), ("WB", 7, B(lit=b"\x01")), ("WB", 7, B(lit=b"\x02")), ("E",)]
    b = [("N", b"d"), ("WB", 9, B(lit=b"\x09")), ("E",)]
    same.append(NetCase([("-", a), ("-", b)], order=[0, 0, 1, 0, 1, 0, 1], desc="same name, minimal"))
    for i in range(6 if not thorough else 200):
        nm = rng.choice([b"uftrace.data", b"d"])
        k = rng.choice([2, 3])
        cl = [(rng.choice(["1", "-", "5"]), rand_client(rng, nm, big_ok=False)) for _ in range(k)]
        order = []
        for j in range(k):
            order += [j] * len(expand(cl[j][1]))
        rng.shuffle(order)
        same.append(NetCase(cl, order=order, desc="same name, random"))
    # a connected client's directory is the NAME.old that another client's create_directory removes
    a = [("N", b"c1"), ("M", b"a", B(lit=b"\x01")), ("E",)]
    b = [("N", b"c1.old"), ("WB", 5, B(lit=b"\x02")), ("WB", 5, B(lit=b"\x03")), ("E",)]
    c3 = [("N", b"c1"), ("M", b"c", B(lit=b"\x04")), ("E",)]
    same.append(NetCase([("-", a), ("-", b), ("-", c3)], order=[0, 0, 0, 1, 1, 2, 1, 2, 1, 2],
                        desc="same name, NAME.old in use"))
    # 5b. >= 3 clients connected at once, names repeated with other clients in between
    #     (the name search has to look at the whole client list, not only at its head)
    X, Y, Z = b"x", b"y", b"z"
    patterns = [[X, Y, X], [X, X, X], [X, Y, X + b".old"], [X + b".old", Y, X], [X, Y, Y, X],
                [X, X + b".1", X], [X, Y, Z, X], [Y, X, X], [b"xa", X, b"xa"], [X, b"xa", X],
                [X, Y, X, Y, X], [X, Y, X + b".old", X]]

    def small_client(j, name):
        return [("N", name), ("WB", 10 + j, B(lit=bytes([j + 1]))), ("WB", 10 + j, B(lit=bytes([j + 17]))),
                ("M", b"task.txt", B(lit=bytes([j + 33]))), ("E",)]

    def orders(k):
        n, d1, d2, m, e = ([j for j in range(k)] for _ in range(5))
        yield "connect all, finish in order", n + d1 + d2 + m + e
        yield "connect all, finish in reverse", n + d1 + d2 + m + e[::-1]
        # staggered: each client has sent something before the next one connects
        o = []
        for j in range(k):
            o += [j] + [i for i in range(j + 1)]
        left = {j: 4 - (k - j) for j in range(k)}
        for j in range(k):
            o += [j] * max(0, left[j])
        yield "staggered", o
        # first client finished before the last one connects (its rotation to .old is by design)
        yield "first finished early", [0] * 5 + n[1:] + d1[1:] + d2[1:] + m[1:] + e[1:]
    for names in patterns:
        k = len(names)
        for oname, o in orders(k):
            # keep each client's own unit order: the j-th occurrence of client i is its j-th unit
            cnt = [0] * k
            oo = []
            for i in o:
                if cnt[i] < 5:
                    cnt[i] += 1
                    oo.append(i)
            for i in range(k):
                oo += [i] * (5 - cnt[i])
            same.append(NetCase([(rng.choice(["-", "1", "5"]), small_client(j, nm)) for j, nm in enumerate(names)],
                                order=oo, desc="repeated names %s, %s" %
                                (",".join(n.decode() for n in names), oname)))
    pool = [X, X, Y, X + b".old", X + b".1", Y + b".old"]
    for i in range(20 if not thorough else 600):
        k = rng.choice([3, 3, 4, 5])
        names = [rng.choice(pool) for _ in range(k)]
        cl = [(rng.choice(["1", "-", "5"]), rand_client(rng, nm, big_ok=False)) for nm in names]
        order = []
        for j in range(k):
            order += [j] * len(expand(cl[j][1]))
        rng.shuffle(order)
        if rng.random() < 0.5:
            # connect everybody first (in client order), then interleave the rest
            rest = list(order)
            for j in range(k):
                rest.remove(j)
            order = list(range(k)) + rest
        same.append(NetCase(cl, order=order, desc="repeated names random " + ",".join(n.decode() for n in names)))
    # sequential reuse of a name (first client finished): rotation to .old is by design
    seq = [(rng.choice(["1", "-"]), rand_client(rng, b"d", big_ok=False, style="single")) for _ in range(2)]
    n0 = len(expand(seq[0][1]))
    n1 = len(expand(seq[1][1]))
    cases.append(NetCase(seq, order=[0] * n0 + [1] * n1, desc="sequential reuse of a name"))
    # 6. malformed streams (single client): bad magic, unknown type, no client, short lengths, cut
    raw = []
    raw.append([("N", b"d"), ("R", B(lit=bytes.fromhex("facf006600000005"))), ("D", 1, B(lit=b"x"))])
    raw.append([("N", b"d"), ("R", B(lit=bytes.fromhex("face00c800000000"))), ("D", 1, B(lit=b"x")), ("E",)])
    raw.append([("D", 1, B(lit=b"x"))])                                       # no client
    raw.append([("N", b"d"), ("R", B(lit=bytes.fromhex("face006600000002" "0000")))])   # data len < 4
    raw.append([("N", b"d"), ("R", B(lit=bytes.fromhex("face006a00000006" "00000009" "6162")))])  # namelen > len
    raw.append([("N", b"d"), ("R", B(lit=bytes.fromhex("face006900000010" + "00" * 16)))])  # info len < 40
    raw.append([("N", b"d"), ("R", B(lit=bytes.fromhex("face00660000000a" "00000007" "0102")))])  # cut
    raw.append([("N", b"d"), ("R", B(lit=bytes.fromhex("face006b00000000"))), ("D", 1, B(lit=b"x"))])  # data after END
    raw.append([("N", b"d"), ("N", b"e"), ("D", 3, B(lit=b"q")), ("E",), ("D", 3, B(lit=b"r"))])  # two names, one socket
    raw.append([("N", b"d"), ("R", B(lit=bytes.fromhex("face006a00000005" "00000002" "61")))])  # len < 4+namelen
    for r in raw:
        cases.append(NetCase([(rng.choice(["1", "-", "3"]), r)], desc="malformed"))
    return cases, same


def gen_unit_cases(ctx):
    rng = ctx.rng
    thorough = ctx.tier == "thorough"
    lines = []
    # writev_all: exhaustive small shapes x all schedules of length <= 3
    acts = ["w0", "w1", "w2", "w4", "i", "e"]
    scheds = ["-"]
    for a in acts:
        scheds.append(a)
        for b in acts:
            scheds.append(a + "," + b)
            for c in acts:
                scheds.append(a + "," + b + "," + c)
    shapes = [[]]
    for a in range(3):
        shapes.append([a])
        for b in range(3):
            shapes.append([a, b])
            for c in range(3):
                shapes.append([a, b, c])
    ctr = [0]

    def mk(n):
        out = bytes((ctr[0] + i) % 251 + 1 for i in range(n))
        ctr[0] += n
        return out
    for sh in shapes:
        iovs = [mk(n) for n in sh]
        for sc in scheds:
            lines.append("wv %s | %s" % (sc, " ".join(hx(v) for v in iovs)))
    nr = 1500 if not thorough else 40000
    for _ in range(nr):
        iovs = [mk(rng.choice([0, 0, 1, 2, 3, 5, 8, 13, 40])) for _ in range(rng.randint(1, 6))]
        total = sum(map(len, iovs))
        sc = []
        for _ in range(rng.randint(0, 8)):
            r = rng.random()
            if r < 0.15:
                sc.append("i")
            elif r < 0.2:
                sc.append("e")
            elif r < 0.3:
                sc.append("w0")
            else:
                sc.append("w%d" % rng.choice([1, 2, 3, 5, 8, len(iovs[0]), len(iovs[0]) + 1, total, total + 3]))
        lines.append("wv %s | %s" % (",".join(sc) or "-", " ".join(hx(v) for v in iovs)))
    for _ in range(300 if not thorough else 5000):
        buf = mk(rng.choice([0, 1, 2, 3, 8, 20]))
        sc = [rng.choice(["i", "e", "w0", "w1", "w2", "w3", "w8", "w100", "w1", "w5"]) for _ in range(rng.randint(0, 6))]
        lines.append("wa %s | %s" % (",".join(sc) or "-", hx(buf)))
    # read_all: all compositions of streams of length <= 4 with optional EINTR markers, n <= 5; then random
    def comps(n):
        if n == 0:
            return [[]]
        out = []
        for k in range(1, n + 1):
            out += [[k] + r for r in comps(n - k)]
        return out
    for total in range(0, 5):
        for comp in comps(total):
            for mask in range(1 << (len(comp) + 1)) if len(comp) <= 2 else [0, 1, 2]:
                data = mk(total)
                segs, off = [], 0
                for j, k in enumerate(comp):
                    if mask >> j & 1:
                        segs.append("-")
                    segs.append(hx(data[off:off + k]))
                    off += k
                if mask >> len(comp) & 1:
                    segs.append("-")
                for n in range(0, 6):
                    lines.append("ra %d | %s" % (n, " ".join(segs)))
    for _ in range(1000 if not thorough else 20000):
        segs = []
        for _ in range(rng.randint(0, 7)):
            segs.append("-" if rng.random() < 0.2 else hx(mk(rng.randint(1, 9))))
        lines.append("ra %d | %s" % (rng.randint(0, 30), " ".join(segs)))
    return lines


def unit_monitor(line, impl):
    """the statements of c16_writev_all_exact / c16_read_all_exact evaluated on
    the implementation's output"""
    f = line.split()
    kind = f[0]
    args = f[f.index("|") + 1:]
    kv = dict(x.split("=", 1) for x in impl.split() if "=" in x)
    if kind in ("wv", "wa"):
        full = b"".join(bytes.fromhex(a) for a in args if a != "-")
        out = bytes.fromhex(kv.get("out", "-").replace("-", ""))
        if not full.startswith(out):
            return "bytes written are not a prefix of the buffers"
        if kv.get("res") == "ok" and out != full:
            return "returned 0 but did not write everything"
        return None
    if kind == "ra":
        n = int(f[1])
        full = b"".join(bytes.fromhex(a) for a in args if a != "-")
        if impl.startswith("fail"):
            return None if len(full) < n else "read_all failed although enough bytes arrive"
        if len(full) < n:
            return "read_all succeeded on a short stream"
        got = bytes.fromhex(kv["got"].replace("-", ""))
        rest = bytes.fromhex(kv["rest"].replace("-", ""))
        if got != full[:n] or rest != full[n:]:
            return "read_all did not return exactly the next n bytes / consumed more"
        return None
    return None


def expected_tree(case, local_files):
    """The property as a specification of the received tree, independent of the
    Lean model: every client owns one directory holding exactly the local
    recording of its buffers; a directory is only ever renamed to NAME.old or
    replaced after its client has finished (that rotation is create_directory's
    design); a new client whose NAME (or the NAME.old its creation replaces)
    belongs to a connected client gets NAME.1, NAME.2, ….
    Returns ({hexdirname: files}, None) or (None, reason)."""
    units = [expand(steps) for _, steps in case.clients]
    k = len(units)
    order = list(case.order) if case.order else []
    cur = [0] * k
    seq = []
    for i in order:
        if cur[i] < len(units[i]):
            seq.append((i, units[i][cur[i]]))
            cur[i] += 1
    for i in range(k):                       # the relay drains what is left, client by client
        while cur[i] < len(units[i]):
            seq.append((i, units[i][cur[i]]))
            cur[i] += 1
    active, owner = {}, {}
    for i, unit in seq:
        for tok in unit:
            if tok.startswith("N:"):
                n = bytes.fromhex(tok[2:]) if tok[2:] != "-" else b""
                cand, j = n, 0
                while any(d == cand or d == cand + b".old" for d in active.values()):
                    j += 1
                    cand = n + b"." + str(j).encode()
                if cand in owner:
                    owner[cand + b".old"] = owner[cand]
                owner[cand] = i
                active[i] = cand
            elif tok == "E":
                active.pop(i, None)
    return {d.hex(): local_files[i] for d, i in owner.items()}, None


def tree_diff(tree, exp):
    for d in sorted(set(tree) | set(exp)):
        nm = bytes.fromhex(d).decode("latin1")
        if d not in tree:
            return "directory %r is missing" % nm
        if d not in exp:
            return "unexpected directory %r" % nm
        if tree[d] != exp[d]:
            return "directory %r does not hold exactly what its client sent" % nm
    return None


def finding_open(kind):
    for f in C.known_findings("C16"):
        blob = " ".join(str(f.get(k, "")) for k in ("id", "shape", "record"))
        if kind in blob or (kind == FIND_DIR and "F-C16-DIR" in blob) or (kind == FIND_MW and "F-C16-S5" in blob):
            return f
    return None


def build_harness(ctx):
    ctx.snapshot()
    spec = importlib.util.spec_from_file_location("c16_extract", os.path.join(C.VERIF, "translators/c16_extract.py"))
    mod = importlib.util.module_from_spec(spec)
    spec.loader.exec_module(mod)
    gen_dir = os.path.join(ctx.scratch, "gen")
    os.makedirs(gen_dir, exist_ok=True)
    try:
        frag = mod.extract(os.path.join(ctx.src, "cmds/record.c"))
    except (ValueError, OSError) as e:
        return None, "c16_extract: " + str(e)
    open(os.path.join(gen_dir, "c16_record_gen.c"), "w").write(frag)
    exe = os.path.join(ctx.scratch, "h_c16")
    ok, log = ctx.cc(exe, [os.path.join(C.VERIF, "harness/c16_net.c"),
                           os.path.join(ctx.src, "utils/utils.c"),
                           os.path.join(ctx.src, "utils/debug.c")],
                     extra=["-I", gen_dir, "-lpthread", "-ldl"])
    if not ok:
        return None, log[-3000:]
    return exe, ""


def run_model(lines):
    """C.run_model, retried while another builder relinks the shared uvmodel"""
    last = None
    for _ in range(30):
        try:
            return C.run_model("C16", lines)
        except (FileNotFoundError, PermissionError, OSError, RuntimeError) as e:
            last = e
            time.sleep(2)
    raise last


def run_harness(ctx, exe, lines, timeout=1500):
    env = dict(os.environ, C16_TMP=ctx.scratch, LC_ALL="C")
    r = subprocess.run([exe], input="\n".join(lines) + "\n", stdout=subprocess.PIPE,
                       stderr=subprocess.PIPE, text=True, timeout=timeout, env=env, cwd=ctx.scratch)
    out = r.stdout.split("\n")
    impl = [l[5:] for l in out if l.startswith("IMPL ")]
    info = [l[5:] for l in out if l.startswith("INFO ")]
    return r, impl, info


FIND_PERFIDX = "C16-DUMP-PERFIDX"


def load_e2e():
    spec = importlib.util.spec_from_file_location("c16_e2e", os.path.join(C.VERIF, "harness/c16_e2e.py"))
    mod = importlib.util.module_from_spec(spec)
    spec.loader.exec_module(mod)
    return mod


def build_sender(ctx):
    exe = os.path.join(ctx.scratch, "c16_send")
    ok, log = ctx.cc(exe, [os.path.join(C.VERIF, "harness/c16_send.c"), os.path.join(ctx.src, "utils/utils.c"),
                           os.path.join(ctx.src, "utils/debug.c")],
                     extra=["-I", os.path.join(ctx.scratch, "gen"), "-lpthread", "-ldl"])
    return (exe if ok else None), log[-3000:]


FORCED_CPUS = [(16, [13]), (12, [2, 10]), (4, [0]), (4, [0, 1, 2, 3]), (24, [1, 11, 23]), (300, [7, 100, 299]), (12, [10, 11])]


def forced_cpus():
    """built-in shapes, then the witnesses kept under corpus/C16 ({"nr_cpu": n, "cpus": [...]})"""
    out = list(FORCED_CPUS)
    cdir = os.path.join(C.VERIF, "corpus", "C16")
    if os.path.isdir(cdir):
        for f in sorted(os.listdir(cdir)):
            if f.endswith(".json"):
                j = json.load(open(os.path.join(cdir, f)))
                if "nr_cpu" in j and (j["nr_cpu"], j["cpus"]) not in out:
                    out.append((j["nr_cpu"], j["cpus"]))
    return out


def glob_order(cpus):
    """the order glob("perf-cpu*.dat") returns the files in (byte order of the names, LC_ALL=C)"""
    return sorted(cpus, key=lambda c: ("perf-cpu%d.dat" % c).encode())


def run_e2e(ctx, report):
    """real `uftrace recv` + real senders + real analysis commands; returns a dict of counters"""
    E = load_e2e()
    st = {"synth_runs": 0, "synth_dirs_equal": 0, "synth_cmd_pairs": 0, "synth_cmd_pairs_equal": 0, "concurrent_clients": 0,
          "dump_label_only_differences": 0, "real_variants": 0, "real_variants_with_sched_events": 0, "skipped": None}
    okm, log = ctx.make()
    uftrace = os.path.join(ctx.src, "uftrace")
    if not okm or not os.path.exists(uftrace):
        report("e2e-build", {"kind": "harness-build-failed", "what": "make failed", "log": log[-1500:]}, True)
        return st, []
    sender, log = build_sender(ctx)
    if not sender:
        report("e2e-build", {"kind": "harness-build-failed (anchored code changed shape?)", "what": "c16_send.c", "log": log}, True)
        return st, []
    root = os.path.join(ctx.scratch, "e2e")
    recvroot = os.path.join(root, "recv")
    os.makedirs(recvroot)
    srv = E.RecvServer(uftrace, recvroot)
    if not srv.start():
        report("e2e-recv", {"kind": "harness-failed", "what": "uftrace recv did not start listening", "log": srv.log()}, True)
        return st, []
    rng = ctx.rng
    samples = []
    perfidx = []           # concrete cases of the dump label finding
    label_q = []           # (run idx, which, cpus with data, labels shown)
    try:
        # ---- synthesized runs --------------------------------------------------------------
        forced = forced_cpus()
        n = len(forced) + (9 if ctx.tier == "quick" else 150)
        runs = [E.gen_run(rng, i, force_cpus=(forced[i] if i < len(forced) else None)) for i in range(n)]
        # sizes: task files / task buffers around 2^16, 2^20 and of several MiB (what `record -b 8M` flushes at once)
        runs += E.gen_big_runs(rng, n, 2 if ctx.tier == "quick" else 40)
        st["synth_big_runs"] = sum(1 for r in runs if r.big)
        st["synth_big_shapes"] = [(len(b), r.chunk) for r in runs if r.big for b in r.raw.values()]
        local = {}
        for r in runs:
            d = os.path.join(root, "l%d" % r.idx)
            r.write_local(d)
            local[r.idx] = d
        # every third group of three is sent by three clients at once, in small chunks
        i = 0
        groups = []
        while i < len(runs):
            k = 3 if (len(groups) % 3 == 1 and i + 3 <= len(runs) and not any(r.big for r in runs[i:i + 3])) else 1
            groups.append(runs[i:i + k])
            i += k
        send_fail = {}
        for g in groups:
            if len(g) == 1:
                r = g[0]
                rc, err = E.send_dir(sender, srv.port, local[r.idx], "r%d" % r.idx, root,
                                     r.chunk if r.chunk else rng.choice([16, 64, 4096, 1 << 20]))
                if rc != 0:
                    send_fail[r.idx] = "sender rc=%d %s" % (rc, err)
            else:
                st["concurrent_clients"] += len(g)
                procs = [(r, E.send_dir_async(sender, srv.port, local[r.idx], "r%d" % r.idx, root, rng.choice([8, 24, 64])))
                         for r in g]
                for r, (p, tmp) in procs:
                    try:
                        _, err = p.communicate(timeout=60)
                        if p.returncode != 0:
                            send_fail[r.idx] = "sender rc=%d %s" % (p.returncode, err.decode("latin-1")[-300:])
                    except subprocess.TimeoutExpired:
                        p.kill()
                        send_fail[r.idx] = "sender timeout"
                    shutil.rmtree(tmp, ignore_errors=True)
        for r in runs:
            st["synth_runs"] += 1
            rd = os.path.join(recvroot, "r%d" % r.idx)
            lf = E.read_dir(local[r.idx])
            want = E.expected_received(lf)
            got = E.wait_received(rd, want)
            case = {"run": r.summary(), "how": "c16_send (real senders) -> uftrace recv; local directory synthesized from seed"}
            if r.idx in send_fail or not srv.alive():
                report("e2e-send%d" % r.idx, dict(case, kind="property-violated-on-implementation",
                                                  what="sending failed: %s; receiver alive: %s; %s" %
                                                  (send_fail.get(r.idx), srv.alive(), srv.log()[-300:])))
                if not srv.alive():
                    break
                continue
            bad = E.diff_files(got, want)
            if bad:
                report("e2e-dir%d" % r.idx, dict(case, kind="property-violated-on-implementation", what="received directory: " + bad,
                                                 local_files={k: len(v or b"") for k, v in lf.items()},
                                                 received_files={k: len(v or b"") for k, v in got.items()},
                                                 theorem="c16_network_equals_local, c16_perf_files_preserved"))
                continue
            st["synth_dirs_equal"] += 1
            sub = [("replay", []), ("report", ["-f", "call", "-s", "func"])] if r.big else None
            ol, og = E.outputs(uftrace, local[r.idx], sub), E.outputs(uftrace, rd, sub)
            for k in ol:
                st["synth_cmd_pairs"] += 1
                if ol[k] == og[k] and ol[k][0] == 0:
                    st["synth_cmd_pairs_equal"] += 1
                    continue
                if k == "dump" and ol[k][0] == 0 and og[k][0] == 0 and E.strip_perf_labels(ol[k][1]) == E.strip_perf_labels(og[k][1]):
                    st["dump_label_only_differences"] += 1
                    continue            # judged below by the label monitor
                report("e2e-%s%d" % ("-".join(w.strip("-") for w in k.split()[:2]), r.idx),
                       dict(case, kind="property-violated-on-implementation", cmd="uftrace " + k,
                            what="`uftrace %s` of the received directory differs from the local one: %s (rc %d / %d) %s" %
                                 (k, E.first_diff(ol[k][1], og[k][1]), ol[k][0], og[k][0], (ol[k][2] or og[k][2])[:200]),
                            local_output=ol[k][1][:2500].decode("latin-1"), received_output=og[k][1][:2500].decode("latin-1"),
                            theorem="c16_network_equals_local, c16_perf_reader_ignores_empty_files"))
            # the per-cpu labels of `uftrace dump`: each must name the file whose events follow
            for which, o, files in ((("local", ol["dump"], lf), ("received", og["dump"], got)) if "dump" in ol else ()):
                if o[0] != 0:
                    continue
                labels = [nn for nn, _ in E.dump_perf_blocks(o[1])]
                with_data = [int(re.fullmatch(r"perf-cpu(\d+)\.dat", f).group(1)) for f, b in files.items()
                             if re.fullmatch(r"perf-cpu(\d+)\.dat", f) and b]
                all_cpus = [int(re.fullmatch(r"perf-cpu(\d+)\.dat", f).group(1)) for f in files
                            if re.fullmatch(r"perf-cpu(\d+)\.dat", f)]
                label_q.append((r, which, glob_order(all_cpus), set(with_data), labels))
            if len(samples) < 3:
                samples.append({"e2e_run": r.summary(), "replay_head": ol["replay"][1][:300].decode("latin-1")})
        # the label model (Net.dumpLabels): the repaired printer and the printer as it is
        if label_q:
            ml = []
            for r, which, order, data, labels in label_q:
                toks = " ".join("%d:%d" % (c, 1 if c in data else 0) for c in order) or "-"
                ml += ["perflabels 1 " + toks, "perflabels 0 " + toks]
            mo = run_model(ml)
            per_run = {}
            for j, (r, which, order, data, labels) in enumerate(label_q):
                m1 = [int(x) for x in mo[2 * j].split()] if mo[2 * j] != "-" else []
                m0 = [int(x) for x in mo[2 * j + 1].split()] if mo[2 * j + 1] != "-" else []
                mon_bad = sorted(labels) != sorted(data)          # monitor: the labels are exactly the cpus that have events
                per_run.setdefault(r.idx, []).append((which, labels, m1, m0, mon_bad, r))
            for idx, lst in per_run.items():
                for which, labels, m1, m0, mon_bad, r in lst:
                    if labels == m1 and not mon_bad:
                        continue
                    rep = {"run": r.summary(), "which_directory": which, "labels_shown": labels, "cpus_with_events": sorted(r.used_cpus()),
                           "model_fixed": m1, "model_as_it_is": m0, "cmd": "uftrace dump",
                           "theorem": "c16_dump_perf_labels; c16_prefix_dump_perf_label_witness"}
                    if labels == m0 and m0 != m1:
                        perfidx.append(rep)
                    else:
                        report("e2e-dumplabel%d" % idx, dict(rep, kind="property-violated-on-implementation" if mon_bad else "model-code-disagreement",
                                                              what="`uftrace dump` labels the per-cpu blocks %r, the cpus with events are %r" %
                                                              (labels, sorted(r.used_cpus()))), nfi=not mon_bad)
        # ---- real recordings -----------------------------------------------------------------
        real = os.path.join(root, "real")
        os.makedirs(real)
        prog, plog = E.build_prog(real)
        if not prog:
            st["skipped"] = "gcc -pg failed: " + plog[-200:]
        else:
            cpu, ncpu = E.pin_cpu()
            libm = os.path.join(ctx.src, "libmcount")
            # bigbuf: > 100k calls into ONE shared-memory buffer of several MiB (-b 8M), flushed at once at the end
            variants = [("event", [], []), ("noevent", ["--no-event"], []),
                        ("bigbuf", ["--no-event", "-b", "8M"], ["b%d" % rng.choice([70, 85, 100])])]
            if ctx.tier == "thorough":
                variants += [("event-thread", [], ["t"]), ("noevent-thread", ["--no-event"], ["t"]),
                             ("bigbuf-event", ["-b", "8M"], ["b120"]), ("bigbuf-2m", ["--no-event", "-b", "2M"], ["b150"])]
            for vname, extra, pargs in variants:
                st["real_variants"] += 1
                ld = os.path.join(real, "local-%s.data" % vname)
                nname = "net-%s.data" % vname
                rc1, e1 = E.record(uftrace, libm, real, ld, prog, pargs, cpu, extra)
                rc2, e2 = E.record(uftrace, libm, real, nname, prog, pargs, cpu,
                                   extra + ["--host", "127.0.0.1", "--port", str(srv.port)])
                case = {"program": "harness/c16_e2e.py PROG_C (main: [bN: burst -> N thousand step -> compute,] compute, wait_for_io -> usleep(30ms), compute)", "args": pargs,
                        "pinned_to_cpu": cpu, "cpus_available": ncpu,
                        "local_cmd": "uftrace record -d local.data %s ./prog" % " ".join(extra),
                        "network_cmd": "uftrace recv --port P  +  uftrace record --host 127.0.0.1 --port P -d %s %s ./prog" % (nname, " ".join(extra))}
                nd = os.path.join(recvroot, nname)
                if rc1 != 0 or rc2 != 0 or not srv.alive():
                    report("e2e-real-" + vname, dict(case, kind="property-violated-on-implementation",
                                                     what="record failed: local rc=%d %s / --host rc=%d %s; receiver alive: %s %s" %
                                                     (rc1, e1[-200:], rc2, e2[-200:], srv.alive(), srv.log()[-200:])))
                    if not srv.alive():
                        break
                    continue
                # wait for the receiver to have written the info file (sent last) and to be quiet
                E.wait_received(nd, {"\0": b""}, timeout=3.0)
                lf, nf = E.read_dir(ld), (E.read_dir(nd) if os.path.isdir(nd) else {})
                cl, rank_l = E.canon_dir(lf)
                cn, rank_n = E.canon_dir(nf)
                bad = None
                for k in sorted(set(cl) | set(cn)):
                    if k not in cn:
                        bad = "%s is in the local directory only" % k
                    elif k not in cl:
                        bad = "%s is in the received directory only" % k
                    elif cl[k] != cn[k]:
                        a_, b_ = cl[k], cn[k]
                        if isinstance(a_, tuple) and isinstance(b_, tuple) and len(a_) == len(b_):
                            j = [j for j in range(len(a_)) if a_[j] != b_[j]][0]
                            a_, b_ = a_[j], b_[j]
                        if isinstance(a_, list) and isinstance(b_, list):
                            j = [j for j in range(min(len(a_), len(b_))) if a_[j] != b_[j]]
                            a_, b_ = (a_[j[0]], b_[j[0]]) if j else ("%d items" % len(a_), "%d items" % len(b_))
                        bad = "%s differs (after taking out pids, times, addresses): local %r / received %r" % (
                            k, str(a_)[:300], str(b_)[:300])
                    if bad:
                        break
                has_sched = any(E.PERCPU.match(k) for k in cl)
                if not extra and not has_sched:
                    st["skipped"] = "no perf events in the local recording (perf_event_open not permitted?)"
                st["real_variants_with_sched_events"] += bool(has_sched)
                if not bad:
                    ol, og = E.outputs(uftrace, ld), E.outputs(uftrace, nd)
                    rl, rn = E.canon_replay(ol["replay"][1], rank_l), E.canon_replay(og["replay"][1], rank_n)
                    if ol["replay"][0] != 0 or og["replay"][0] != 0:
                        bad = "replay failed: rc %d / %d %s" % (ol["replay"][0], og["replay"][0], og["replay"][2][:200])
                    elif rl != rn:
                        k = [k for k in sorted(set(rl) | set(rn), key=str) if rl.get(k) != rn.get(k)][0]
                        bad = "replay of task #%s differs: local %r / received %r" % (
                            k, b" | ".join(x.strip() for x in rl.get(k, []))[:400].decode("latin-1"),
                            b" | ".join(x.strip() for x in rn.get(k, []))[:400].decode("latin-1"))
                    elif not extra and has_sched and not any(b"[blocked]" in x for v in rl.values() for x in v):
                        st["skipped"] = "the local recording shows no scheduling event inside usleep()"
                    if not bad:
                        a, b = E.canon_report(ol["report -f call -s func"][1]), E.canon_report(og["report -f call -s func"][1])
                        if a != b:
                            bad = "report differs: local %r / received %r" % (a, b)
                    if not bad:
                        a, b = E.canon_dump(ol["dump"][1], rank_l), E.canon_dump(og["dump"][1], rank_n)
                        if a != b:
                            bad = "dump differs: local events %r / received events %r%s" % (
                                a[1], b[1], "" if a[0] == b[0] else "; function records differ")
                    if len(samples) < 6:
                        samples.append({"e2e_real": vname, "local_files": sorted(cl), "received_files": sorted(cn),
                                        "replay_main": [x.decode("latin-1") for x in rl.get(0, [])][:12]})
                if bad:
                    report("e2e-real-" + vname, dict(case, kind="property-violated-on-implementation", what=bad,
                                                     local_files={k: len(v or b"") for k, v in lf.items()},
                                                     received_files={k: len(v or b"") for k, v in nf.items()},
                                                     theorem="c16_network_equals_local, c16_perf_files_preserved, c16_perf_reader_ignores_empty_files"))
    finally:
        srv.stop()
    if perfidx:
        f = finding_open(FIND_PERFIDX)
        what = ("`uftrace dump` labels a per-cpu perf block with the file's position in the glob() result, not with its cpu number "
                "(perf-cpu13.dat of a 16-cpu machine is announced as \"reading perf-cpu5.dat\"); so the received directory (files "
                "only for the cpus that sent events) and the local one (a file for every cpu) give different dump output")
        if f:
            C.known(ctx, f, "%s %s" % (FIND_PERFIDX, what[:200]))
        else:
            for rep in perfidx[:2]:
                report("perfidx%d%s" % (rep["run"]["idx"], rep["which_directory"]), dict(rep, kind="property-violated-on-implementation", finding=FIND_PERFIDX,
                                                             what=what, matches_prefix_model=True))
    st["dump_label_cases_matching_the_printer_as_it_is"] = len(perfidx)
    return st, samples


def run(ctx):
    ok, problems = C.prove(ctx, "C16")
    if not ok:
        C.violation(ctx, "proof", {"kind": "proof-obligation-broken", "problems": problems}, True)
        return C.finish(ctx)
    exe, log = build_harness(ctx)
    if not exe:
        C.violation(ctx, "build", {"kind": "harness-build-failed (anchored code changed shape?)",
                                   "log": log}, True)
        return C.finish(ctx)

    nviol = {}

    def report(name, obj, nfi=False):
        cat = name.rstrip("0123456789")
        nviol[cat] = nviol.get(cat, 0) + 1
        if nviol[cat] <= 2:                       # at most two replays per kind of failure
            C.violation(ctx, name, obj, no_failing_input=nfi)

    # ---- unit level: writev_all / write_all / read_all ---------------------
    ulines = gen_unit_cases(ctx)
    r, uimpl, _ = run_harness(ctx, exe, ulines)
    if r.returncode != 0 or len(uimpl) != len(ulines):
        k = len(uimpl)
        C.violation(ctx, "harness-unit", {
            "kind": "implementation hangs or crashes on this input" if k < len(ulines) else "harness-failed",
            "rc": r.returncode, "stderr": r.stderr[-2000:], "got": len(uimpl), "want": len(ulines),
            "case": ulines[k] if k < len(ulines) else None,
            "theorem": "c16_read_all_exact / c16_writev_all_exact / c16_writev_all_completes"},
            no_failing_input=not (k < len(ulines)))
        return C.finish(ctx)
    umodel = run_model(ulines)
    unit_bad = unit_mon_bad = 0
    partial_fired = 0
    distinct = set()
    for i, l in enumerate(ulines):
        mi, mm = C.norm(uimpl[i]), C.norm(umodel[i])
        distinct.add(l)
        if "used=" in mi and int(mi.split("used=")[1].split()[0]) >= 2:
            partial_fired += 1
        bad = unit_monitor(l, mi)
        if bad or mi != mm:
            unit_bad += mi != mm
            unit_mon_bad += bool(bad)
            report("unit%d" % i, {"kind": "property-violated-on-implementation" if bad else "model-code-disagreement",
                                  "what": bad, "case": l, "impl_output": mi, "model_output": mm,
                                  "theorem": "c16_read_all_exact" if l.startswith("ra") else "c16_writev_all_exact"},
                   nfi=not bad)

    # ---- protocol level -----------------------------------------------------
    cases, same = gen_net_cases(ctx)
    allc = cases + same
    work = os.path.join(ctx.scratch, "net")
    os.makedirs(work)
    hl, ml0, ml1 = [], [], []
    local_idx = {}          # (case idx, client idx) -> index into local lines
    ll, lml = [], []
    for i, c in enumerate(allc):
        rd = os.path.join(work, "r%d" % i)
        sb = os.path.join(work, "s%d" % i)
        os.makedirs(rd)
        os.makedirs(sb)
        hl.append(c.harness_line(rd, sb))
        ml0.append(c.model_line(False))
        ml1.append(c.model_line(True))
        if c.desc != "malformed":
            for j, (_, steps) in enumerate(c.clients):
                ld = os.path.join(work, "l%d_%d" % (i, j))
                os.makedirs(ld)
                ls = [("N", b"d")] + [s for s in local_steps(steps) if s[0] != "N"]
                local_idx[(i, j)] = len(ll)
                ll.append("local %s | %s" % (ld, " ".join(step_tok(s) for s in ls)))
                lml.append("local " + " ".join(t for u in expand([s for s in steps if s[0] != "N"]) for t in u))
    mw_lines = ["mw 4 12 131072"] * (1 if ctx.tier == "quick" else 3)
    r, nimpl, ninfo = run_harness(ctx, exe, hl + ll + mw_lines)
    if r.returncode != 0 or len(nimpl) != len(hl) + len(ll) + len(mw_lines):
        C.violation(ctx, "harness-net", {"kind": "harness-failed", "rc": r.returncode, "stderr": r.stderr[-2000:],
                                         "got": len(nimpl), "want": len(hl) + len(ll) + len(mw_lines)}, True)
        return C.finish(ctx)
    m0 = run_model(ml0)
    m1 = run_model(ml1)
    mloc = run_model(lml)
    limpl = nimpl[len(hl):len(hl) + len(ll)]
    mwimpl = nimpl[len(hl) + len(ll):]

    cov = {}
    for l in ninfo:
        for kv in l.split():
            if "=" in kv:
                k, v = kv.split("=", 1)
                if k != "exit" and v.lstrip("-").isdigit():
                    cov[k] = cov.get(k, 0) + int(v)
    # how often a read is split depends on timing for segments larger than the socket buffer
    for k in ("reads", "partial_reads", "eintr_reads"):
        if k in cov:
            cov[k] = cov[k] // 1000 * 1000
    net_disagree = net_mon_bad = dir_defect = local_disagree = prefix_ok = 0
    samples = []
    for i, c in enumerate(allc):
        mi = C.norm(nimpl[i])
        a0, a1 = C.norm(m0[i]), C.norm(m1[i])
        distinct.add(ml0[i])
        # monitor: every client's directory equals the local recording of the same buffers
        bad = None
        st = mi.split("|")
        tree = parse_tree(st[2]) if len(st) == 3 else None
        if "status=skipped" in mi:
            continue
        if "status=timeout" in mi:
            bad = "receiver or relay stuck (timeout)"
        elif c.desc != "malformed":
            if "status=ok" not in mi:
                bad = "receiver died on a well-formed run"
            elif tree is None:
                bad = "unreadable tree"
            else:
                exp, bad = expected_tree(c, [parse_files(limpl[local_idx[(i, j)]])
                                             for j in range(len(c.clients))])
                if exp is not None:
                    bad = tree_diff(tree, exp)
        if len(samples) < 4 and i % 61 == 7:
            samples.append({"model_input": ml0[i][:300], "impl": mi[:300], "model": a1[:300]})
        if (mi == a1 or mi == a0) and not bad:
            prefix_ok += mi == a0 and a0 != a1
            continue
        if mi == a0 and a0 != a1:
            # the implementation behaves like the pre-fix model and the property fails: F-C16-DIR
            dir_defect += 1
            f = finding_open(FIND_DIR)
            what = ("clients that name the same directory (or a connected client's NAME.old) while both are "
                    "connected share/lose a directory (recv_trace_dir_name does not check the client list): "
                    + (bad or "data mixed"))
            if f:
                C.known(ctx, f, "%s clients naming the same directory (or a connected client's NAME.old) while "
                                "connected share/lose a directory; recv_trace_dir_name does not check the "
                                "client list" % f.get("id", "F-C16-DIR"))
            else:
                report("samedir%d" % i, {"kind": "property-violated-on-implementation", "finding": "F-C16-DIR",
                                         "what": what, "case": c.to_json(), "model_input": ml0[i],
                                         "impl_output": mi, "model_output_fixed": a1, "model_output_prefix": a0,
                                         "matches_prefix_model": True,
                                         "theorem": "c16_clients_isolated / c16_prefix_same_dirname_witness"})
            continue
        net_disagree += mi != a1
        net_mon_bad += bool(bad)
        report("net%d" % i, {"kind": "property-violated-on-implementation" if bad else "model-code-disagreement",
                             "what": bad, "case": c.to_json(), "model_input": ml0[i], "impl_output": mi,
                             "model_output": a1, "model_output_prefix": a0,
                             "theorem": "c16_framing_roundtrip / c16_files_equal_local"}, nfi=not bad)
    for k, l in enumerate(ll):
        a, b = C.norm(limpl[k]), C.norm(mloc[k])
        if a != b:
            local_disagree += 1
            report("local%d" % k, {"kind": "model-code-disagreement", "case": l, "impl_output": a,
                                   "model_output": b, "theorem": "c16_files_equal_local (localStep)"}, nfi=True)
    # ---- several writer threads on one socket --------------------------------
    mw_bad = 0
    for l in mwimpl:
        if "bad=0" in l and "whole=%d " % (4 * 12) in l + " ":
            continue
        mw_bad += 1
        f = finding_open(FIND_MW)
        what = ("4 writer threads calling send_trace_data on one socket (as `record --host` does): the byte "
                "stream is not a sequence of whole messages: " + l)
        if f:
            C.known(ctx, f, "%s writer threads of record --host share one socket without a lock: messages "
                            "interleave on the stream" % f.get("id", "F-C16-S5"))
        elif mw_bad == 1:
            report("manywriters", {"kind": "property-violated-on-implementation", "finding": "F-C16-S5",
                                   "what": what, "case": mw_lines[0], "impl_output": l,
                                   "matches_prefix_model": True,
                                   "theorem": "c16_one_socket_many_writers_partial (hypothesis false) / "
                                              "c16_prefix_many_writers_witness"})

    # ---- end to end: real uftrace recv, real senders, real analysis commands -------------------
    t_e2e = time.time()
    e2e, e2e_samples = run_e2e(ctx, report)
    e2e["seconds"] = round(time.time() - t_e2e, 1)
    samples += e2e_samples

    ctx.coverage.update({
        "evaluations": len(ulines) + len(allc) + len(ll) + len(mw_lines) + e2e["synth_runs"] + e2e["synth_cmd_pairs"] + e2e["real_variants"],
        "end_to_end": e2e,
        "distinct_nontrivial": len(distinct),
        "rule": "unit: every iovec shape (<=3 iovecs of 0..2 bytes) x every schedule of <=3 results from "
                "{0,1,2,4 bytes, EINTR, error}, then random; read_all: every composition of streams <=4 bytes "
                "with interrupted reads x n<=5, then random.  net: every split point of a stream with all 7 "
                "message types; 17 segment patterns x 9 partial-writev patterns; random recordings (tids incl. "
                "negative, 0..300000-byte buffers, metadata via send_trace_metadata or via the record.c tail); "
                "2-3 (thorough: up to 8) clients interleaved at message granularity; 3-5 clients connected at once with "
                "repeated names (X,Y,X / X,X,X / X,Y,X.old / X,Y,Y,X / prefixes …) x 4 connect/finish orders, then "
                "random name pools; malformed streams; kernel / perf data under cpu numbers drawn with holes from 0..4095.  "
                "End to end: real `uftrace recv` on a loopback port; synthesized recordings (1-3 tasks, 2..300 cpus, events on 1-3 cpus "
                "chosen with holes, scheduling incl. pre-emption and migration, fork / exit / comm events, an empty perf-cpuN.dat for every "
                "other cpu) sent by the real senders in chunks of 8..2^20 bytes, every third group by three clients at once: received "
                "directory = local directory byte for byte (minus the empty per-cpu files), replay / report / dump / dump --chrome / graph / "
                "info of both byte for byte; real `uftrace record` vs `uftrace record --host` of one program pinned to the highest cpu, "
                "with and without --no-event, compared after canonicalising pids / times / addresses.  The monitor is the expected tree computed from the "
                "property (own directory per client, rotation only after its client finished).  "
                "distinct = distinct model inputs",
        "unit_cases": len(ulines), "net_cases": len(cases), "same_name_cases": len(same),
        "local_cases": len(ll), "many_writer_runs": len(mw_lines),
        "partial_results_fired": cov,
        "partial_results_note": "read counters are rounded down to 1000 (timing-dependent for big segments)",
        "unit_schedules_with_partial_writes": partial_fired,
        "model_code_disagreements": unit_bad + net_disagree + local_disagree,
        "monitor_failures_on_impl": unit_mon_bad + net_mon_bad,
        "cases_matching_prefix_model_F-C16-DIR": dir_defect,
        "cases_matching_prefix_model_but_property_holds": prefix_ok,
        "many_writer_runs_interleaved_F-C16-S5": mw_bad,
        "exhaustive": False,
        "samples": samples,
    })
    ctx.assumptions += [
        "little-endian host in the correspondence runs (the byte-order theorems cover both)",
        "message sizes < 2^31 (C `int len`/`int size`); names without NUL or '/'",
        "the receiver's working directory holds only directories it created itself",
        "kernel: a blocking read/write returns between 1 and the requested number of bytes, or EINTR",
        "c16_one_socket_many_writers_partial: each message reaches the socket contiguously "
        "(false for the code as it is, see F-C16-S5)",
        "protocol level: command_recv's accept/epoll loop, setup_client_socket and the kernel/perf writers are not run; "
        "the local path is the real write_buffer_file for trace data and an emulation for the other files (the end-to-end part runs them)",
        "end to end: the synthesized local directory is what `uftrace record` leaves (a perf-cpuN.dat per cpu, empty without events); "
        "two real recordings of one program are compared modulo pids, session ids, time stamps, load addresses, the command line, "
        "the host's usage figures and scheduling events other than the program's own blocking in usleep()",
    ]
    return C.finish(ctx)


def replay(ctx, path):
    r = json.load(open(path))
    print(json.dumps(r, indent=1))
    exe, log = build_harness(ctx)
    if not exe:
        print("harness build failed:", log)
        return 1
    if "model_input" in r and r.get("case") and isinstance(r["case"], dict):
        c = r["case"]
        work = os.path.join(ctx.scratch, "replay")
        os.makedirs(os.path.join(work, "r"))
        os.makedirs(os.path.join(work, "s"))
        parts = ["net", os.path.join(work, "r"), os.path.join(work, "s"),
                 ",".join(map(str, c["order"])) if c["order"] else "-", str(c["eintr_every"]), c["wpat"], c["fpat"]]
        for pat, steps in c["clients"]:
            parts += ["|", pat] + steps
        _, impl, info = run_harness(ctx, exe, [" ".join(parts)])
        print("IMPL  ", impl)
        print("MODEL0", run_model([r["model_input"]]))
        print("MODEL1", run_model([r["model_input"].replace("net 0 ", "net 1 ", 1)]))
    elif isinstance(r.get("case"), str):
        _, impl, info = run_harness(ctx, exe, [r["case"]])
        print("IMPL ", impl)
        if not r["case"].startswith(("mw", "local")):
            print("MODEL", run_model([r["case"]]))
    return 0
