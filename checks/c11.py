"""C11 — Non-local control flow keeps shadow stack and real stack in step.
(work in progress: H1 part)"""
import glob
import json
import os
import re
import subprocess
import sys
from concurrent.futures import ThreadPoolExecutor

from lib import common as C, h1

FLAGS = ("rehook", "excFrame", "jmpCap", "pthExit", "excPlt")

# child ids of harness/h1_c11_driver.c
F_PLAIN = (100, 112, 113)
F_SETJMP = (101, 110)
F_LONGJMP = (102, 109)
F_VFORK, F_EXECL, F_EXIT, F_PEXIT, F_FORK = 103, 104, 105, 106, 111


def build_h1(ctx, out="h1c11"):
    """lib/h1.build, but plthook.c and wrap.c are compiled as part of the driver (which #includes them)."""
    ctx.snapshot()
    src = ctx.src
    flags, from_make = h1.lib_flags(ctx)
    flags = flags + ["-w", "-D" + C.GUARD]
    objdir = os.path.join(ctx.scratch, "h1obj-" + out)
    os.makedirs(objdir, exist_ok=True)
    srcs = [f for f in glob.glob(os.path.join(src, "libmcount/*.c"))
            if not f.endswith("-nop.c") and os.path.basename(f) not in ("plthook.c", "wrap.c")]
    srcs += [os.path.join(src, "utils", u + ".c") for u in h1.UTILS]
    srcs += glob.glob(os.path.join(src, "utils/symbol*.c"))
    srcs += glob.glob(os.path.join(src, "arch/x86_64/mcount-*.c")) + [os.path.join(src, "arch/x86_64/symbol.c")]
    srcs += glob.glob(os.path.join(src, "arch/x86_64/*.S"))
    hdir = os.path.join(C.VERIF, "harness")
    jobs = []
    for s in srcs:
        o = os.path.join(objdir, os.path.relpath(s, src).replace("/", "_") + ".o")
        jobs.append((["gcc"] + flags + ["-c", s, "-o", o], o))
    # the driver carries plthook.c and wrap.c: the library's own flags
    o = os.path.join(objdir, "drv_c11.o")
    jobs.append((["gcc"] + flags + ["-c", os.path.join(hdir, "h1_c11_driver.c"), "-o", o], o))
    o = os.path.join(objdir, "drv_funcs_b.o")
    jobs.append((["gcc"] + flags + ["-O0", "-c", os.path.join(hdir, "h1_funcs_b.c"), "-o", o], o))

    def run(j):
        r = C.sh(j[0])
        return r.returncode, r.stdout

    with ThreadPoolExecutor(16) as ex:
        res = list(ex.map(run, jobs))
    bad = [(j, r) for j, r in zip(jobs, res) if r[0] != 0]
    if bad:
        return None, "\n".join(" ".join(j[0][-3:]) + "\n" + r[1][-1500:] for j, r in bad[:5])
    exe = os.path.join(ctx.scratch, out)
    r = C.sh(["gcc", "-o", exe] + [j[1] for j in jobs] + ["-ldl", "-pthread", "-lrt", "-lelf", "-ldw", "-lstdc++", "-no-pie"])
    if r.returncode != 0:
        return None, r.stdout[-3000:]
    ctx.notes.append("H1 (C11) built with flags from %s" % ("make -n" if from_make else "fallback list"))
    return exe, ""


def run_script(ctx, exe, lines, idx):
    r = h1.run(ctx, exe, {}, lines, idx)
    models = [l[6:] for l in r["lines"] if l.startswith("MODEL ")]
    impls = [l[5:] for l in r["lines"] if l.startswith("IMPL ")]
    return models, impls, r


def run(ctx):
    raise SystemExit("not finished")


def replay(ctx, path):
    print(json.dumps(json.load(open(path)), indent=1))
    return 0


if __name__ == "__main__":
    # development aid: python3 -m checks.c11 <scriptfile>
    ctx = C.Ctx("C11", "quick", 0)
    exe, log = build_h1(ctx)
    print(exe, log)
    if exe:
        lines = open(sys.argv[1]).read().split("\n")
        m, i, r = run_script(ctx, exe, lines, 0)
        fix = sys.argv[2] if len(sys.argv) > 2 else "0 0 0 0 0"
        mo = C.run_model("C11", ["FIX " + fix, "RESET"] + m)[2:]
        for a, b, c in zip(m, i, mo):
            print("OP   ", a)
            print(" impl", b)
            print(" modl", c, "" if C.norm(b) == C.norm(c) else "   <<<<<< DIFF")
        print("rc", r["rc"], r["stderr"][-500:], len(m), len(i), len(mo))
