"""C11 — Non-local control flow keeps shadow stack and real stack in step.
Lean: Uft/Model/NonLocal.lean (shadow stack + real stack + replay fix-up), Uft/Lemmas/NonLocal.lean,
Uft/Props/C11.lean.

Tie (1), H1: the real libmcount (plthook.c and wrap.c #included in harness/h1_c11_driver.c so that a
fake PLT module and stubbed real_* pointers can be set up) driven with fake activation frames: generated
op sequences (calls hooked by mcount/fentry, the PLT or not at all, returns, tail calls, setjmp/longjmp on
several jmp_bufs, throw / unwinding / landing-pad calls / _Unwind_Resume / catch, vfork+exec, pthread_exit,
exit, the thread destructor); after every op the returned address, every fake return slot, rstack idx,
record_idx, in_exception and the new records are compared with the Lean model `C11`.

Tie (2), H5: generated C and C++ programs (harness/c11_e2e.c: a script interpreter spread over instrumented
functions that logs its own ground-truth call depth) built -pg / -finstrument-functions / -pg -mfentry at
-O0/-O2, run natively and under the snapshot's uftrace: stdout and exit status must be equal and
`uftrace replay` must show every traced call at its ground-truth depth; the record stream (`uftrace dump`)
must be coherent in the sense of `c11_replay_depth_coherent`, and the Lean replay model must agree with
replay's indentation.

Seven behaviours of the anchored code have a repaired and an as-coded variant: five as `Fix` flags of the model
(probed in H1 with the op lists of the Lean witness theorems and in H5), two visible in H5 only (replay's
longjmp fix-up, which has its own Lean model `rstep`, and the -finstrument-functions tail-call case).  The
check finds out per finding which variant the tree follows, runs the random cases against that variant of the
model, and reports every as-coded variant as a property violation with the probe as failing input
(KNOWN-FINDING if listed open in known_findings.json with property C11).  Failures of random cases are
attributed to an as-coded finding only if the case contains that finding's trigger construct; anything else is
a VIOLATION of its own.

Tie (3), translator: translators/c11_plttables.py regenerates lean/Uft/Gen/PltTables.lean (the special-function
tables of libmcount/plthook.c, matched BY NAME, plus replay's fixup_syms and the wrappers of wrap.c) on every run;
the `c11_tables_*` theorems of Props/C11.lean are re-checked against the regenerated lists.  When one of them (or
any other proof obligation) breaks, the check goes on and searches a failing input: the H1 harness binds the PLT
symbols by the NAMES a program can bind (setjmp/_setjmp/sigsetjmp/__sigsetjmp, longjmp/_longjmp/siglongjmp/
__longjmp_chk, …; directed scripts per name pair and the random scripts), and the H5 family contains programs built
with -O2 -D_FORTIFY_SOURCE=2 (checked with nm -D to bind __longjmp_chk).

Filters x non-local exits: the FX family of checks/c05.py (the hook model `Mcount` with exception unwinding and
longjmp, the real libmcount under a random -F/-N/-D/-t/-T/-C/-L environment in this check's H1 harness) and C++
programs recorded with `-N <function>` whose exceptions pass through that function (replay vs the documented
selection of the ground-truth log)."""
import glob
import json
import os
import random
import re
import subprocess
import sys
from concurrent.futures import ThreadPoolExecutor

from lib import common as C, h1, datadir, mcgen
from translators import c11_plttables

FLAGS = ("rehook", "excFrame", "jmpCap", "pthExit", "excPlt")
FINDING_OF = {"rehook": "C11-REHOOK-ORDER", "excFrame": "C11-EXC-FRAME", "jmpCap": "C11-JMPBUF-OVERFLOW",
              "pthExit": "C11-PTHREAD-EXIT", "excPlt": "C11-EXC-PLT", "replay": "C11-LONGJMP-DEPTH",
              "cygTail": "C11-CYG-TAILCALL", "ljAlias": "C11-LONGJMP-ALIAS"}
PROPOSED_FIX = {"C11-LONGJMP-ALIAS": "proposed_fixes/C11-LONGJMP-ALIAS.diff"}
WHAT = {
    "C11-REHOOK-ORDER": "mcount_rstack_rehook() (libmcount/misc.c) loops top->bottom, so for a tail-call chain on one "
                        "return slot the FIRST entry's trampoline wins: [PLT library function, traced callback it "
                        "tail-called] gets plthook_return after a catch and the callback's return pops a non-PLT entry: "
                        "'invalid dynsym idx', the tracee dies (theorem c11_prefix_rehook_order_witness)",
    "C11-EXC-FRAME": "__mcount_entry() (libmcount/mcount.c) falls back to frame_addr = parent_loc - 1 when parent_loc[-1] "
                     "is no frame pointer (always with -mfentry): the unwound callee on the same slot survives and the call "
                     "made from the landing pad is recorded one level too deep (c11_prefix_exc_frame_witness)",
    "C11-JMPBUF-OVERFLOW": "setup_jmpbuf_rstack() (libmcount/plthook.c) copies mtdp->idx entries into rstack[MCOUNT_RSTACK_MAX]"
                           ": heap overflow when setjmp is called below 1024 open calls with --max-stack > 1024 "
                           "(c11_prefix_jmpbuf_overflow_witness)",
    "C11-PTHREAD-EXIT": "pthread_exit() wrapper (libmcount/wrap.c) drops only its own entry and leaves its return slot "
                        "hijacked: the forced unwinder walks through plthook_return (crash / destructors skipped) and "
                        "mtd_dtor later restores the dead frames' return addresses into reused stack: thread result lost "
                        "(c11_prefix_pthread_exit_witness)",
    "C11-EXC-PLT": "__plthook_entry() (libmcount/plthook.c) ignores in_exception: a library call from a landing pad is pushed "
                   "on the unwound entries; __cxa_guard_abort then resumes at the dead entry's return address (exception "
                   "from a static initialiser is swallowed) and a traced callback from a library destructor ends in "
                   "'invalid dynsym idx' (c11_prefix_exc_plt_witness)",
    "C11-CYG-TAILCALL": "mcount_auto_restore() (libmcount/misc.c) takes a -finstrument-functions entry whose parent is "
                        "plthook_return (a traced callback tail-called by a PLT-hooked library function) for a tail-call "
                        "chain member and restores the library call's return slot; mcount_auto_rehook() only rewrites "
                        "cygprof_dummy, so the hook is lost at the callback's first library call: the PLT entry is never "
                        "popped and a later library call returns to the wrong place (H5 only: the cygprof path is not in the "
                        "model)",
    "C11-LONGJMP-ALIAS": "`_longjmp` (the BSD entry point glibc exports next to longjmp/siglongjmp; what _setjmp users call) is "
                         "missing from longjmp_syms / flush_syms of libmcount/plthook.c and fixup_syms of utils/fstack.c: libmcount "
                         "takes it for an ordinary function, so when the jump lands in plthook_return the exit hook pops the "
                         "_longjmp entry and RETURNS INTO THE FRAME THAT CALLED _longjmp with the stack of the setjmp frame: the "
                         "program computes something else than untraced (full statement of c11_tables_jump_names_partial)",
    "C11-LONGJMP-DEPTH": "replay's longjmp fix-up (utils/fstack.c) keeps one global setjmp_depth (last setjmp seen): after a "
                         "longjmp to any other live jmp_buf every later call is shown too deep "
                         "(c11_prefix_longjmp_depth_witness)",
}

# child ids of harness/h1_c11_driver.c
F_PLAIN = (100, 112, 113)
# the names a program can bind (plt_names of the driver): what the PROPERTY needs each of them to be
SETJMP_NAMES = {"setjmp": 101, "__sigsetjmp": 110, "_setjmp": 114, "sigsetjmp": 115}
LONGJMP_NAMES = {"longjmp": 102, "siglongjmp": 109, "__longjmp_chk": 116, "_longjmp": 117}
F_SETJMP = tuple(sorted(SETJMP_NAMES.values()))
F_LONGJMP = (102, 109, 116)          # + 117 (_longjmp) when the tree has the repair of C11-LONGJMP-ALIAS
F_VFORK, F_EXECL, F_EXIT, F_PEXIT = 103, 104, 105, 106
WATCH = 63


# ============================================================================ H1
def build_h1(ctx, out="h1c11"):
    """lib/h1.build, but plthook.c and wrap.c are compiled as part of the driver (which #includes them)."""
    ctx.snapshot()
    src = ctx.src
    flags, from_make = h1.lib_flags(ctx)
    flags = flags + ["-w", "-D" + C.GUARD]
    objdir = os.path.join(ctx.scratch, "h1obj-" + out)
    os.makedirs(objdir, exist_ok=True)
    srcs = [f for f in glob.glob(os.path.join(src, "libmcount/*.c"))
            if not f.endswith("-nop.c") and os.path.basename(f) not in ("plthook.c", "wrap.c")]
    srcs += [os.path.join(src, "utils", u + ".c") for u in h1.UTILS]
    srcs += glob.glob(os.path.join(src, "utils/symbol*.c"))
    srcs += glob.glob(os.path.join(src, "arch/x86_64/mcount-*.c")) + [os.path.join(src, "arch/x86_64/symbol.c")]
    srcs += glob.glob(os.path.join(src, "arch/x86_64/*.S"))
    hdir = os.path.join(C.VERIF, "harness")
    jobs = []
    for s in srcs:
        o = os.path.join(objdir, os.path.relpath(s, src).replace("/", "_") + ".o")
        jobs.append((["gcc"] + flags + ["-c", s, "-o", o], o))
    o = os.path.join(objdir, "drv_c11.o")
    jobs.append((["gcc"] + flags + ["-c", os.path.join(hdir, "h1_c11_driver.c"), "-o", o], o))
    o = os.path.join(objdir, "drv_funcs_b.o")
    jobs.append((["gcc"] + flags + ["-O0", "-c", os.path.join(hdir, "h1_funcs_b.c"), "-o", o], o))

    def run(j):
        r = C.sh(j[0])
        return r.returncode, r.stdout

    with ThreadPoolExecutor(16) as ex:
        res = list(ex.map(run, jobs))
    bad = [(j, r) for j, r in zip(jobs, res) if r[0] != 0]
    if bad:
        return None, "\n".join(" ".join(j[0][-3:]) + "\n" + r[1][-1500:] for j, r in bad[:5])
    exe = os.path.join(ctx.scratch, out)
    r = C.sh(["gcc", "-o", exe] + [j[1] for j in jobs] + ["-ldl", "-pthread", "-lrt", "-lelf", "-ldw", "-lstdc++", "-no-pie"])
    if r.returncode != 0:
        return None, r.stdout[-3000:]
    ctx.notes.append("H1 (C11) built with flags from %s" % ("make -n" if from_make else "fallback list"))
    return exe, ""


def run_script(ctx, exe, lines, idx):
    r = h1.run(ctx, exe, {}, ["WATCH %d" % WATCH] + lines, idx)
    models = [l[6:] for l in r["lines"] if l.startswith("MODEL ")]
    impls = [l[5:] for l in r["lines"] if l.startswith("IMPL ")]
    return models, impls, r


def run_model(lines, tries=30):
    """C.run_model, waiting while another builder relinks the shared uvmodel executable"""
    import time
    for k in range(tries):
        try:
            return C.run_model("C11", lines)
        except (FileNotFoundError, PermissionError, OSError):
            if k == tries - 1:
                raise
            time.sleep(2)


def model_run(fix, scripts):
    """scripts: list of lists of MODEL lines -> list of lists of model outputs"""
    lines = []
    for s in scripts:
        lines += ["FIX " + " ".join("1" if fix[f] else "0" for f in FLAGS), "RESET", "WATCH %d" % WATCH] + s
    out = run_model(lines)
    res, pos = [], 0
    for s in scripts:
        res.append(out[pos + 3: pos + 3 + len(s)])
        pos += 3 + len(s)
    return res


# the scripts of the witness theorems (Props/C11.lean): one per flag that H1 can see
PROBES = {
    "rehook": ["CALL m 0 60 1000 61", "CALL p 100 50 1001 0", "TAIL m 1 50", "CALL m 2 40 1002 49", "THROW", "UNWIND",
               "CATCH 49", "RET 50"],
    "excFrame": ["CALL m 0 60 1000 61", "CALL m 1 50 1001 0", "THROW", "UNWIND", "CALL m 2 50 1002 0"],
    "pthExit": ["CALL m 0 60 1000 61", "CALL m 1 50 1001 59", "PEXIT 106 45 1002", "CALL n 0 60 2000 0", "DTOR"],
    "excPlt": ["CALL m 0 60 1000 61", "CALL m 1 50 1001 59", "THROW", "UNWIND", "CALL p 100 50 1002 0",
               "CALL m 2 40 1003 59", "RET 40", "RET 50"],
}


class H1Gen:
    """random well-formed op sequences (WellFormedOp of Lemmas/NonLocal.lean) with the expected
    observable behaviour of an untraced program: where every return goes, how deep every call is."""

    def __init__(self, rng, nops, lj_ids=F_LONGJMP, sj_ids=F_SETJMP, nrng=None):
        self.rng = rng
        self.nops = nops
        self.lj_ids, self.sj_ids = tuple(lj_ids), tuple(sj_ids)
        # which NAME a setjmp/longjmp is bound by comes from its own generator: the shape of the histories
        # does not depend on how many names there are
        self.nrng = nrng or rng
        self.lines = []
        self.expect = []      # per line: dict(last=..., depth_of_new_entries=[...]) for the monitor
        self.frames = []      # dicts: slot, orig, links (number of hooked logical calls on it), id, ver
        self.orig = 1000
        self.fid = 0
        self.jbs = {}         # j -> (snapshot of (id, ver) list, sslot, sorig)
        self.calls = []       # true depth of every hooked logical call, in call order
        self.phase = "run"    # run | exc
        self.dead_slots = []
        self.features = set()
        self.ended = False

    def mixed_chain(self):
        """a live frame whose tail-call chain mixes PLT and mcount entries: mcount_rstack_rehook decides its hook"""
        return any(len(set(f["kinds"])) > 1 for f in self.frames)

    def top_slot(self):
        return self.frames[-1]["slot"] if self.frames else 63

    def depth(self):
        return sum(f["links"] for f in self.frames)

    def new_orig(self):
        self.orig += 1
        return self.orig

    def emit(self, line, **exp):
        self.lines.append(line)
        self.expect.append(exp)

    def call(self, k=None, slot=None, fpw=None):
        rng = self.rng
        if k is None:
            k = rng.choice("nmmmp")
        top = self.top_slot()
        if slot is None:
            slot = top - rng.randint(2, 4)
        if slot < 4:
            return False
        child = rng.randrange(8) if k != "p" else rng.choice(F_PLAIN)
        if fpw is None:
            fpw = (top - 1) if (k != "m" or rng.random() < 0.7) else 0
            if not self.frames:
                fpw = 0 if rng.random() < 0.3 else slot + 1
        orig = self.new_orig()
        d = self.depth()
        self.fid += 1
        self.frames.append({"slot": slot, "orig": orig, "links": 0 if k == "n" else 1, "id": self.fid, "ver": 0,
                            "kinds": [] if k == "n" else [k]})
        if k != "n":
            self.calls.append(d)
        self.emit("CALL %s %d %d %d %d" % (k, child, slot, orig, fpw), pushed=(d if k != "n" else None))
        return True

    def ret(self):
        f = self.frames.pop()
        self.emit("RET %d" % f["slot"], last=f["orig"])

    def tail(self):
        f = self.frames[-1]
        k = self.rng.choice("mmp")
        child = self.rng.randrange(8) if k == "m" else self.rng.choice(F_PLAIN)
        d = self.depth()
        f["links"] += 1
        f["ver"] += 1
        f["kinds"] = f["kinds"] + [k]
        self.calls.append(d)
        self.emit("TAIL %s %d %d" % (k, child, f["slot"]), pushed=d)

    def setjmp(self):
        slot = self.top_slot() - self.rng.randint(2, 4)
        if slot < 4:
            return False
        j = self.rng.randrange(4)
        orig = self.new_orig()
        self.jbs[j] = ([(f["id"], f["ver"]) for f in self.frames], slot, orig, [dict(f) for f in self.frames])
        d = self.depth()
        self.calls.append(d)
        self.rng.choice((0, 1))     # (the draw that used to pick one of two names: the histories stay what they were)
        self.emit("SETJMP %d %d %d %d" % (j, self.nrng.choice(self.sj_ids), slot, orig), last=orig, pushed=d)
        return True

    def live_jbs(self):
        cur = [(f["id"], f["ver"]) for f in self.frames]
        res = []
        for j, (snap, sslot, sorig, frames) in self.jbs.items():
            if len(snap) <= len(cur) and cur[:len(snap)] == snap:
                res.append(j)
        return res

    def longjmp(self, j):
        slot = self.top_slot() - self.rng.randint(2, 4)
        if slot < 4:
            return False
        snap, sslot, sorig, frames = self.jbs[j]
        orig = self.new_orig()
        d = self.depth()
        self.calls.append(d)
        self.frames = [dict(f) for f in frames]
        self.rng.choice((0, 1))
        # marked: the jump's own ENTRY record and those of all callers must be in the trace before the jump
        # discards them ("the trace ... marks the jump")
        self.emit("LONGJMP %d %d %d %d" % (j, self.nrng.choice(self.lj_ids), slot, orig), last=sorig, pushed=d,
                  marked=len(self.calls))
        return True

    def vfork(self):
        slot = self.top_slot() - self.rng.randint(2, 4)
        if slot < 4:
            return False
        orig = self.new_orig()
        eorig = self.new_orig()
        d = self.depth()
        self.calls.append(d)
        self.calls.append(d)
        self.emit("VFORK %d %d %d %d %d" % (F_VFORK, slot, orig, F_EXECL, eorig), last=orig, pushed=d)
        return True

    def exception(self):
        """throw, unwind 1..n frames with landing-pad activity, catch"""
        rng = self.rng
        self.emit("THROW", allorig=True)
        while True:
            if not self.frames:
                return       # std::terminate: the script ends here
            f = self.frames.pop()
            self.dead_slots.append(f["slot"])
            self.emit("UNWIND")
            if not self.frames:
                return
            pad = self.frames[-1]
            r = rng.random()
            if r < 0.35:
                # a cleanup landing pad: calls (destructors), then _Unwind_Resume
                ncalls = rng.randint(0, 2)
                for _ in range(ncalls):
                    # the callee's return slot is where the dead callee's was, or a bit below the pad's frame
                    hi = pad["slot"] - 2
                    lo = max(self.dead_slots) if self.dead_slots else hi
                    slot = rng.choice([lo, lo, min(hi, lo + 1)]) if lo <= hi else hi
                    k = rng.choice("nmmp")
                    if k == "m":
                        fpw = rng.choice([pad["slot"] - 1, 0])
                        if fpw == 0:
                            self.features.add("excFrame")
                    else:
                        fpw = 0
                    if k == "p":
                        self.features.add("excPlt")
                    if k != "n" and self.mixed_chain():
                        self.features.add("rehook")
                    if slot >= 4 and self.call(k=k, slot=slot, fpw=fpw):
                        if k != "n":
                            self.dead_slots = []
                        # the callee may call further down, then everything returns
                        n = rng.randint(0, 2) if k != "n" else 0
                        for _ in range(n):
                            if not self.call():
                                n -= 1
                        for _ in range(n):
                            self.ret()
                        self.ret()
                self.emit("RESUME", allorig=True)
                continue
            if r < 0.75 or len(self.frames) == 1:
                # caught here: __cxa_begin_catch with the catching function's frame pointer
                fa = pad["slot"] - 1
                self.emit("CATCH %d" % fa)
                self.dead_slots = []
                if self.mixed_chain():
                    self.features.add("rehook")
                return
            # this frame has no handler: keep unwinding

    def generate(self):
        rng = self.rng
        self.call(k="m", slot=62, fpw=0)
        while len(self.lines) < self.nops and not self.ended:
            r = rng.random()
            dep = len(self.frames)
            if r < 0.30:
                if not self.call():
                    self.ret() if self.frames else None
            elif r < 0.52:
                if self.frames:
                    self.ret()
                else:
                    self.call(k="m", slot=62, fpw=0)
            elif r < 0.58:
                if self.frames:
                    self.tail()
                    if len(self.frames) >= 1:
                        self.features.add("tail")
            elif r < 0.68:
                self.setjmp()
            elif r < 0.78:
                lj = self.live_jbs()
                if lj:
                    self.longjmp(rng.choice(lj))
            elif r < 0.88:
                if dep >= 2:
                    self.exception()
                    if not self.frames:
                        self.ended = True
            elif r < 0.92:
                self.vfork()
            else:
                pass
        if self.ended:
            return
        # the end: unwind everything normally, or one of the terminal ops
        r = rng.random()
        if r < 0.2 and self.frames:
            slot = self.top_slot() - 3
            if slot >= 4:
                self.calls.append(self.depth())
                self.emit("PEXIT %d %d %d" % (F_PEXIT, slot, self.new_orig()))
                self.features.add("pthExit")
                # the thread dies: start_thread's callees reuse the stack, then the destructor runs
                base = self.frames[0]["slot"]
                self.frames = []
                o = self.new_orig()
                self.emit("CALL n 0 %d %d 0" % (base, o))
                self.emit("DTOR", slotval=(base, o))
                return
        if r < 0.3 and self.frames:
            slot = self.top_slot() - 3
            if slot >= 4:
                self.calls.append(self.depth())
                self.emit("EXIT %d %d %d" % (F_EXIT, slot, self.new_orig()))
                return
        while self.frames:
            self.ret()


def h1_monitor(gen, impls):
    """the property on the implementation's output: every return/jump lands where the untraced program
    would, the unwinder sees original addresses, every ENTRY record carries the true depth"""
    bad = []
    recs = []
    for i, (line, exp) in enumerate(zip(gen.lines, gen.expect)):
        if i >= len(impls):
            bad.append("op %d (%s): libmcount died" % (i, line))
            break
        kv = dict(x.split("=", 1) for x in impls[i].split() if "=" in x)
        if "last" in exp and kv.get("last") != str(exp["last"]):
            bad.append("op %d (%s): control went to %s, the untraced program goes to %s" % (i, line, kv.get("last"),
                                                                                      exp["last"]))
        if exp.get("allorig"):
            mem = kv.get("mem", "").split(",")
            for f in gen_frames_at(gen, i):
                if mem[f[0] - 1] != str(f[1]):
                    bad.append("op %d (%s): the unwinder would read %s in slot %d instead of %d" % (
                        i, line, mem[f[0] - 1], f[0], f[1]))
        if "slotval" in exp:
            mem = kv.get("mem", "").split(",")
            s, v = exp["slotval"]
            if mem[s - 1] != str(v):
                bad.append("op %d (%s): live return slot %d overwritten with %s (was %d)" % (i, line, s, mem[s - 1], v))
        if kv.get("recs", "-") != "-":
            recs += kv["recs"].split(",")
        if "marked" in exp:
            ne = sum(1 for r in recs if r[0] == "E")
            if ne != exp["marked"]:
                bad.append("op %d (%s): %d hooked calls were made up to and including this jump but only %d ENTRY records "
                           "are written when it discards the callers: the jump / the abandoned calls are not in the trace" % (
                               i, line, exp["marked"], ne))
    # ENTRY records in call order carry the true depth
    entries = [r for r in recs if r[0] == "E"]
    for n, r in enumerate(entries):
        if n >= len(gen.calls):
            bad.append("more ENTRY records than hooked calls")
            break
        d = int(r.split(".")[1])
        if d != gen.calls[n]:
            bad.append("ENTRY record %d (%s) has depth %d, the call was made at depth %d" % (n, r, d, gen.calls[n]))
            break
    return bad


def gen_frames_at(gen, i):
    return gen.frames_log.get(i, [])


# ============================================================================ H5
E2E_OPS = ("OP_CALL OP_RET OP_LEAF OP_SPIN OP_SETJMP OP_SIGSETJMP OP_LONGJMP OP_SIGLONGJMP OP_TAIL OP_VFORK OP_FORK "
           "OP_THREAD OP_PEXIT OP_EXIT OP_LIBTAIL OP_TRYCALL OP_DTORCALL OP_RETHROWCALL OP_THROW OP_LIBDTORCALL "
           "OP_LIBCBCATCH OP_STATICTHROW").split()
NAME_ID = {"leaf": 20, "spin": 21, "do_vfork": 22, "cb_plain": 23, "cb_void": 23, "Obj::Obj": 24,
           "ThrowingInit::ThrowingInit": 24, "Obj::~Obj": 25, "cb_catch": 26, "static_init_throws": 27}
for _i in range(6):
    NAME_ID["f%d" % _i] = _i
for _i in range(3):
    NAME_ID["t%d" % _i] = 10 + _i
FLAVOURS = {"pg": ["-pg"], "cyg": ["-finstrument-functions"], "fentry": ["-pg", "-mfentry"]}


class E2EGen:
    """random scripts for harness/c11_e2e.c; simulates the interpreter to keep the script well defined"""

    def __init__(self, rng, cpp, nops, allow=("thread", "fork", "vfork", "exit", "lib"), calm=False, plain_exc=False,
                 latest_only=False):
        self.rng = rng
        self.cpp = cpp
        # plain_exc: exceptions (try / rethrow / throw) only: no setjmp/longjmp, no objects whose destructors run in
        # landing pads, no static initialisers (programs recorded with a -N filter)
        self.plain_exc = plain_exc
        # latest_only: longjmp only to the jmp_buf armed last (replay's open finding C11-LONGJMP-DEPTH stays out)
        self.latest_only = latest_only
        # calm: no exceptions and no setjmp/longjmp (programs interrupted by an asynchronous signal: a signal
        # inside the unwinder or between longjmp's entry and exit hooks is outside the model and not deterministic)
        self.calm = calm
        self.nops = nops
        self.allow = set(allow)
        self.ops = []
        self.features = set()
        self.arm_clock = 0

    def op(self, kind, a=0, b=0):
        self.ops.append((kind, a, b))

    def pick_f(self):
        return self.rng.randrange(6)

    def pick_any(self, stack):
        # t-functions only from t- or f-functions; both fine
        return self.rng.choice([0, 1, 2, 3, 4, 5, 10, 11, 12])

    def segment(self, budget, bufs, root_depth, in_thread=False, simple=False, may_exit=False):
        """ops executed by one thread of control starting in a fresh f-function at `root_depth`; returns when
        the root returned (or the thread/process ended).  The stack holds dicts: fn, via, armed(bufs)"""
        rng = self.rng
        stack = [{"fn": 0, "via": "root", "armed": set(), "t": False}]
        armed = {}     # buf -> (stack height, armed order)
        order = [0]
        n0 = len(self.ops)

        def pop_frame():
            f = stack.pop()
            for b in list(armed):
                if armed[b][0] > len(stack):
                    del armed[b]
            return f

        def do_return():
            """the top function returns; tail callers return with it; cb_catch returns with its callee"""
            f = pop_frame()
            while stack and f["via"] in ("tail", "trycb"):
                f = pop_frame()
            return not stack

        def can_throw():
            # nearest handler: a frame entered via try (catch(int)) - rethrow frames pass it on
            for f in reversed(stack):
                if f["via"] in ("try", "trycb"):
                    return True
            return False

        def do_throw():
            self.op("OP_THROW", rng.randint(1, 50))
            while stack:
                f = stack[-1]
                if f["via"] in ("dtor", "libdtor"):
                    self.features.add("excdtor")
                    if f["via"] == "libdtor":
                        self.features.add("excPlt")
                if f["via"] == "try":
                    pop_frame()
                    return
                if f["via"] == "trycb":
                    pop_frame()     # the callee
                    pop_frame()     # cb_catch itself returns at once
                    self.features.add("rehook")
                    return
                pop_frame()

        while True:
            top = stack[-1]
            left = budget - (len(self.ops) - n0)
            depth = root_depth + len(stack) - 1
            if left <= 0:
                # wind down
                if top["t"]:
                    self.op("OP_RET", rng.randint(0, 9))
                else:
                    self.op("OP_RET", rng.randint(0, 9))
                if do_return():
                    return "returned"
                continue
            r = rng.random()
            if top["t"]:
                # tail-capable functions: call, leaf, ret, tail, throw
                if r < 0.25:
                    self.op("OP_LEAF")
                elif r < 0.45 and len(stack) < 12:
                    fn = rng.choice([0, 1, 2, 3, 4, 5, 10, 11, 12])
                    self.op("OP_CALL", fn)
                    stack.append({"fn": fn, "via": "call", "armed": set(), "t": fn >= 10})
                elif r < 0.65 and len(stack) < 12:
                    fn = rng.choice([10, 11, 12, 0, 1])
                    self.op("OP_TAIL", fn)
                    self.features.add("tail")
                    stack.append({"fn": fn, "via": "tail", "armed": set(), "t": fn >= 10})
                elif r < 0.72 and self.cpp and can_throw():
                    do_throw()
                else:
                    self.op("OP_RET", rng.randint(0, 9))
                    if do_return():
                        return "returned"
                continue
            if r < 0.14:
                self.op("OP_LEAF")
            elif r < 0.17:
                self.op("OP_SPIN", rng.randint(2000, 9000) if self.calm else rng.randint(20, 200))
            elif r < 0.40 and len(stack) < 12:
                fn = self.pick_any(stack)
                kinds = ["OP_CALL", "OP_CALL"]
                if self.cpp and not simple and self.calm:
                    kinds += ["OP_DTORCALL"]
                if self.cpp and not simple and not self.calm and self.plain_exc:
                    kinds += ["OP_TRYCALL", "OP_TRYCALL", "OP_TRYCALL", "OP_RETHROWCALL"]
                elif self.cpp and not simple and not self.calm:
                    kinds += ["OP_TRYCALL", "OP_TRYCALL", "OP_DTORCALL", "OP_RETHROWCALL"]
                    if "lib" in self.allow:
                        kinds += ["OP_LIBDTORCALL"]
                k = rng.choice(kinds)
                self.op(k, fn)
                via = {"OP_CALL": "call", "OP_TRYCALL": "try", "OP_DTORCALL": "dtor", "OP_RETHROWCALL": "rethrow",
                       "OP_LIBDTORCALL": "libdtor"}[k]
                stack.append({"fn": fn, "via": via, "armed": set(), "t": fn >= 10})
            elif r < 0.46 and len(stack) < 12:
                fn = self.pick_any(stack)
                self.op("OP_TAIL", fn)
                stack.append({"fn": fn, "via": "tail", "armed": set(), "t": fn >= 10})
            elif r < 0.56 and not simple and not self.calm and not self.plain_exc:
                b = rng.choice(bufs)
                sig = rng.random() < 0.3
                self.op("OP_SIGSETJMP" if sig else "OP_SETJMP", b)
                self.arm_clock += 1
                armed[(b, sig)] = (len(stack), self.arm_clock)
            elif r < 0.66 and armed and not simple:
                key = rng.choice(sorted(armed))
                height, _ = armed[key]
                # C++: never jump over frames that own objects or handlers
                crossed = stack[height:]
                if self.cpp and any(f["via"] in ("dtor", "libdtor", "try", "rethrow", "trycb", "cbframe") for f in crossed):
                    continue
                if armed[key][1] != self.arm_clock:
                    # not the setjmp that replay saw last
                    if self.latest_only:
                        continue
                    self.features.add("replay")
                self.features.add("longjmp")
                self.op("OP_SIGLONGJMP" if key[1] else "OP_LONGJMP", key[0])
                del stack[height:]
                for b in list(armed):
                    if armed[b][0] > len(stack):
                        del armed[b]
            elif r < 0.72 and self.cpp and can_throw() and not simple:
                do_throw()
            elif r < 0.75 and self.cpp and not simple and not self.calm and "lib" in self.allow and len(stack) < 10:
                # library tail-calls cb_catch, which calls a function that throws at once or returns
                fn = self.pick_f()
                self.features.add("libtail")
                self.op("OP_LIBCBCATCH")
                self.op("OP_CALL", fn)
                stack.append({"fn": 26, "via": "cbframe", "armed": set(), "t": False})
                stack.append({"fn": fn, "via": "trycb", "armed": set(), "t": False})
            elif r < 0.78 and self.cpp and not simple and not self.calm and not self.plain_exc:
                self.op("OP_STATICTHROW")
                self.features.add("excPlt")
            elif r < 0.81 and "lib" in self.allow:
                self.op("OP_LIBTAIL")
                self.features.add("libtail")
            elif r < 0.84 and "vfork" in self.allow and not simple:
                self.op("OP_VFORK", rng.randint(0, 1))
            elif r < 0.87 and "fork" in self.allow and not simple and not in_thread:
                fn = self.pick_f()
                at = len(self.ops)
                self.op("OP_FORK", fn, 0)
                n1 = len(self.ops)
                self.segment(rng.randint(2, 8), [], depth + 1, simple=True)
                self.ops[at] = ("OP_FORK", fn, len(self.ops) - n1)
            elif r < 0.90 and "thread" in self.allow and not simple and not in_thread:
                fn = self.pick_f()
                self.op("OP_THREAD", fn)
                self.segment(rng.randint(3, 14), [2, 3], 1, in_thread=True)
            elif r < 0.93 and in_thread and not simple:
                self.op("OP_PEXIT", rng.randint(1, 9))
                self.features.add("pthExit")
                return "pexit"
            elif r < 0.94 and may_exit and "exit" in self.allow and len(stack) > 1:
                self.op("OP_EXIT", rng.randint(0, 9))
                return "exit"
            else:
                self.op("OP_RET", rng.randint(0, 9))
                if do_return():
                    return "returned"

    def generate(self):
        if self.calm:
            self.op("OP_SPIN", self.rng.randint(4000, 9000))
        self.segment(self.nops, [0, 1], 1, may_exit=True)
        # padding: anything read past the end would be a generator bug
        self.op("OP_EXIT", 42)
        return self.ops


def script_h(ops):
    body = ", ".join("{%s,%d,%d}" % o for o in ops)
    return ('#include "c11_e2e.h"\n#ifdef __cplusplus\nextern "C" {\n#endif\n'
            'const struct op script[] = { %s };\n#ifdef __cplusplus\n}\n#endif\n' % body)


def build_e2e_support(ctx):
    d = os.path.join(ctx.scratch, "e2e")
    os.makedirs(d, exist_ok=True)
    H = os.path.join(C.VERIF, "harness")
    r = C.sh(["g++", "-O2", "-fPIC", "-shared", "-I", H, "-o", os.path.join(d, "libc11e2e.so"),
              os.path.join(H, "c11_e2e_lib.cc")])
    if r.returncode != 0:
        return None, r.stdout
    r = C.sh(["gcc", "-O2", "-c", "-I", H, os.path.join(H, "c11_e2e_gt.c"), "-o", os.path.join(d, "gt.o")])
    if r.returncode != 0:
        return None, r.stdout
    return d, ""


def build_prog(d, name, ops, cpp, flavour, opt):
    H = os.path.join(C.VERIF, "harness")
    pd = os.path.join(d, name)
    os.makedirs(pd, exist_ok=True)
    with open(os.path.join(pd, "script.h"), "w") as f:
        f.write(script_h(ops))
    exe = os.path.join(pd, "prog")
    cc = ["g++", "-x", "c++"] if cpp else ["gcc", "-x", "c"]
    cmd = cc + opt.split() + ["-g", "-w"] + FLAVOURS[flavour] + ["-I", H, "-include", os.path.join(pd, "script.h"),
                                                        os.path.join(H, "c11_e2e.c"), "-x", "none",
                                                        os.path.join(d, "gt.o"), "-L", d, "-lc11e2e",
                                                        "-Wl,-rpath," + d, "-lpthread", "-o", exe]
    r = C.sh(cmd)
    return (exe if r.returncode == 0 else None), r.stdout, pd


def parse_gt(text):
    """ground-truth log -> (entries per logical thread, tid map, the rest of the lines)"""
    ent, tids, rest = {}, {}, []
    pexit = {}
    for line in text.split("\n"):
        p = line.split()
        if not p:
            continue
        if p[0] == "N" and len(p) == 4 and p[2] == "pexit":
            pexit.setdefault(int(p[1]), len(ent.get(int(p[1]), [])))
            rest.append(line)
        elif p[0] == "T" and len(p) == 3:
            tids[int(p[2])] = int(p[1])
        elif p[0] == "E" and len(p) == 4:
            ent.setdefault(int(p[1]), []).append((int(p[2]), int(p[3])))
            rest.append(line)
        else:
            rest.append(line)
    for idx, n in pexit.items():
        # nothing is claimed about the depth of what runs while the thread is being torn down
        ent[idx] = ent.get(idx, [])[:n]
    return ent, tids, rest


def bound_jump_symbols(exe):
    """the setjmp/longjmp entry points the program really binds (nm -D)"""
    r = C.sh(["nm", "-D", "--undefined-only", exe])
    return sorted(set(re.sub(r"@.*", "", l.split()[-1]) for l in r.stdout.split("\n") if l.split() and "jmp" in l.split()[-1]))


def run_e2e_case(ctx, d, uftrace_src, name, ops, cpp, flavour, opt, alarm=False, record_opts=(), behaviour_only=False,
                 expect=None):
    """build, run natively and traced, compare.  Returns dict(problems=[...], info).
    expect: the documented selection of the record-time filter in record_opts, as a function on one thread's
    ground-truth entries [(fn, depth)] -> [(fn, shown depth)]"""
    res = {"name": name, "flavour": flavour, "opt": opt, "cpp": cpp, "problems": [], "nops": len(ops), "alarm": alarm}
    exe, log, pd = build_prog(d, name, ops, cpp, flavour, opt)
    if not exe:
        res["problems"].append("build failed: " + log[-400:])
        res["build_failed"] = True
        return res
    res["binds"] = bound_jump_symbols(exe)
    args = ["alarm"] if alarm else []
    try:
        p = subprocess.run([exe] + args, stdout=subprocess.PIPE, stderr=subprocess.PIPE, timeout=60, cwd=pd)
        nrc, nout = p.returncode, p.stdout.decode("utf-8", "replace")
    except subprocess.TimeoutExpired:
        res["problems"].append("native run timed out (generator bug)")
        res["build_failed"] = True
        return res
    dd = os.path.join(pd, "data")
    cmd = ["timeout", "-s", "KILL", "60", os.path.join(uftrace_src, "uftrace"), "record",
           "--libmcount-path=" + os.path.join(uftrace_src, "libmcount"), "--no-event", "--no-pager", "-d", dd] + \
        list(record_opts) + [exe] + args
    p = subprocess.run(cmd, stdout=subprocess.PIPE, stderr=subprocess.PIPE, cwd=pd)   # gmon.out goes there
    tout, terr = p.stdout.decode("utf-8", "replace"), p.stderr.decode("utf-8", "replace")
    ma = re.search(r"^ALARMS (\d+)", terr, re.M)
    res["alarms"] = int(ma.group(1)) if ma else 0
    n_ent, n_tids, n_rest = parse_gt(nout)
    t_ent, t_tids, t_rest = parse_gt(tout)
    res["native_rc"] = nrc
    res["entries"] = sum(len(v) for v in n_ent.values())
    if n_rest != t_rest:
        k = next((i for i in range(min(len(n_rest), len(t_rest))) if n_rest[i] != t_rest[i]), min(len(n_rest), len(t_rest)))
        res["problems"].append("output differs from the native run at line %d: native %r, traced %r; stderr: %s" % (
            k, n_rest[k] if k < len(n_rest) else None, t_rest[k] if k < len(t_rest) else None, terr.strip()[-300:]))
    # uftrace record exits 1 for any non-zero tracee status
    trc = p.returncode
    if (nrc == 0) != (trc == 0):
        res["problems"].append("exit status: native %d, uftrace record %d; stderr: %s" % (nrc, trc, terr.strip()[-300:]))
    if res["problems"] or behaviour_only:
        return res
    # replay: every traced call at its ground-truth depth
    rc, out, err = datadir.run_uftrace(os.path.join(uftrace_src, "uftrace"), "replay", dd, timeout=60)
    if rc != 0:
        res["problems"].append("replay failed rc=%d %s" % (rc, err[-300:]))
        return res
    ev = datadir.parse_replay(out)
    shown = {}
    gone = set()
    for kind, tid, depth, nm, _ in ev:
        if kind in ("E", "L") and nm == "pthread_exit":
            gone.add(tid)
        if kind in ("E", "L") and nm in NAME_ID and tid in t_tids and tid not in gone:
            shown.setdefault(t_tids[tid], []).append((NAME_ID[nm], depth))
    for idx in sorted(t_ent):
        want, got = t_ent[idx], shown.get(idx, [])
        if expect is not None:
            want = expect(want)
        if want != got:
            k = next((i for i in range(min(len(want), len(got))) if want[i] != got[i]), min(len(want), len(got)))
            res["problems"].append("replay depth: thread %d call #%d: ground truth (fn,depth)=%s, replay shows %s" % (
                idx, k, want[k] if k < len(want) else None, got[k] if k < len(got) else None))
            break
    res["replay_calls"] = sum(len(v) for v in shown.values())
    # the record stream must be coherent, and the Lean replay model must agree with replay's indentation
    rc, out, err = datadir.run_uftrace(os.path.join(uftrace_src, "uftrace"), "dump", dd, timeout=60)
    if rc == 0:
        res["streams"] = parse_dump(out)
    return res


DUMP_LINE = re.compile(r"^\s*([\d.]+)\s+(\d+): \[(entry|exit )\] (.*)\(([0-9a-f]+)\) depth: (\d+)")


def parse_dump(text):
    streams = {}
    for line in text.split("\n"):
        m = DUMP_LINE.match(line)
        if not m:
            continue
        tid = int(m.group(2))
        typ = 0 if m.group(3) == "entry" else 1
        nm = m.group(4)
        kind = "s" if "setjmp" in nm else "l" if "longjmp" in nm else "p"
        streams.setdefault(tid, []).append((typ, int(m.group(6)), kind, nm))
    return streams


# ---- the fixed probes (one per finding that H5 can see) ----
def P(kind, a=0, b=0):
    return (kind, a, b)


def e2e_probes():
    pr = {}
    # longjmp to the older of two live jmp_bufs, then more calls
    pr["replay"] = dict(cpp=False, flavour="pg", opt="-O0", ops=[
        P("OP_SETJMP", 0), P("OP_LEAF"), P("OP_CALL", 1), P("OP_SETJMP", 1), P("OP_CALL", 2), P("OP_LEAF"),
        P("OP_LONGJMP", 0), P("OP_LEAF"), P("OP_CALL", 3), P("OP_LEAF"), P("OP_RET", 1), P("OP_LEAF"), P("OP_RET", 0)])
    # pthread_exit from a nested call, with an object in a frame (C++)
    pr["pthExit"] = dict(cpp=True, flavour="pg", opt="-O0", ops=[
        P("OP_THREAD", 1), P("OP_LEAF"), P("OP_DTORCALL", 2), P("OP_LEAF"), P("OP_CALL", 3), P("OP_PEXIT", 7),
        P("OP_LEAF"), P("OP_RET", 0)])
    # a library function tail-calls a traced callback that catches and returns at once
    pr["rehook"] = dict(cpp=True, flavour="pg", opt="-O0", ops=[
        P("OP_LEAF"), P("OP_LIBCBCATCH"), P("OP_CALL", 1), P("OP_LEAF"), P("OP_THROW", 5), P("OP_LEAF"), P("OP_RET", 0)])
    # exception out of a static initialiser; library destructor calling back from a landing pad
    pr["excPlt"] = dict(cpp=True, flavour="pg", opt="-O0", ops=[
        P("OP_LEAF"), P("OP_STATICTHROW"), P("OP_LEAF"), P("OP_TRYCALL", 1), P("OP_LIBDTORCALL", 2), P("OP_LEAF"),
        P("OP_THROW", 9), P("OP_LEAF"), P("OP_RET", 0)])
    # destructor called from a landing pad with -mfentry
    pr["excFrame"] = dict(cpp=True, flavour="fentry", opt="-O0", ops=[
        P("OP_TRYCALL", 1), P("OP_DTORCALL", 2), P("OP_LEAF"), P("OP_THROW", 3), P("OP_LEAF"), P("OP_RET", 0)])
    # setjmp below more than 1024 open calls with --max-stack 2000
    deep = [P("OP_CALL", 1 + (i % 5)) for i in range(1040)] + [P("OP_SETJMP", 0), P("OP_LEAF"), P("OP_CALL", 2),
                                                               P("OP_LONGJMP", 0), P("OP_LEAF")] + \
        [P("OP_RET", 0) for _ in range(1041)]
    pr["jmpCap"] = dict(cpp=False, flavour="pg", opt="-O0", ops=deep, record_opts=["--max-stack", "2000", "-D", "2000"])
    # -finstrument-functions: a callback tail-called by a library function makes a library call
    pr["cygTail"] = dict(cpp=False, flavour="cyg", opt="-O0", ops=[
        P("OP_LEAF"), P("OP_LIBTAIL"), P("OP_LEAF"), P("OP_CALL", 1), P("OP_LEAF"), P("OP_RET", 1), P("OP_RET", 0)])
    # the BSD entry points: `longjmp` compiled as a call of _longjmp (setjmp() is _setjmp() already)
    pr["ljAlias"] = dict(cpp=False, flavour="pg", opt="-O0 -Dlongjmp=_longjmp", ops=[
        P("OP_LEAF"), P("OP_SETJMP", 0), P("OP_LEAF"), P("OP_CALL", 1), P("OP_CALL", 2), P("OP_LEAF"), P("OP_LONGJMP", 0),
        P("OP_LEAF"), P("OP_CALL", 3), P("OP_LEAF"), P("OP_RET", 1), P("OP_LEAF"), P("OP_RET", 0)], binds="_longjmp")
    for v in pr.values():
        v["ops"] = v["ops"] + [P("OP_EXIT", 42)]
    return pr


FORTIFY = "-O2 -U_FORTIFY_SOURCE -D_FORTIFY_SOURCE=2"


def e2e_directed():
    """fixed programs that are not tied to a finding: (name, ops, cpp, flavour, opt, record_opts, features, -N function)"""
    out = []
    # longjmp()/siglongjmp() of a fortified build are __longjmp_chk(); the jump goes to the jmp_buf armed last
    out.append(("fortify-c", [P("OP_LEAF"), P("OP_SETJMP", 0), P("OP_LEAF"), P("OP_CALL", 1), P("OP_CALL", 2), P("OP_LEAF"),
                              P("OP_LONGJMP", 0), P("OP_LEAF"), P("OP_CALL", 3), P("OP_LEAF"), P("OP_RET", 1), P("OP_LEAF"),
                              P("OP_RET", 0)], False, "pg", FORTIFY, (), {"fortify"}, None))
    out.append(("fortify-sig", [P("OP_SIGSETJMP", 1), P("OP_CALL", 2), P("OP_CALL", 4), P("OP_LEAF"), P("OP_SIGLONGJMP", 1),
                                P("OP_LEAF"), P("OP_CALL", 3), P("OP_LEAF"), P("OP_RET", 0), P("OP_RET", 0)],
                True, "fentry", FORTIFY, (), {"fortify"}, None))
    # an exception passes through the function given to -N and is caught further up; then more calls
    out.append(("nfilter-exc", [P("OP_TRYCALL", 1), P("OP_CALL", 3), P("OP_LEAF"), P("OP_CALL", 2), P("OP_LEAF"), P("OP_THROW", 5),
                                P("OP_LEAF"), P("OP_CALL", 4), P("OP_LEAF"), P("OP_RET", 1), P("OP_LEAF"), P("OP_RET", 0)],
                True, "pg", "-O0", ("-N", "^f3$"), {"nfilter"}, 3))
    out.append(("nfilter-rethrow", [P("OP_TRYCALL", 2), P("OP_RETHROWCALL", 5), P("OP_CALL", 1), P("OP_LEAF"), P("OP_THROW", 9),
                                    P("OP_LEAF"), P("OP_CALL", 3), P("OP_LEAF"), P("OP_RET", 2), P("OP_RET", 0)],
                True, "fentry", "-O2", ("-N", "^f5$"), {"nfilter"}, 5))
    return [(n, ops + [P("OP_EXIT", 42)], cpp, fl, opt, ro, ft, nf) for n, ops, cpp, fl, opt, ro, ft, nf in out]


# ============================================================================ run
def report_finding(ctx, findings, fid, replay_obj, name):
    if fid in findings:
        C.known(ctx, findings[fid], "%s %s" % (fid, WHAT[fid]))
    elif fid in PROPOSED_FIX and finding_status(fid) is None:
        # a genuine defect of /repo found by this check that the coordinator has not recorded yet
        msg = "PENDING-FINDING: property=%s %s %s [not yet recorded in known_findings.json; proposed fix %s]" % (
            ctx.prop, fid, WHAT[fid], PROPOSED_FIX[fid])
        ctx.notes.append(msg)
        ctx.coverage.setdefault("pending_findings", []).append(dict(replay_obj, id=fid, what=WHAT[fid],
                                                                    proposed_fix=PROPOSED_FIX[fid]))
        print(msg)
    else:
        obj = dict(replay_obj)
        obj.update({"kind": "property-violated-on-implementation", "finding": fid, "what": WHAT[fid]})
        C.violation(ctx, name, obj)


# main: _setjmp(A); f1: f2: _longjmp(A); main: f3 — the BSD entry points (child ids 114 / 117)
ALIAS_PROBE = ["CALL m 0 60 1000 61", "SETJMP 0 114 55 1001", "CALL m 1 50 1002 59", "CALL m 2 44 1003 49",
               "LONGJMP 0 117 40 1004", "CALL m 3 50 1005 59", "RET 50", "RET 60"]


def directed_name_scripts(lj_ids):
    """one short history per (setjmp name, longjmp name): arm, two nested calls, jump, one more call"""
    gens = []
    r = random.Random(20260930)
    inv_s = {v: k for k, v in SETJMP_NAMES.items()}
    inv_l = {v: k for k, v in LONGJMP_NAMES.items()}
    for sid in F_SETJMP:
        for lid in lj_ids:
            g = H1Gen(r, 0, lj_ids=(lid,), sj_ids=(sid,))
            g.frames_log = {}
            patch_frames_log(g)
            g.call(k="m", slot=62, fpw=0)
            g.setjmp()
            g.call(k="m")
            g.call(k="m")
            g.longjmp(g.live_jbs()[0])
            g.call(k="m")
            g.ret()
            g.ret()
            g.tag = "%s/%s" % (inv_s[sid], inv_l[lid])
            g.features.add("names")
            gens.append(g)
    # the same jmp_buf armed a second time at the same depth by another function, then the jump: the callers saved
    # with the jmp_buf must be those of the second setjmp
    for lid in lj_ids[:2]:
        g = H1Gen(r, 0, lj_ids=(lid,), sj_ids=(F_SETJMP[0],))
        g.frames_log = {}
        patch_frames_log(g)
        g.rng = type("Fixed", (), {"randrange": lambda self, n: 0, "randint": lambda self, a, b: a, "random": lambda self: 0.5,
                                   "choice": lambda self, xs: xs[0]})()
        g.call(k="m", slot=62, fpw=0)
        g.call(k="m")
        g.setjmp()
        g.ret()
        g.call(k="m")
        g.setjmp()
        g.call(k="m")
        g.longjmp(g.live_jbs()[0])
        g.call(k="m")
        g.ret()
        g.ret()
        g.ret()
        g.tag = "rearm/%s" % inv_l[lid]
        g.features.add("names")
        gens.append(g)
    return gens


def broken_theorems(problems):
    """names of the declarations of Props/C11.lean that the errors of a failed build point into"""
    try:
        src = open(os.path.join(C.LEAN, "Uft", "Props", "C11.lean")).read().split("\n")
    except OSError:
        return []
    names = []
    for pr in problems:
        m = re.search(r"Uft/Props/C11\.lean:(\d+):", pr)
        if not m:
            continue
        k = min(int(m.group(1)), len(src)) - 1
        while k >= 0 and not re.match(r"(theorem|example|def|lemma)\b", src[k]):
            k -= 1
        if k >= 0:
            mm = re.match(r"(theorem|def|lemma)\s+(\S+)", src[k])
            nm = mm.group(2) if mm else "example at line %d" % (k + 1)
            if nm not in names:
                names.append(nm)
    return names


def finding_status(fid):
    try:
        kf = json.load(open(os.path.join(C.VERIF, "known_findings.json")))
    except (OSError, ValueError):
        return None
    for f in kf.get("findings", []):
        if f.get("id") == fid:
            return f.get("status")
    return None


def run(ctx):
    ctx.snapshot()
    findings = {f["id"]: f for f in C.known_findings("C11")}
    quick = ctx.tier == "quick"
    proof_problems = []
    tabinfo = None
    try:
        changed, tabinfo = c11_plttables.main(ctx.src, ctx.scratch)
        ctx.notes.append("Gen/PltTables.lean regenerated from libmcount/plthook.c, wrap.c, internal.h, utils/fstack.c "
                         "(changed=%s)" % changed)
    except Exception as e:
        proof_problems.append("translator c11_plttables failed: %s" % e)

    # ---------------------------------------------------------------- proofs and builds (in parallel)
    with ThreadPoolExecutor(3) as ex:
        fut_make = ex.submit(ctx.make)
        fut_prove = ex.submit(C.prove, ctx, "C11")
        exe, log = build_h1(ctx)
        made, mlog = fut_make.result()
        ok, problems = fut_prove.result()
    if not ok:
        # a broken proof obligation is not by itself a violation (DESIGN section 7): go on and search a failing input
        proof_problems += problems
        bok, blog = C.lake_build(["uv_C11", "uv_Mcount"])
        if not bok:
            C.violation(ctx, "proof", {"kind": "proof-obligation-broken", "problems": proof_problems,
                                       "note": "the model drivers do not build either: no search possible",
                                       "log": blog[-1500:]}, True)
            return C.finish(ctx)
    if not exe:
        C.violation(ctx, "build", {"kind": "harness-build-failed", "log": log[-3000:]}, True)
        return C.finish(ctx)
    if not made:
        C.violation(ctx, "build", {"kind": "uftrace-build-failed", "log": mlog[-3000:]}, True)
        return C.finish(ctx)

    # ---------------------------------------------------------------- H1: which variant is this tree?
    pnames = sorted(PROBES)
    with ThreadPoolExecutor(8) as ex:
        pres = list(ex.map(lambda a: run_script(ctx, exe, PROBES[a[1]], 9000 + a[0]), enumerate(pnames)))
    fix = {f: True for f in FLAGS}
    all_fixed = model_run({f: True for f in FLAGS}, [r[0] for r in pres])
    none_fixed = model_run({f: False for f in FLAGS}, [r[0] for r in pres])
    probe_state = {}
    for name, (models, impls, r), mf, mn in zip(pnames, pres, all_fixed, none_fixed):
        def agree(mo):
            for i, m in enumerate(mo):
                if m == "dead":
                    return len(impls) == i
                if i >= len(impls) or C.norm(impls[i]) != C.norm(m):
                    return False
            return len(impls) == len(mo)
        if models != [l for l in (norm_model_line(x) for x in PROBES[name])]:
            probe_state[name] = "harness"
        elif agree(mf):
            probe_state[name] = "fixed"
        elif agree(mn):
            probe_state[name] = "asis"
            fix[name] = False
        else:
            probe_state[name] = "neither"
    for name, st in probe_state.items():
        if st in ("neither", "harness"):
            i = pnames.index(name)
            C.violation(ctx, "h1-probe-" + name, {"kind": "model-code-disagreement", "probe": PROBES[name],
                                                  "impl": pres[i][1], "model_fixed": all_fixed[i],
                                                  "model_as_is": none_fixed[i], "stderr": pres[i][2]["stderr"][-500:],
                                                  "theorem": "c11_instep_invariant (correspondence)"}, True)

    # ---------------------------------------------------------------- H1: the jump entry points BY NAME
    # C11-LONGJMP-ALIAS: is `_longjmp` a longjmp for this libmcount?  (the model treats every LONGJMP op as one)
    am, ai, ar = run_script(ctx, exe, ALIAS_PROBE, 9100)
    amo = model_run(fix, [[norm_model_line(x) for x in ALIAS_PROBE]])[0]
    alias_ok = [C.norm(x) for x in ai] == [C.norm(x) for x in amo]
    probe_state["ljAlias"] = "fixed" if alias_ok else "asis"
    lj_ids = F_LONGJMP + ((LONGJMP_NAMES["_longjmp"],) if alias_ok else ())
    # what the regenerated tables say about the names (evidence; the search below does not depend on it)
    names_by_tables = {}
    if tabinfo:
        for nm in sorted(set(SETJMP_NAMES) | set(LONGJMP_NAMES) | {"vfork", "_Unwind_RaiseException", "exit", "execl", "fork"}):
            names_by_tables[nm] = c11_plttables.flags_of(tabinfo, nm)

    # ---------------------------------------------------------------- H1: random scripts
    nscripts = 60 if quick else 1500
    gens = directed_name_scripts(lj_ids)
    ndirected = len(gens)
    for i in range(nscripts):
        g = H1Gen(ctx.rng, ctx.rng.choice([12, 25, 40, 70]), lj_ids=lj_ids,
                  nrng=random.Random(ctx.seed * 7919 + 31 * i + 5))
        g.frames_log = {}
        patch_frames_log(g)
        g.generate()
        gens.append(g)
    with ThreadPoolExecutor(16) as ex:
        outs = list(ex.map(lambda a: run_script(ctx, exe, a[1].lines, a[0]), enumerate(gens)))
    mouts = model_run(fix, [[norm_model_line(l) for l in g.lines] for g in gens])
    disagree = 0
    monitor_fail = 0
    attributed = {}
    nops = 0
    opkinds = {}
    distinct = set()
    samples = []
    for i, (g, (models, impls, r), mo) in enumerate(zip(gens, outs, mouts)):
        nops += len(g.lines)
        for l in g.lines:
            opkinds[l.split()[0]] = opkinds.get(l.split()[0], 0) + 1
        distinct.add(tuple(l.split()[0] + (l.split()[1] if l.split()[0] in ("CALL", "TAIL") else "") for l in g.lines))
        bad = None
        if models != [norm_model_line(l) for l in g.lines][:len(models)] or len(models) not in (len(impls), len(impls) + 1):
            bad = "harness produced %d MODEL / %d IMPL lines for %d ops; stderr %s" % (len(models), len(impls), len(g.lines),
                                                                                     r["stderr"][-300:])
        else:
            for k, m in enumerate(mo):
                if m == "dead":
                    if len(impls) != k:
                        bad = "op %d (%s): model reaches pr_err/ASSERT, implementation continues" % (k, g.lines[k])
                    break
                if k >= len(impls):
                    bad = "op %d (%s): implementation died (%s), model continues: %s" % (k, g.lines[k],
                                                                                   r["stderr"].strip()[-200:], m)
                    break
                if C.norm(impls[k]) != C.norm(m):
                    bad = "op %d (%s): impl %s | model %s" % (k, g.lines[k], impls[k], m)
                    break
        mon = h1_monitor(g, impls)
        if len(samples) < 3 and i % 17 == 3:
            samples.append({"script": g.lines[:12], "impl": impls[:3], "model": mo[:3]})
        if bad:
            disagree += 1
            if disagree <= 3:
                C.violation(ctx, "h1-case%d" % i, {"kind": "model-code-disagreement", "what": bad, "script": g.lines,
                                                   "fix_flags": fix, "monitor": mon[:3],
                                                   "theorem": "c11_instep_invariant (correspondence)"},
                            no_failing_input=not mon)
        elif mon:
            monitor_fail += 1
            unf = [f for f in g.features if f in fix and not fix[f]]
            if unf:
                for f in unf:
                    attributed[f] = attributed.get(f, 0) + 1
            else:
                C.violation(ctx, "h1-monitor%d" % i, {"kind": "property-violated-on-implementation", "what": mon[:5],
                                                      "script": g.lines, "fix_flags": fix,
                                                      "theorem": "c11_every_return_reaches_caller / c11_trace_depth_after_jump"})

    # ---------------------------------------------------------------- H5
    d, log = build_e2e_support(ctx)
    if not d:
        C.violation(ctx, "build", {"kind": "e2e-support-build-failed", "log": log[-2000:]}, True)
        return C.finish(ctx)
    probes = e2e_probes()
    cases = []
    for name in sorted(probes):
        p = probes[name]
        cases.append(("probe-" + name, p["ops"], p["cpp"], p["flavour"], p["opt"], False, p.get("record_opts", ()), {name}))
    nprog = 14 if quick else 400
    flv = ["pg", "cyg", "fentry"]
    for i in range(nprog):
        cpp = ctx.rng.random() < 0.6
        alarm = (i % 5 == 4)
        g = E2EGen(ctx.rng, cpp, ctx.rng.choice([25, 50, 90]), calm=alarm)
        ops = g.generate()
        flavour = flv[i % 3]
        opt = "-O2" if (i // 3) % 2 else "-O0"
        feats = set(g.features)
        if "excdtor" in feats and flavour == "fentry":
            feats.add("excFrame")
        if "libtail" in feats and flavour == "cyg":
            feats.add("cygTail")
        cases.append(("prog%d" % i, ops, cpp, flavour, opt, alarm, (), feats))
    # --- builds that bind other entry points, and programs recorded with a -N filter (after the families above:
    # their generator draws stay what they were)
    from checks import c05 as c05chk

    def nexpect(fn):
        return lambda ent: c05chk.doc_filter_entries(ent, N={fn})
    for name, ops, cpp, flavour, opt, ro, feats, nf in e2e_directed():
        cases.append((name, ops, cpp, flavour, opt, False, ro, set(feats), nexpect(nf) if nf is not None else None))
    erng = random.Random(ctx.seed * 1000003 + 1111)
    for i in range(3 if quick else 60):
        cpp = erng.random() < 0.5
        g = E2EGen(erng, cpp, erng.choice([25, 50]), allow=("vfork", "exit"), latest_only=True)
        ops = g.generate()
        feats = set(g.features) | {"fortify"}
        flavour = flv[i % 3]
        if "excdtor" in feats and flavour == "fentry":
            feats.add("excFrame")
        cases.append(("fort%d" % i, ops, cpp, flavour, FORTIFY, False, (), feats))
    for i in range(4 if quick else 80):
        for _ in range(30):
            g = E2EGen(erng, True, erng.choice([30, 60]), allow=(), plain_exc=True)
            ops = g.generate()
            called = sorted(set(a for k, a, _ in ops if k in ("OP_CALL", "OP_TRYCALL", "OP_RETHROWCALL", "OP_TAIL") and a != 0))
            if len(called) >= 2 and any(k == "OP_THROW" for k, _, _ in ops):
                break
        nf = erng.choice(called) if called else 3
        nm = "f%d" % nf if nf < 10 else "t%d" % (nf - 10)
        cases.append(("nfilt%d" % i, ops, True, flv[i % 3], "-O2" if i % 2 else "-O0", False, ("-N", "^%s$" % nm),
                      set(g.features) | {"nfilter"}, nexpect(nf)))
    with ThreadPoolExecutor(12) as ex:
        eres = list(ex.map(lambda c: run_e2e_case(ctx, d, ctx.src, c[0], c[1], c[2], c[3], c[4], c[5], c[6],
                                                  behaviour_only=(c[0] == "probe-jmpCap"),
                                                  expect=(c[8] if len(c) > 8 else None)), cases))
    e2e_fix = {}
    e2e_bad = 0
    e2e_attr = {}
    calls_checked = 0
    streams = []
    for c, r in zip(cases, eres):
        name, feats = c[0], c[7]
        calls_checked += r.get("replay_calls", 0)
        for tid, st in (r.get("streams") or {}).items():
            streams.append((name, tid, st))
        if r.get("build_failed"):
            C.violation(ctx, "e2e-" + name, {"kind": "harness-failed", "what": r["problems"]}, True)
            continue
        if name.startswith("probe-"):
            e2e_fix[name[6:]] = not r["problems"]
            r["probe"] = True
            continue
        if r["problems"]:
            e2e_bad += 1
            r["features"] = sorted(feats)
    # did the special builds bind what they are meant to bind?
    fortified = [r for c, r in zip(cases, eres) if "fortify" in c[7] and not r.get("build_failed")]
    fort_bound = sum(1 for r in fortified if "__longjmp_chk" in r.get("binds", []))
    for c, r in zip(cases, eres):
        if c[0] in ("fortify-c", "fortify-sig") and not r.get("build_failed") and "__longjmp_chk" not in r.get("binds", []):
            ctx.notes.append("%s: the fortified build binds %s, not __longjmp_chk (toolchain without fortified setjmp.h?)" % (
                c[0], r.get("binds")))
        if c[0] == "probe-ljAlias" and not r.get("build_failed") and "_longjmp" not in r.get("binds", []):
            ctx.notes.append("probe-ljAlias: the build binds %s, not _longjmp" % r.get("binds"))
    # the probes decide which findings are present in this tree
    unfixed = set(f for f in FLAGS if not fix.get(f, True)) | set(f for f, okp in e2e_fix.items() if not okp)
    if not alias_ok:
        unfixed.add("ljAlias")
    if ("ljAlias" in e2e_fix) and e2e_fix["ljAlias"] != alias_ok:
        ctx.notes.append("probe ljAlias: H1 says %s, H5 probe %s" % ("repaired" if alias_ok else "as found",
                                                                     "passes" if e2e_fix["ljAlias"] else "fails"))
    for f in ("rehook", "excFrame", "pthExit", "excPlt"):
        if f in e2e_fix and f in probe_state and probe_state[f] in ("fixed", "asis"):
            if e2e_fix[f] != (probe_state[f] == "fixed") and f != "excFrame":
                ctx.notes.append("probe %s: H1 says %s, H5 probe %s" % (f, probe_state[f], "passes" if e2e_fix[f] else "fails"))
    for c, r in zip(cases, eres):
        name, feats = c[0], c[7]
        if r.get("probe") or not r["problems"] or r.get("build_failed"):
            continue
        expl = sorted(f for f in feats if f in unfixed)
        if expl:
            for f in expl:
                e2e_attr[f] = e2e_attr.get(f, 0) + 1
        else:
            C.violation(ctx, "e2e-" + name, {
                "kind": "property-violated-on-implementation", "what": r["problems"], "flavour": r["flavour"],
                "opt": r["opt"], "lang": "c++" if r["cpp"] else "c", "alarm": r["alarm"], "script": c[1],
                "how": "write the script as script.h (see checks/c11.py script_h), build harness/c11_e2e.c as "
                       "build_prog() does, run it natively and under uftrace record, compare",
                "theorem": "c11_every_return_reaches_caller / c11_trace_depth_after_jump"})
    # every as-coded variant is a violation of the property (or a known finding)
    for f in sorted(unfixed):
        fid = FINDING_OF[f]
        i = pnames.index(f) if f in pnames else None
        pr = probes.get(f)
        er = next((r for c, r in zip(cases, eres) if c[0] == "probe-" + f), None)
        report_finding(ctx, findings, fid, {
            "h1_script": PROBES.get(f) or (ALIAS_PROBE if f == "ljAlias" else None),
            "h1_impl": pres[i][1] if i is not None else (ai if f == "ljAlias" else None),
            "h1_model_repaired": all_fixed[i] if i is not None else (amo if f == "ljAlias" else None),
            "e2e_probe": {"script": pr["ops"][:40], "lang": "c++" if pr["cpp"] else "c", "flavour": pr["flavour"],
                          "record_opts": pr.get("record_opts")} if pr else None,
            "e2e_result": er["problems"] if er else None,
            "random_cases_attributed": {"h1": attributed.get(f, 0), "e2e": e2e_attr.get(f, 0)},
        }, "finding-" + f)

    # ---------------------------------------------------------------- replay model vs replay, coherence monitor
    rq = []
    for name, tid, st in streams:
        rq.append("REPLAY %d %s" % (0 if "replay" in unfixed else 1, " ".join("%d.%d.%s" % (t, dp, k) for t, dp, k, _ in st)))
    incoherent = 0
    if rq:
        ro = run_model(rq)
        for (name, tid, st), line in zip(streams, ro):
            coh = line.split()[0] == "coh=1"
            if not coh:
                incoherent += 1
                # streams of programs that hit a finding may be incoherent; others must not be
                c = next(c for c in cases if c[0] == name)
                if not (set(c[7]) & (unfixed | {"pthExit"})) and not c[5] and incoherent <= 2:
                    C.violation(ctx, "stream-" + name, {"kind": "property-violated-on-implementation",
                                                        "what": "record stream of task %d is not coherent" % tid,
                                                        "stream": ["%d.%d.%s %s" % x for x in st][:80],
                                                        "theorem": "c11_replay_depth_coherent (hypothesis)"})

    # ---------------------------------------------------------------- filters x non-local exits (hook model `Mcount`)
    fxst = c05chk.fx_family(ctx, exe, 60 if quick else 1500, report=False,
                            rng=random.Random(ctx.seed * 1000003 + 1105))
    for k, v in sorted(fxst["variant"].items()):
        if v is False:
            ctx.notes.append("%s (as found; reported by the check of C05): %d FX monitor failures attributed" % (
                c05chk.FX_FINDINGS[k][0], fxst["attributed"].get(k, 0)))

    # ---------------------------------------------------------------- a proof obligation broke: what did the search find?
    if proof_problems:
        concrete = [pth for pth, nfi in ctx.violations if not nfi]
        C.violation(ctx, "proof", {
            "kind": "proof-obligation-broken", "theorems": broken_theorems(proof_problems), "problems": proof_problems[:30],
            "tables_say": names_by_tables,
            "searched": "H1 by name: %d directed (setjmp name, longjmp name) histories + %d random ones; H5: %d programs, %d "
                        "fortified (%d bind __longjmp_chk), %d recorded with -N; FX: %d cases" % (
                            ndirected, nscripts, len(cases), len(fortified), fort_bound,
                            sum(1 for c in cases if "nfilter" in c[7]), fxst["cases"]),
            "failing_inputs_found": concrete[:6]}, no_failing_input=not concrete)

    ctx.coverage.update({
        "evaluations": nops + sum(r.get("entries", 0) for r in eres) + fxst["ops"],
        "distinct_nontrivial": len(distinct) + len(cases),
        "rule": "H1: random op sequences generated by a simulation of the real stack (WellFormedOp), each op compared "
                "with the model in full (returned address, 63 return slots, idx, record_idx, in_exception, new records) "
                "and checked by the monitors (return target, unwinder view, ENTRY depth); distinct = distinct op-kind "
                "sequences.  H5: generated interpreter scripts, native vs traced stdout/status, replay depth of every "
                "traced call vs the program's own log, record-stream coherence and Lean replay model",
        "h1_scripts": nscripts, "h1_directed_name_scripts": ndirected,
        "h1_names": {"setjmp": sorted(SETJMP_NAMES), "longjmp": sorted(n for n, i in LONGJMP_NAMES.items() if i in lj_ids)},
        "tables_say": names_by_tables,
        "e2e_fortified_programs": len(fortified), "e2e_fortified_binding___longjmp_chk": fort_bound,
        "e2e_nfilter_programs": sum(1 for c in cases if "nfilter" in c[7]),
        "fx": {k: v for k, v in fxst.items()},
        "h1_ops": nops, "h1_op_kinds": opkinds, "h1_probe_state": probe_state,
        "h1_model_code_disagreements": disagree, "h1_monitor_failures": monitor_fail,
        "h1_monitor_failures_attributed": attributed,
        "e2e_programs": len(cases), "e2e_calls_depth_checked": calls_checked, "e2e_failures": e2e_bad,
        "e2e_failures_attributed": e2e_attr, "e2e_probe_passes": e2e_fix,
        "e2e_distribution": {"flavours": flv, "opt": ["-O0", "-O2"], "cpp_share": 0.6, "alarm_every": 5},
        "e2e_programs_hit_by_sigalrm": sum(1 for r in eres if r.get("alarms", 0) > 0),
        "streams_checked": len(streams), "streams_incoherent": incoherent,
        "fix_flags_detected": fix, "unfixed_findings": sorted(FINDING_OF[f] for f in unfixed),
        "exhaustive": False, "samples": samples,
    })
    ctx.assumptions += [
        "x86_64: ARCH_SUPPORT_AUTO_RECOVER = 1, ARCH_CAN_RESTORE_PLTHOOK = 1; no --estimate-return; no filters in H1",
        "WellFormedOp: new frames lie below all live frames; longjmp targets a live setjmp frame; in a landing pad the "
        "callee's frame-pointer word separates unwound from live hooked frames; only unhooked code returns while "
        "in_exception is set",
        "vforkExec: in c11_instep_invariant and c11_vfork_returns; no depth theorem for it (H1/H5 only)",
        "the -finstrument-functions path (cygprof_dummy return slot) and signal arrival inside the hooks: H5 only",
        "programs interrupted by SIGALRM contain no exceptions and no setjmp/longjmp: a traced handler arriving inside "
        "the C++ unwinder aborts the tracee in a timing-dependent way (seen on the unchanged and on the repaired tree); "
        "not part of the deterministic check",
    ]
    return C.finish(ctx)


def norm_model_line(x):
    p = x.split()
    if p[0] == "RET":
        return "RET"
    if p[0] == "TAIL":
        return "TAIL %s %s" % (p[1], p[2])
    return x


def patch_frames_log(g):
    """remember the live frames (slot, orig) at ops whose expectation talks about all of them"""
    orig_emit = g.emit

    def emit(line, **exp):
        if exp.get("allorig"):
            g.frames_log[len(g.lines)] = [(f["slot"], f["orig"]) for f in g.frames]
        orig_emit(line, **exp)
    g.emit = emit


def replay(ctx, path):
    print(json.dumps(json.load(open(path)), indent=1))
    return 0
