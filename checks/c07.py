"""C07 — Analysis-time filters mean the same as record-time filters.
Lean: Uft/Model/Fstack.lean (look-ahead time/caller filter of get_task_ustack, the
fstack_entry/fstack_exit automaton, the loops of replay/report/graph/dump/script and
fstack_skip), Uft/Lemmas/Fstack*.lean, Uft/Props/C07.lean; record side Uft/Model/Mcount.lean.
Tie: C via H3 — synthesized data directories (hand-made probes, then random call forests,
optionally cut open at the end) are analysed by the real `uftrace replay | script |
dump --chrome | report | graph | dump` with random option sets over -F -N -C -D -t
-T(depth,time,trace,filter,notrace,trace_on,trace_off,hide,caller) -H -r --trace=off
--no-libcall (PLT symbols) --no-merge; the shown call sequence of every command is parsed
back and compared with the model's, with one another (the property: the commands agree) and
with an independent reading of the manual for the core options.  H1 -> H3 composition: the
same forest is (a) recorded by the real libmcount with the option and (b) recorded
unfiltered, written as a data directory and replayed with the option; both are also
compared with their Lean models.
Findings: F-C07-NOLIBCALL and S4 (-t boundary `>` vs `>=`) are fixed in /repo; a tree that
behaves like their pre-fix models is reported again.  F-C07-TRACEOFF-FLUSH (record side: a
trace_off trigger in a function the filters reject lost the pending ENTRY records of its callers):
the hook model has the repaired behaviour (`f7fixed`, the flush at the TRACE_OFF update of
mcount_entry_filter_check); a tree whose hooks behave like the model with f7fixed=0 is reported —
KNOWN-FINDING while the entry is listed open in known_findings.json, VIOLATION with the concrete
case otherwise.  On the directed cases record time must equal replay time."""
import json
import os
import random
import re
import sys
from concurrent.futures import ThreadPoolExecutor

from lib import common as C, datadir as D, h1, mcgen, mcheck

sys.setrecursionlimit(20000)
NFN = 9
FN = [mcgen.fname(i) for i in range(NFN)]
FIDX = {n: i for i, n in enumerate(FN)}
SYMS = [(0x100 * i, 0x40, FN[i]) for i in range(NFN)]
SCRIPT = os.path.join(C.VERIF, "harness", "c07_log.py")


def addr(fn):
    return D.BASE + 0x100 * fn


# ---------------------------------------------------------------- options -------------
class ROpts:
    def __init__(self):
        self.F, self.N, self.C, self.H = [], [], [], []
        self.D = None
        self.t = None
        self.T = []            # (fn, [(action, value)])
        self.r = None          # (start, stop) absolute ns, 0 = open
        self.trace_off = False
        self.no_libcall = False
        self.no_merge = False
        self.plt = []          # functions whose symbol type is PLT

    def describe(self):
        return {k: v for k, v in self.__dict__.items() if v not in (None, [], False)}

    @staticmethod
    def from_json(j):
        o = ROpts()
        for k, v in j.items():
            if k == "T":
                v = [(fn, [tuple(a) for a in acts]) for fn, acts in v]
            if k == "r" and v is not None:
                v = tuple(v)
            setattr(o, k, v)
        return o


CORE_KEYS = ("F", "N", "D", "t")


def is_core(o):
    return not (o.C or o.H or o.T or o.r or o.trace_off or o.no_libcall)


def rand_ropts(rng, times, core=False, present=None):
    o = ROpts()
    fns = list(range(NFN))
    if present and rng.random() < 0.8:
        # mostly name functions that occur in the trace, so that the option has something to select
        fns = sorted(present) if len(present) >= 3 else sorted(set(present) | set(rng.sample(fns, 3)))
    if rng.random() < 0.4:
        o.F = rng.sample(fns, min(len(fns), rng.randint(1, 2)))
    if rng.random() < 0.4:
        o.N = [f for f in rng.sample(fns, min(len(fns), rng.randint(1, 2))) if f not in o.F]
    if rng.random() < 0.35:
        o.D = rng.randint(1, 4)
    if rng.random() < 0.4:
        o.t = rng.choice([1, 2, 5, 10, 11, 20, 50])
    if core:
        return o
    if rng.random() < 0.15:
        o.C = rng.sample(fns, 1)
    if rng.random() < 0.2:
        o.H = [f for f in rng.sample(fns, min(len(fns), rng.randint(1, 2)))]
    if rng.random() < 0.5:
        for _ in range(rng.randint(1, 2)):
            fn = rng.choice(fns)
            if any(f == fn for f, _ in o.T):
                continue
            acts = []
            for a in rng.sample(["depth", "time", "time", "trace", "filter", "notrace", "trace_off", "trace_on", "hide", "caller"],
                                rng.randint(1, 2)):
                if a == "depth":
                    acts.append((a, rng.randint(0, 3)))
                elif a == "time":
                    acts.append((a, rng.choice([1, 5, 10, 30])))
                else:
                    acts.append((a, None))
            acts = [x for k, x in enumerate(acts) if x[0] not in [y[0] for y in acts[:k]]]
            names = [a for a, _ in acts]
            if "filter" in names and "notrace" in names:
                acts = [x for x in acts if x[0] != "notrace"]
            if "trace_on" in names and "trace_off" in names:
                acts = [x for x in acts if x[0] != "trace_on"]
            if "caller" in names and not o.C:
                acts = [x for x in acts if x[0] != "caller"]     # -C is what switches the caller mode on
            if acts:
                o.T.append((fn, acts))
    if rng.random() < 0.25 and times and o.t is None:     # uftrace: "--time-filter cannot be used with --time-range"
        a, b = sorted(rng.sample(times, 2)) if len(times) >= 2 else (times[0], times[0])
        k = rng.random()
        o.r = (a, 0) if k < 0.35 else ((0, b) if k < 0.6 else (a, b))
        if o.r == (0, 0):
            o.r = None
    if rng.random() < 0.12:
        o.trace_off = True
    if rng.random() < 0.2:
        o.plt = rng.sample(fns, min(len(fns), rng.randint(1, 3)))
        o.no_libcall = rng.random() < 0.7
    o.no_merge = rng.random() < 0.2
    return o


def rand_switch_opts(rng, recs):
    """trace_off on a function called below something that can hold filter state, trace_on on a function entered
    after that call has returned (both while nested deeper and after the enclosing calls returned), combined with
    -F / -N / -D / -t / -H / depth= / time= that mostly name the functions open when tracing goes off"""
    o = ROpts()
    ents = [(i, r) for i, r in enumerate(recs) if r[0] == "E"]
    if len(ents) < 3:
        return rand_ropts(rng, sorted({r[3] for r in recs}), core=True, present={r[2] for r in recs})
    k = rng.randrange(0, max(1, len(ents) - 1))
    i_off, r_off = ents[k]
    # functions open at the moment tracing goes off (these hold the filter state)
    stack = []
    for r in recs[:i_off]:
        if r[0] == "E":
            stack.append(r[2])
        else:
            stack.pop()
    later = [r for _, r in ents[k + 1:] if r[2] != r_off[2]]
    shallower = [r for r in later if r[1] <= r_off[1]]
    pool = shallower if (shallower and rng.random() < 0.7) else later
    acts_off = [("trace_off", None)]
    if rng.random() < 0.15:
        acts_off.append(rng.choice([("filter", None), ("notrace", None), ("depth", rng.randint(0, 2)), ("time", 5)]))
    o.T = [(r_off[2], acts_off)]
    if pool:
        r_on = rng.choice(pool)
        acts_on = [("trace_on", None)]
        if rng.random() < 0.15:
            acts_on.append(rng.choice([("filter", None), ("depth", rng.randint(1, 3)), ("trace", None)]))
        o.T.append((r_on[2], acts_on))
    if rng.random() < 0.2:
        o.trace_off = True
    holders = stack + [r_off[2]]
    allf = sorted({r[2] for r in recs})
    used = {fn for fn, _ in o.T}

    def pick(n):
        src = holders if (holders and rng.random() < 0.75) else allf
        return sorted(set(rng.choice(src) for _ in range(n)))
    kind = rng.random()
    if kind < 0.45:
        o.F = pick(rng.randint(1, 2))
    if 0.3 < kind < 0.6 or rng.random() < 0.15:
        o.N = [f for f in pick(1) if f not in o.F]
    if rng.random() < 0.5:
        o.D = rng.randint(1, max(2, r_off[1] + 2))
    if rng.random() < 0.25:
        o.t = rng.choice([1, 5, 10, 20])
    if rng.random() < 0.15:
        o.H = [f for f in pick(1)]
    if rng.random() < 0.2:
        fn = rng.choice(allf)
        if fn not in used:
            o.T.append((fn, [rng.choice([("depth", rng.randint(0, 3)), ("time", rng.choice([1, 10, 30])), ("filter", None),
                                         ("notrace", None), ("hide", None)])]))
    o.no_merge = rng.random() < 0.3
    return o


def trig_table(o):
    """fn -> list of model TRIG items (what uftrace_setup_filter & co leave in the rbtree)"""
    trig = {}

    def t(fn):
        return trig.setdefault(fn, [])
    for f in o.F:
        t(f).append("filter=in")
    for f in o.N:
        t(f).append("filter=out")
    for fn, acts in o.T:
        for a, v in acts:
            if a in ("depth", "time"):
                t(fn).append("%s=%d" % (a, v))
            elif a == "filter":
                t(fn).append("filter=in")
            elif a == "notrace":
                t(fn).append("filter=out")
            elif a == "trace_on":
                t(fn).append("traceon")
            elif a == "trace_off":
                t(fn).append("traceoff")
            else:
                t(fn).append(a)
    for f in o.C:
        t(f).append("caller")
    for f in o.H:
        t(f).append("hide")
    for f in o.plt:
        t(f).append("plt")
    return trig


def model_cfg(o, pltfixed=1):
    trig = trig_table(o)
    optin = any("filter=in" in v for v in trig.values())
    lines = ["RESET", "CFG depth=%d threshold=%d optin=%d locin=0 caller=%d enabled=%d rstart=%d rstop=%d nolibcall=%d nomerge=%d pltfixed=%d" % (
        o.D if o.D is not None else 1024, o.t or 0, optin, 1 if o.C else 0, 0 if o.trace_off else 1,
        o.r[0] if o.r else 0, o.r[1] if o.r else 0, 1 if o.no_libcall else 0, 1 if o.no_merge else 0, pltfixed)]
    for fn, items in sorted(trig.items()):
        lines.append("TRIG %d %s" % (fn, " ".join(items)))
    return lines


def cli_args(o):
    a = []
    for f in o.F:
        a += ["-F", "^%s$" % FN[f]]
    for f in o.N:
        a += ["-N", "^%s$" % FN[f]]
    for f in o.C:
        a += ["-C", "^%s$" % FN[f]]
    for f in o.H:
        a += ["-H", "^%s$" % FN[f]]
    if o.D is not None:
        a += ["-D", str(o.D)]
    if o.t is not None:
        a += ["-t", "%dns" % o.t]
    for fn, acts in o.T:
        items = []
        for act, v in acts:
            if act == "depth":
                items.append("depth=%d" % v)
            elif act == "time":
                items.append("time=%dns" % v)
            else:
                items.append(act)
        a += ["-T", "^%s$@%s" % (FN[fn], ",".join(items))]
    if o.r:
        a += ["-r", "%s~%s" % (D.ts(o.r[0]) if o.r[0] else "", D.ts(o.r[1]) if o.r[1] else "")]
    if o.trace_off:
        a += ["--trace=off"]
    if o.no_libcall:
        a += ["--no-libcall"]
    return a


# ---------------------------------------------------------------- traces --------------
def forest_recs(rng, tier):
    """random call forest (generator of lib/mcgen) as a record list [(typ, depth, fn, time)]"""
    ops = mcgen.rand_forest(rng, max_calls=rng.choice([6, 15, 30] if tier == "quick" else [6, 15, 30, 60]),
                            max_depth=rng.choice([2, 4, 6]), zero_dur=0.1)
    recs, stack, now = [], [], 0
    for op in ops:
        if op[0] == "T":
            now = op[1]
        elif op[0] == "E":
            recs.append(("E", len(stack), op[1], now))
            stack.append(op[1])
        else:
            fn = stack.pop()
            recs.append(("X", len(stack), fn, now))
    return recs, ops


def toks(recs):
    return ["%s:%d:%d:%d" % r for r in recs]


def write_dir(d, recs, plt=()):
    dd = D.DataDir(SYMS, [D.Task(100, [D.Rec(t, typ, dep, addr(fn)) for typ, dep, fn, t in recs])], sess_time=500)
    # `uftrace graph -D n` synthesizes the trigger "_start@depth=n"; if no such symbol exists the whole
    # filter setup is abandoned half-way (-C/-H ignored), so the synthetic program has a _start like any real one
    sym = ["# symbols: %d" % (NFN + 1), "# path name: " + D.EXE, "# build-id: "]
    for rel, size, name in SYMS:
        sym.append("%016x %08x %s %s" % (rel, size, "P" if FIDX[name] in plt else "T", name))
    sym.append("%016x %08x T _start" % (0x100 * NFN, 0x40))
    dd.write(d, overrides={"prog.sym": ("\n".join(sym) + "\n").encode()})


# ---------------------------------------------------------------- parsers -------------
UNIT = {"ns": 1, "us": 1000, "ms": 10 ** 6, "s": 10 ** 9, "m": 60 * 10 ** 9}
RLINE = re.compile(r"^\s*(?:(\d+)\.(\d{3}) (ns|us|ms| s| m))?\s*(?:\[\s*(\d+)\])?\s+(\d+)\.(\d{9}) \|( *)(.*)$")
TID0 = 100


def parse_replay(text, multi=False):
    """`replay -f duration,[tid,]time` -> tokens E:depth:fn:time / X:… (a folded leaf gives both);
    multi: each token is prefixed with "<task index>/" """
    out = []
    stack = []
    for line in text.split("\n"):
        if not line.strip() or line.startswith("#"):
            continue
        m = RLINE.match(line)
        if not m:
            if "uftrace stopped tracing with remaining functions" in line:
                break
            if line.startswith("=====") or line.startswith("task:") or re.match(r"^\[\d+\] ", line):
                continue
            out.append("?" + line.strip()[:60])
            continue
        dur = None
        if m.group(1) is not None:
            dur = (int(m.group(1)) * 1000 + int(m.group(2))) * UNIT[m.group(3).strip()] // 1000
        pre = ("%d/" % (int(m.group(4)) - TID0)) if (multi and m.group(4)) else ""
        ts = int(m.group(5)) * 10 ** 9 + int(m.group(6))
        depth = len(m.group(7)) // 2
        body = m.group(8)
        mm = re.match(r"^(\S+)\(\) \{$", body)
        if mm:
            out.append(pre + "E:%d:%d:%d" % (depth, FIDX.get(mm.group(1), 99), ts))
            continue
        mm = re.match(r"^\} /\* (\S+) \*/$", body)
        if mm:
            out.append(pre + "X:%d:%d:%d" % (depth, FIDX.get(mm.group(1), 99), ts))
            continue
        mm = re.match(r"^(\S+)\(\);$", body)
        if mm:
            fn = FIDX.get(mm.group(1), 99)
            out.append(pre + "E:%d:%d:%d" % (depth, fn, ts))
            out.append(pre + "X:%d:%d:%d" % (depth, fn, ts + (dur or 0)))
            continue
        out.append("?" + body[:60])
    return out


def parse_script(text, multi=False):
    out = []
    for line in text.split("\n"):
        m = re.match(r"^([EX]):(\d+):(\S+):(\d+):(\d+)$", line)
        if m:
            pre = ("%d/" % (int(m.group(5)) - TID0)) if multi else ""
            out.append(pre + "%s:%s:%d:%s" % (m.group(1), m.group(2), FIDX.get(m.group(3), 99), m.group(4)))
        elif line.strip():
            out.append("?" + line.strip()[:60])
    return out


def parse_chrome(text, multi=False):
    out = []
    for m in re.finditer(r'\{"ts":(\d+)\.(\d{3}),"ph":"([BE])","pid":(\d+),(?:"tid":(\d+),)?"name":"([^"]*)"', text):
        pre = ("%d/" % (int(m.group(5) or m.group(4)) - TID0)) if multi else ""
        out.append(pre + "%s:%d:%d" % ("E" if m.group(3) == "B" else "X", FIDX.get(m.group(6), 99),
                                       int(m.group(1)) * 1000 + int(m.group(2))))
    return out


def parse_dumpraw(text, multi=False):
    out = []
    for m in re.finditer(r"^(\d+)\.(\d{9})\s+(\d+): \[(entry|exit )\] (\S+)\([0-9a-f]+\) depth: (\d+)", text, re.M):
        pre = ("%d/" % (int(m.group(3)) - TID0)) if multi else ""
        out.append(pre + "%s:%d:%d" % ("E" if m.group(4) == "entry" else "X", FIDX.get(m.group(5), 99),
                                       int(m.group(1)) * 10 ** 9 + int(m.group(2))))
    return out


def parse_report(text):
    """`report -f call` -> {fn: calls}"""
    out = {}
    started = False
    for line in text.split("\n"):
        if line.strip().startswith("====="):
            started = True
            continue
        if started and line.strip():
            p = line.split()
            if len(p) == 2 and p[0].isdigit():
                out[FIDX.get(p[1], 99)] = int(p[0])
            else:
                out["?"] = line.strip()[:60]
    return out


GROUPS = ("   ", " | ", " +-", "---")


def parse_graph(text):
    """`graph -f total,self` -> {path (tuple of fn below the root): calls} or an error string"""
    nodes, last_at = [], {}
    started = False
    for line in text.split("\n"):
        if line.startswith("# TOTAL TIME"):
            started = True
            continue
        if not started or not line.strip():
            continue
        if len(line) < 27 or line[24:27] != " : ":
            return "unparsable line %r" % line[:80]
        rest = line[27:]
        ind = 0
        while rest[ind * 3:ind * 3 + 3] in GROUPS and not rest[ind * 3:].startswith("("):
            ind += 1
        body = rest[ind * 3:]
        m = re.match(r"\((\d+)\) (.*)$", body)
        if not m:
            if not body.strip():
                continue
            return "unparsable node %r" % line[:80]
        marker = ind > 0 and ("+-" in rest[:ind * 3])
        if not nodes:
            parent = None
        elif marker:
            parent = last_at.get(ind - 1)
        else:
            parent = len(nodes) - 1
        path = (nodes[parent][0] if parent is not None else ()) + (m.group(2),)
        nodes.append((path, int(m.group(1))))
        last_at[ind] = len(nodes) - 1
    out = {}
    for path, n in nodes[1:]:
        out[tuple(FIDX.get(x, 99) for x in path[1:])] = n
    return out


# ------------------------------------------------------- projections of a shown sequence
def proj_calls(tokens):
    """[task/]E/X:fn:time without the display depth (what dump shows)"""
    return [t if t.startswith("?") else "%s:%s:%s" % (t.split(":")[0], t.split(":")[2], t.split(":")[3]) for t in tokens]


def proj_report(tokens, open_fns=()):
    out = {}
    for t in tokens:
        p = t.split("/")[-1].split(":")
        if t.startswith("?"):
            out["?"] = t
        elif p[0] == "X":
            out[int(p[2])] = out.get(int(p[2]), 0) + 1
    for fn in open_fns:
        out[fn] = out.get(fn, 0) + 1
    return out


def proj_graph(tokens):
    """what graph_add_node builds from the shown ENTRY/EXIT sequence: {path: calls}"""
    out = {}
    curs, deads = {}, {}             # one cursor per task (struct uftrace_task_graph)
    for t in tokens:
        task = t.split("/")[0] if "/" in t else ""
        p = t.split("/")[-1].split(":")
        cur, dead = curs.get(task, ()), deads.get(task, False)
        if t.startswith("?"):
            out["?"] = t
        elif p[0] == "E":
            if dead:
                continue
            cur = cur + (int(p[2]),)
            out[cur] = out.get(cur, 0) + 1
        else:
            if dead:
                continue
            if cur == ():
                dead = True          # tg->node = root->parent = NULL
            else:
                cur = cur[:-1]
        curs[task], deads[task] = cur, dead
    return out


# ------------------------------------------------------- the manual, for the core options
def doc_spec(recs, o):
    """uftrace-replay.md FILTERS for option sets made of -F -N -D -t: -F f = f and what it calls
    (depth counted from f); -N f = not f nor what it calls; -D n = n nested shown levels;
    -t n = not the calls that run under n (their callers stay). Closed forests only."""
    optin = bool(o.F)
    Dn = o.D if o.D is not None else 1024
    thr = o.t or 0
    # rebuild the forest
    roots, stack = [], []
    for typ, dep, fn, t in recs:
        if typ == "E":
            n = {"fn": fn, "t0": t, "t1": None, "kids": []}
            (stack[-1]["kids"] if stack else roots).append(n)
            stack.append(n)
        else:
            stack.pop()["t1"] = t

    def walk(n, inc, outc, budget, depth):
        if n["t1"] - n["t0"] < thr:
            return []                       # runs under the threshold: neither it nor (a fortiori) its callees
        inc2, outc2, b2 = inc, outc, budget
        vis = False
        if outc == 0:
            if n["fn"] in o.F:
                inc2, b2 = inc + 1, Dn
            elif n["fn"] in o.N:
                outc2 = outc + 1
            vis = outc2 == 0 and (not optin or inc2 > 0) and b2 > 0
            if vis:
                b2 -= 1
        kids = []
        for k in n["kids"]:
            kids += walk(k, inc2, outc2, b2, depth + (1 if vis else 0))
        if not vis:
            return kids
        return ["E:%d:%d:%d" % (depth, n["fn"], n["t0"])] + kids + ["X:%d:%d:%d" % (depth, n["fn"], n["t1"])]
    out = []
    for r in roots:
        out += walk(r, 0, 0, Dn, 0)
    return out


# ------------------------------------------------------- the manual, for -C with -t / time=
def is_caller_time(o):
    """option sets made of -C (caller triggers) and -t / time= triggers only"""
    return bool(o.C) and not (o.F or o.N or o.H or o.D is not None or o.r or o.trace_off or o.no_libcall or o.plt) and \
        all(a in ("time", "caller") for _, acts in o.T for a, _ in acts)


def doc_spec_caller(recs, o):
    """uftrace-replay.md: -C f = f and the functions on the call chains that lead to f (not what f calls);
    -t n / f@time=n = not the calls that run under n (time= holds for the function and what it calls).  Together,
    as at record time: a call of a -C function is selected iff it ran at least the active threshold, every other
    call iff a selected call is below it.  Independent of the Lean `spec` (Appendix D of DESIGN.md), which must give
    the same.  Closed forests only."""
    cset = set(o.C) | {fn for fn, acts in o.T if any(a == "caller" for a, _ in acts)}
    tthr = {fn: v for fn, acts in o.T for a, v in acts if a == "time"}
    roots, stack = [], []
    for typ, dep, fn, t in recs:
        if typ == "E":
            n = {"fn": fn, "t0": t, "t1": None, "kids": []}
            (stack[-1]["kids"] if stack else roots).append(n)
            stack.append(n)
        else:
            stack.pop()["t1"] = t

    def walk(n, thr, depth):
        thr2 = tthr.get(n["fn"], thr)
        kids = []
        for k in n["kids"]:
            kids += walk(k, thr2, depth + 1)
        if not kids and not (n["fn"] in cset and n["t1"] - n["t0"] >= thr2):
            return []
        return ["E:%d:%d:%d" % (depth, n["fn"], n["t0"])] + kids + ["X:%d:%d:%d" % (depth, n["fn"], n["t1"])]
    out = []
    for r in roots:
        out += walk(r, o.t or 0, 0)
    return out


def fn_durations(recs):
    """fn -> durations of its calls, fn -> functions that enclose one of its calls (closed forest)"""
    durs, encl, stack = {}, {}, []
    for typ, dep, fn, t in recs:
        if typ == "E":
            encl.setdefault(fn, set()).update(f for f, _ in stack)
            stack.append((fn, t))
        else:
            f, t0 = stack.pop()
            durs.setdefault(f, []).append(t - t0)
    return durs, encl


def around(ds):
    """thresholds around the durations ds: each duration, one more, one less"""
    return sorted({x for d in ds for x in (d - 1, d, d + 1) if x >= 1})


CT_DIRECTED = [("E", 0, 0, 1100), ("E", 1, 1, 1110), ("E", 2, 2, 1112), ("X", 2, 2, 1115), ("X", 1, 1, 1120),
               ("E", 1, 3, 1130), ("E", 2, 1, 1135), ("X", 2, 1, 1140), ("X", 1, 3, 1150),
               ("E", 1, 1, 1160), ("E", 2, 4, 1165), ("E", 3, 1, 1170), ("X", 3, 1, 1171), ("X", 2, 4, 1180), ("X", 1, 1, 1190),
               ("X", 0, 0, 1200), ("E", 0, 5, 1210), ("E", 1, 1, 1215), ("X", 1, 1, 1215), ("X", 0, 5, 1230)]


def caller_time_cases(crng, tier, n):
    """-C f x -t / time= thresholds around the durations of f's calls.  Directed: f0{ f1{f2}:10 f3{ f1:5 }:20
    f1{ f4{ f1:1 }:15 }:30 }:100 f5{ f1:0 }:20; random: forests of the usual generator, f a function that occurs,
    thresholds one below / at / one above the durations of its calls (as -t, as f@time=, as time= on an enclosing
    function), a second -C function, a second threshold"""
    cases = []

    def add(recs, C_, t=None, T=()):
        o = ROpts()
        o.C, o.t, o.T = list(C_), t, [(fn, list(acts)) for fn, acts in T]
        cases.append({"recs": recs, "opts": o, "family": "caller-time"})
    for t in (1, 2, 5, 6, 10, 11, 30, 31, 100, 101):
        add(CT_DIRECTED, [1], t)
    for t in (6, 11, 31):
        add(CT_DIRECTED, [1], None, [(1, [("time", t)])])
    add(CT_DIRECTED, [1], None, [(3, [("time", 6)])])
    add(CT_DIRECTED, [1], 11, [(3, [("time", 2)])])
    add(CT_DIRECTED, [1], 2, [(4, [("time", 5)])])
    add(CT_DIRECTED, [4], 16)
    add(CT_DIRECTED, [1, 4], 11)
    add(CT_DIRECTED, [2], 3, [(1, [("caller", None), ("time", 20)])])
    for _ in range(n):
        recs, _ops = forest_recs(crng, tier)
        durs, encl = fn_durations(recs)
        if not durs:
            continue
        # prefer a function that is called from somewhere (it has callers to show or to drop)
        nested = sorted(f for f in durs if encl.get(f))
        f = crng.choice(nested or sorted(durs))
        ths = around(durs[f]) or [1]
        add(recs, [f], crng.choice(ths))
        g = crng.choice(sorted(encl.get(f) or {f}) + [f])
        add(recs, [f], None, [(g, [("time", crng.choice(ths))])])
        f2 = crng.choice(sorted(durs))
        ths2 = around(durs[f] + durs[f2])
        T = []
        if crng.random() < 0.5:
            g2 = crng.choice(sorted(durs))
            T = [(g2, [("time", crng.choice(around(durs[g2]) or [1]))])]
        add(recs, sorted({f, f2}), crng.choice(ths2), T)
    return cases


# ---------------------------------------------------------------- running -------------
COMMANDS = ["replay", "script", "dump", "report", "graph", "dumpraw"]


def run_cmds(uft, d, o):
    """runs every command on directory d with option set o; returns {cmd: (rc, parsed, stderr)}"""
    base = cli_args(o)
    res = {}

    def go(cmd, sub, extra):
        rc, out, err = D.run_uftrace(uft, sub, d, base + extra, timeout=30)
        return rc, out, err
    rc, out, err = go("replay", "replay", ["-f", "duration,time"] + (["--no-merge"] if o.no_merge else []))
    res["replay"] = (rc, parse_replay(out), err)
    rc, out, err = go("script", "script", ["-S", SCRIPT])
    res["script"] = (rc, parse_script(out), err)
    rc, out, err = go("dump", "dump", ["--chrome"])
    res["dump"] = (rc, parse_chrome(out), err)
    rc, out, err = go("report", "report", ["-f", "call"])
    res["report"] = (rc, parse_report(out), err)
    rc, out, err = go("graph", "graph", ["-f", "total,self"])
    res["graph"] = (rc, parse_graph(out), err)
    rc, out, err = go("dumpraw", "dump", [])
    res["dumpraw"] = (rc, parse_dumpraw(out), err)
    return res


def open_at_end(recs, o):
    """functions still open when the (time-range restricted) stream ends, or calls whose ENTRY the range
    cut off — report's, graph's and dump's 'remaining functions' accounting (C08/C15 territory) adds
    them without looking at the filter flags, so those commands are not compared on such streams"""
    stack = []
    for typ, dep, fn, t in recs:
        if o.r and ((o.r[0] and t < o.r[0]) or (o.r[1] and t > o.r[1])):
            continue
        if typ == "E":
            if not stack and dep != 0:
                return ["cut"]
            stack.append(fn)
        elif stack:
            stack.pop()
        else:
            return ["cut"]
    return stack


def closed(recs):
    n = 0
    for typ, dep, fn, t in recs:
        n += 1 if typ == "E" else -1
        if n < 0:
            return False
    return n == 0


def model_queries(case):
    o, recs = case["opts"], case["recs"]
    lines = model_cfg(o)
    tk = " ".join(toks(recs))
    cmds = ["replay", "script", "dump", "report", "graph", "dumpraw", "la"]
    if closed(recs):
        cmds.append("spec")
    for c in cmds:
        lines.append("RUN %s %s" % (c, tk))
    if o.no_libcall and o.plt:
        # the two loops that finding F-C07-NOLIBCALL was about, as they were before its repair
        lines += model_cfg(o, pltfixed=0)
        lines.append("RUN replay %s" % tk)
        lines.append("RUN script %s" % tk)
        cmds = cmds + ["_cfg"] * (len(model_cfg(o, 0))) + ["replay_prefix", "script_prefix"]
    return lines, cmds


def evaluate(ctx, uft, cases, root):
    def one(ic):
        i, case = ic
        d = os.path.join(root, "c%d" % i)
        write_dir(d, case["recs"], case["opts"].plt)
        r = run_cmds(uft, d, case["opts"])
        for f in os.listdir(d):
            os.unlink(os.path.join(d, f))
        os.rmdir(d)
        return r
    with ThreadPoolExecutor(16) as ex:
        impl = list(ex.map(one, enumerate(cases)))
    mlines, spans = [], []
    for case in cases:
        lines, cmds = model_queries(case)
        base = len(mlines) + len(lines) - len(cmds)
        spans.append((base, cmds))
        mlines += lines
    mout = C.run_model("C07", mlines)
    for case, im, (base, cmds) in zip(cases, impl, spans):
        case["impl"] = im
        case["model"] = {c: ([] if mout[base + k].strip() == "-" else mout[base + k].split())
                         for k, c in enumerate(cmds) if c != "_cfg"}
    return cases


def off_on_shape(recs, o):
    """(approximate, ignores triggers blocked by other filters) does a call entered while tracing is on return
    while tracing is off, with tracing switched on again later?"""
    off_f = {fn for fn, acts in o.T if any(a == "trace_off" for a, _ in acts)}
    on_f = {fn for fn, acts in o.T if any(a == "trace_on" for a, _ in acts)}
    en = not o.trace_off
    stack, ret_off = [], False
    for typ, dep, fn, t in recs:
        if typ == "E":
            if fn in off_f:
                en = False
            elif fn in on_f:
                if ret_off and not en:
                    return True
                en = True
            stack.append(en)
        elif stack:
            was_on = stack.pop()
            if not en and (was_on or True):
                ret_off = True
    return False


def has_switch(o):
    return o.trace_off or any(a in ("trace_on", "trace_off") for _, acts in o.T for a, _ in acts)


FINDING_NOLIBCALL = "F-C07-NOLIBCALL"


def assess(case):
    """returns (model/code mismatches, property failures on the implementation's output, finding tag or None)"""
    o, recs, im, mo = case["opts"], case["recs"], case["impl"], case["model"]
    mism, bad = [], []
    for cmd in COMMANDS:
        rc, parsed, err = im[cmd]
        if rc != 0:
            bad.append((cmd, "exit status %s: %s" % (rc, err[-200:])))
    if bad:
        return mism, bad, None
    opens = open_at_end(recs, o)
    plt_case = bool(o.no_libcall and o.plt)
    # --- model vs code, command by command.  replay and script have two models when --no-libcall meets PLT
    # symbols: the code as it is now and the code before the repair of finding F-C07-NOLIBCALL
    variant = "same"
    if plt_case and (mo["replay_prefix"] != mo["replay"] or mo["script_prefix"] != mo["script"]):
        variant = "repaired"
        if (im["replay"][1], im["script"][1]) != (mo["replay"], mo["script"]) and \
                (im["replay"][1], im["script"][1]) == (mo["replay_prefix"], mo["script_prefix"]):
            variant = "pre-fix"
    case["variant"] = variant
    mrep, mscr = (mo["replay_prefix"], mo["script_prefix"]) if variant == "pre-fix" else (mo["replay"], mo["script"])
    if im["replay"][1] != mrep:
        mism.append(("replay", im["replay"][1][:12], mrep[:12]))
    if im["script"][1] != mscr:
        mism.append(("script", im["script"][1][:12], mscr[:12]))
    if im["dump"][1] != proj_calls(mo["dump"]) and not opens:
        mism.append(("dump --chrome", im["dump"][1][:12], proj_calls(mo["dump"])[:12]))
    if im["dumpraw"][1] != proj_calls(mo["dumpraw"]):
        mism.append(("dump", im["dumpraw"][1][:12], proj_calls(mo["dumpraw"])[:12]))
    if not opens:
        if im["report"][1] != proj_report(mo["report"]):
            mism.append(("report", im["report"][1], proj_report(mo["report"])))
        g = im["graph"][1]
        if isinstance(g, str) or g != proj_graph(mo["graph"]):
            mism.append(("graph", str(g)[:300], str(proj_graph(mo["graph"]))[:300]))
    # --- the property on the implementation's output: the commands agree
    ref = im["script"][1]
    agree = []
    if (im["replay"][1] if not plt_case else proj_calls(im["replay"][1])) != (ref if not plt_case else proj_calls(ref)):
        agree.append(("replay-vs-script", im["replay"][1][:12], ref[:12]))
    if not opens:
        if im["dump"][1] != proj_calls(ref):
            agree.append(("dump--chrome-vs-script", im["dump"][1][:12], proj_calls(ref)[:12]))
        if im["report"][1] != proj_report(ref):
            agree.append(("report-vs-script", im["report"][1], proj_report(ref)))
        if not isinstance(im["graph"][1], str) and im["graph"][1] != proj_graph(ref):
            agree.append(("graph-vs-script", str(im["graph"][1])[:300], str(proj_graph(ref))[:300]))
    if not o.t and not o.C and not any(a == "time" for _, acts in o.T for a, _ in acts):
        if im["dumpraw"][1] != proj_calls(ref):
            agree.append(("dump-vs-script", im["dumpraw"][1][:12], proj_calls(ref)[:12]))
    finding = None
    if agree:
        if plt_case and variant == "pre-fix" and not mism:
            finding = FINDING_NOLIBCALL      # exactly the behaviour of the pre-fix model
            case["disagreement"] = agree
        else:
            bad += agree
    # --- … and show what the manual says
    if is_core(o) and closed(recs):
        exp = doc_spec(recs, o)
        if ref != exp:
            k = next((i for i, (a, b) in enumerate(zip(ref, exp)) if a != b), min(len(ref), len(exp)))
            bad.append(("documented-selection", ref[k:k + 3], exp[k:k + 3]))
    if is_caller_time(o) and closed(recs):
        exp = doc_spec_caller(recs, o)
        if ref != exp:
            k = next((i for i, (a, b) in enumerate(zip(ref, exp)) if a != b), min(len(ref), len(exp)))
            bad.append(("documented-selection of -C with -t / time= (a call of the -C function that runs under the threshold "
                        "is not selected, nor are the callers it alone would bring in): shown vs documented from record %d" % k,
                        ref[k:k + 4], exp[k:k + 4]))
        if "spec" in mo and mo["spec"] != exp:
            mism.append(("Lean spec (Fstack.spec) vs the check's documented selection for -C x -t", mo["spec"][:12], exp[:12]))
    if "spec" in mo and not has_switch(o) and not o.r and not o.no_libcall:
        if mo["spec"] != mo["report"]:
            mism.append(("model spec vs model loop (theorem c07_replay_refines_spec)", mo["spec"][:12], mo["report"][:12]))
    return mism, bad, finding


def case_json(case):
    return {"recs": toks(case["recs"]), "opts": case["opts"].describe(), "cli": cli_args(case["opts"])}


# ---------------------------------------------------------------- H1 -> H3 ------------
def rec_opts(rng, durs, boundary_ok=True):
    """option sets that exist at both times: -F -N -D -t; -t is often equal to a call duration (finding S4,
    repaired: both times keep a call that ran at least the threshold)"""
    o = mcgen.Opts()
    fns = list(range(NFN))
    if rng.random() < 0.5:
        o.F = rng.sample(fns, rng.randint(1, 2))
    if rng.random() < 0.5:
        o.N = [f for f in rng.sample(fns, rng.randint(1, 2)) if f not in o.F]
    if rng.random() < 0.45:
        o.D = rng.randint(1, 4)
    if rng.random() < 0.5:
        cand = [t for t in (1, 2, 3, 4, 5, 7, 10, 12, 20, 25, 50) if boundary_ok or t not in durs]
        hit = [t for t in cand if t in durs]
        if cand:
            o.t = rng.choice(hit) if (hit and rng.random() < 0.5) else rng.choice(cand)
    o.patt = "regex"
    return o


def to_ropts(o):
    r = ROpts()
    r.F, r.N, r.D, r.t = list(o.F), list(o.N), o.D, o.t
    r.C = list(getattr(o, "C", []))
    r.T = [(fn, list(acts)) for fn, acts in o.T]
    return r


def stream_recs(tokens):
    out = []
    for t in tokens:
        p = t.split(":")
        out.append((p[0], int(p[1]), int(p[2]), int(p[3])))
    return out


ONOFF_FNS = [0, 1, 2, 3, 4, None, None, None, None, 5, 6, None, None, 1, 2, 3, 4, None, None, None, None, None]


def record_vs_replay(ctx, uft, root, nforest, boundary_ok=True):
    exe, log = h1.build(ctx, "normal")
    if not exe:
        return None, log
    sizes = mcheck.sym_sizes(exe)
    rng = ctx.rng
    crng = random.Random("C07-caller-time-record-%d" % ctx.seed)     # own state: the cases below stay what they were
    cases = []
    # directed: f0{ f1{ f2{ f3{ f4 }}} f5{ f6 } f1{ f2{ f3{ f4 }}} } with -T f3@trace_off -T f5@trace_on and filters that
    # do (-D 3, -D 2, depth= trigger, -F f1 -D 2) or do not (-D 4, none) reject the trace_off function f3 itself.  Rejected:
    # finding F-C07-TRACEOFF-FLUSH (repaired: the pending ENTRY records of f0 f1 f2 are written at the TRACE_OFF update).
    # On all of them recording with the options must equal replaying the unfiltered recording with the options.
    dops, now = [], 1000
    for fn in ONOFF_FNS:
        now += 10
        dops += [("T", now), (("E", fn) if fn is not None else ("X",))]
    sw = [(3, [("trace_off", None)]), (5, [("trace_on", None)])]
    for kind in ("pg", "cyg"):
        script = mcgen.script_lines(dops, lambda fn, k, kind=kind: kind)
        fid = "onoff-" + kind
        cases.append({"opts": mcgen.Opts(), "script": script, "kind": kind, "forest": fid, "role": "plain", "durs": set()})
        for dn, F, extra in ((3, [], []), (4, [], []), (2, [], []), (None, [], []), (None, [], [(1, [("depth", 2)])]),
                             (2, [1], [])):
            o = mcgen.Opts()
            o.D = dn
            o.F = list(F)
            o.T = [(fn, list(acts)) for fn, acts in sw + extra]
            cases.append({"opts": o, "script": script, "kind": kind, "forest": fid, "role": "traceoff", "durs": set(),
                          "directed": True})
    for i in range(nforest):
        ops = mcgen.rand_forest(rng, max_calls=rng.choice([8, 20, 40]), max_depth=rng.choice([3, 5, 7]), zero_dur=0.1)
        durs = set()
        st, now = [], 0
        for op in ops:
            if op[0] == "T":
                now = op[1]
            elif op[0] == "E":
                st.append(now)
            else:
                durs.add(now - st.pop())
        kind = rng.choice(["pg", "cyg"])
        script = mcgen.script_lines(ops, lambda fn, k, kind=kind: kind)
        cases.append({"opts": mcgen.Opts(), "script": script, "kind": kind, "forest": i, "role": "plain", "durs": durs})
        for _ in range(2):
            o = rec_opts(rng, durs, boundary_ok)
            cases.append({"opts": o, "script": script, "kind": kind, "forest": i, "durs": durs,
                          "role": "boundary" if (o.t in durs) else "filtered"})
        # -C f with -t around the durations of f's calls, at both times
        if i % 2 == 0:
            frecs, st3, now3 = [], [], 0
            for op in ops:
                if op[0] == "T":
                    now3 = op[1]
                elif op[0] == "E":
                    frecs.append(("E", len(st3), op[1], now3))
                    st3.append(op[1])
                else:
                    frecs.append(("X", len(st3) - 1, st3.pop(), now3))
            fd, encl = fn_durations(frecs)
            if fd:
                nested = sorted(f for f in fd if encl.get(f))
                f = crng.choice(nested or sorted(fd))
                ths = [t for t in around(fd[f]) if boundary_ok or t not in durs] or [1]
                o = mcgen.Opts()
                o.C, o.t = [f], crng.choice(ths)
                cases.append({"opts": o, "script": script, "kind": kind, "forest": i, "durs": durs, "caller_time": True,
                              "role": "boundary" if (o.t in durs) else "filtered"})
        # S4 probe: -t equal to one of the durations
        if durs and i % 4 == 0:
            o = mcgen.Opts()
            o.t = rng.choice(sorted(durs))
            cases.append({"opts": o, "script": script, "kind": kind, "forest": i, "role": "boundary", "durs": durs})
        # trace_off / trace_on triggers at both times (observation F-C07-TRACEOFF-FLUSH, see run())
        if i % 3 == 0:
            frecs = []
            st2, now2 = [], 0
            for op in ops:
                if op[0] == "T":
                    now2 = op[1]
                elif op[0] == "E":
                    frecs.append(("E", len(st2), op[1], now2))
                    st2.append(op[1])
                else:
                    frecs.append(("X", len(st2) - 1, st2.pop(), now2))
            ro = rand_switch_opts(rng, frecs)
            o = mcgen.Opts()
            o.F, o.N, o.D, o.t = list(ro.F), list(ro.N), ro.D, None
            o.T = [(fn, [a for a in acts if a[0] in ("trace_on", "trace_off")]) for fn, acts in ro.T]
            o.T = [(fn, acts) for fn, acts in o.T if acts]
            if o.T:
                cases.append({"opts": o, "script": script, "kind": kind, "forest": i, "role": "traceoff", "durs": durs})
        # the proved class of c07_record_eq_replay_traceoff: -F / -N / -D with trace_off triggers on functions that are not
        # -N functions, no trace_on, no -t: recording with the options must equal replaying with the options
        if i % 3 != 0:
            present = sorted({op[1] for op in ops if op[0] == "E"})
            o = rec_opts(rng, durs, boundary_ok)
            o.t = None
            offs = [f for f in rng.sample(present, min(len(present), rng.randint(1, 2))) if f not in o.N]
            o.T = [(f, [("trace_off", None)]) for f in offs]
            if o.T:
                cases.append({"opts": o, "script": script, "kind": kind, "forest": i, "role": "traceoff", "durs": durs,
                              "directed": True, "proved_class": True})
    mcheck.run_cases(ctx, exe, sizes, cases)
    # where the hooks do not behave like the current hook model: do they behave like the model of the code before
    # the repair of S4 (exit hooks keep only calls that ran strictly longer than the threshold)?
    # … or like the model of the code before the repair of F-C07-TRACEOFF-FLUSH (no flush of the pending ENTRY
    # records at the TRACE_OFF update of mcount_entry_filter_check)?
    odd = [c for c in cases if c["impl_cmp"] != c["model_cmp"]]
    if odd:
        for token, key in ((" s4fixed=0", "matches_prefix_S4_hook_model"), (" f7fixed=0", "matches_prefix_F7_hook_model")):
            ml, spans = [], []
            for c in odd:
                pre = ["RESET"] + mcgen.to_model(c["opts"], sizes, False)
                pre[1] += token
                spans.append((len(ml) + len(pre), len(c["script"])))
                ml += pre + c["script"]
            mo = C.run_model("Mcount", ml)
            for c, (a, n) in zip(odd, spans):
                c[key] = [mcheck.strip_obs(C.norm(x), False) for x in mo[a:a + n]] == c["impl_cmp"]
    for c in cases:
        c["model_setup"] = mcgen.to_model(c["opts"], sizes, False)
    # libmcount pre-allocates a second shmem buffer per thread that lib/h1.py does not know about: unlink it too
    for c in cases:
        for typ, payload in c["raw"]["msgs"]:
            if typ == "REC_START":
                name = payload.decode(errors="replace").rstrip("\0")
                m = re.match(r"^(/uftrace-[0-9a-f]+-\d+-)\d{3}$", name)
                for k in range(1, 4) if m else ():
                    try:
                        os.unlink("/dev/shm" + m.group(1) + "%03d" % k)
                    except OSError:
                        pass
    plain = {c["forest"]: mcheck.stream(c["impl"]) for c in cases if c["role"] == "plain"}
    jobs = [c for c in cases if c["role"] != "plain"]

    def one(ic):
        i, c = ic
        d = os.path.join(root, "r%d" % i)
        write_dir(d, stream_recs(plain[c["forest"]]))
        ro = to_ropts(c["opts"])
        rc, out, err = D.run_uftrace(uft, "replay", d, cli_args(ro) + ["-f", "duration,time"], timeout=30)
        for f in os.listdir(d):
            os.unlink(os.path.join(d, f))
        os.rmdir(d)
        return rc, parse_replay(out), err
    with ThreadPoolExecutor(16) as ex:
        rr = list(ex.map(one, enumerate(jobs)))
    # the Fstack model on the same unfiltered recording
    mlines = []
    for c in jobs:
        mlines += model_cfg(to_ropts(c["opts"])) + ["RUN replay " + " ".join(plain[c["forest"]])]
    mout = [l for l in C.run_model("C07", mlines) if l.strip() != "ok"]
    for c, r, m in zip(jobs, rr, mout):
        c["replayed"] = r
        c["replay_model"] = [] if m.strip() == "-" else m.split()
        c["recorded"] = mcheck.stream(c["impl"])
        c["plain"] = plain[c["forest"]]
    return jobs, ""


# ---------------------------------------------------------------- several tasks --------
def multi_tasks(rng):
    """2-3 threads, each a small call forest; all time stamps distinct, interleaved at random"""
    nt = rng.choice([2, 2, 3])
    tasks = []
    for _ in range(nt):
        ops = mcgen.rand_forest(rng, max_calls=rng.choice([4, 8, 14]), max_depth=rng.choice([2, 3, 4]), zero_dur=0.0)
        recs, stack = [], []
        for op in ops:
            if op[0] == "E":
                recs.append(["E", len(stack), op[1]])
                stack.append(op[1])
            elif op[0] == "X":
                fn = stack.pop()
                recs.append(["X", len(stack), fn])
        tasks.append(recs)
    pos = [0] * nt
    now = 1000
    out = [[] for _ in range(nt)]
    while any(pos[i] < len(tasks[i]) for i in range(nt)):
        i = rng.choice([k for k in range(nt) if pos[k] < len(tasks[k])])
        # run of records of one task, as a scheduler would give it
        for _ in range(rng.randint(1, 4)):
            if pos[i] >= len(tasks[i]):
                break
            typ, dep, fn = tasks[i][pos[i]]
            now += rng.choice([1, 2, 5, 10, 11, 30])
            out[i].append((typ, dep, fn, now))
            pos[i] += 1
    return out


def merged(tasks):
    return sorted(((r[3], i, r) for i, t in enumerate(tasks) for r in t))


def multi_switch_opts(rng, tasks):
    """like rand_switch_opts, on the time-ordered union of the tasks: the switch is global, so a trace_off in one
    thread makes the calls of the others return while tracing is off"""
    ents = [(k, i, r) for k, (t, i, r) in enumerate(merged(tasks)) if r[0] == "E"]
    o = ROpts()
    if len(ents) < 3:
        return o
    k = rng.randrange(0, len(ents) - 1)
    _, i_off, r_off = ents[k]
    holders = set()
    for i, t in enumerate(tasks):
        stack = []
        for r in t:
            if r[3] >= r_off[3]:
                break
            if r[0] == "E":
                stack.append(r[2])
            else:
                stack.pop()
        holders |= set(stack)
    holders.add(r_off[2])
    later = [r for _, _, r in ents[k + 1:] if r[2] != r_off[2]]
    o.T = [(r_off[2], [("trace_off", None)])]
    if later:
        o.T.append((rng.choice(later)[2], [("trace_on", None)]))
    if rng.random() < 0.15:
        o.trace_off = True
    allf = sorted({r[2] for t in tasks for r in t})
    hl = sorted(holders)

    def pick():
        return rng.choice(hl if rng.random() < 0.75 else allf)
    kind = rng.random()
    if kind < 0.45:
        o.F = sorted({pick() for _ in range(rng.randint(1, 2))})
    if 0.3 < kind < 0.6:
        o.N = [f for f in [pick()] if f not in o.F]
    if rng.random() < 0.5:
        o.D = rng.randint(1, 4)
    if rng.random() < 0.2:
        o.t = rng.choice([5, 10, 20])
    o.no_merge = rng.random() < 0.3
    return o


def write_dir_multi(d, tasks):
    tl = [D.Task(TID0 + i, [D.Rec(t, typ, dep, addr(fn)) for typ, dep, fn, t in recs], pid=TID0) for i, recs in enumerate(tasks)]
    dd = D.DataDir(SYMS, tl, sess_time=500)
    sym = ["# symbols: %d" % (NFN + 1), "# path name: " + D.EXE, "# build-id: "]
    for rel, size, name in SYMS:
        sym.append("%016x %08x T %s" % (rel, size, name))
    sym.append("%016x %08x T _start" % (0x100 * NFN, 0x40))
    dd.write(d, overrides={"prog.sym": ("\n".join(sym) + "\n").encode()})


def run_cmds_multi(uft, d, o):
    base = cli_args(o)
    res = {}
    rc, out, err = D.run_uftrace(uft, "replay", d, base + ["-f", "duration,tid,time"] + (["--no-merge"] if o.no_merge else []), timeout=30)
    res["replay"] = (rc, parse_replay(out, True), err)
    rc, out, err = D.run_uftrace(uft, "script", d, base + ["-S", SCRIPT], timeout=30)
    res["script"] = (rc, parse_script(out, True), err)
    rc, out, err = D.run_uftrace(uft, "dump", d, base + ["--chrome"], timeout=30)
    res["dump"] = (rc, parse_chrome(out, True), err)
    rc, out, err = D.run_uftrace(uft, "report", d, base + ["-f", "call"], timeout=30)
    res["report"] = (rc, parse_report(out), err)
    rc, out, err = D.run_uftrace(uft, "graph", d, base + ["-f", "total,self"], timeout=30)
    res["graph"] = (rc, parse_graph(out), err)
    rc, out, err = D.run_uftrace(uft, "dump", d, base, timeout=30)
    res["dumpraw"] = (rc, parse_dumpraw(out, True), err)
    return res


def evaluate_multi(ctx, uft, cases, root):
    def one(ic):
        i, case = ic
        d = os.path.join(root, "m%d" % i)
        write_dir_multi(d, case["tasks"])
        r = run_cmds_multi(uft, d, case["opts"])
        for f in os.listdir(d):
            os.unlink(os.path.join(d, f))
        os.rmdir(d)
        return r
    with ThreadPoolExecutor(16) as ex:
        impl = list(ex.map(one, enumerate(cases)))
    mlines = []
    for case in cases:
        tk = " | ".join(" ".join(toks(t)) for t in case["tasks"])
        mlines += model_cfg(case["opts"]) + ["RUNM %s %s" % (c, tk) for c in COMMANDS]
    mout = [l for l in C.run_model("C07", mlines) if l.strip() != "ok"]
    for k, (case, im) in enumerate(zip(cases, impl)):
        case["impl"] = im
        case["model"] = {c: ([] if mout[k * len(COMMANDS) + j].strip() == "-" else mout[k * len(COMMANDS) + j].split())
                         for j, c in enumerate(COMMANDS)}
    return cases


def by_task(tokens):
    out = {}
    for t in tokens:
        out.setdefault(t.split("/")[0], []).append(t)
    return out


def assess_multi(case):
    o, im, mo = case["opts"], case["impl"], case["model"]
    mism, bad = [], []
    for cmd in COMMANDS:
        rc, parsed, err = im[cmd]
        if rc != 0:
            bad.append((cmd, "exit status %s: %s" % (rc, err[-200:])))
    if bad:
        return mism, bad
    if im["replay"][1] != mo["replay"]:
        mism.append(("replay", im["replay"][1][:14], mo["replay"][:14]))
    if im["script"][1] != mo["script"]:
        mism.append(("script", im["script"][1][:14], mo["script"][:14]))
    if im["dump"][1] != proj_calls(mo["dump"]):
        mism.append(("dump --chrome", im["dump"][1][:14], proj_calls(mo["dump"])[:14]))
    if im["dumpraw"][1] != proj_calls(mo["dumpraw"]):
        mism.append(("dump", im["dumpraw"][1][:14], proj_calls(mo["dumpraw"])[:14]))
    if im["report"][1] != proj_report(mo["report"]):
        mism.append(("report", im["report"][1], proj_report(mo["report"])))
    g = im["graph"][1]
    if isinstance(g, str) or g != proj_graph(mo["graph"]):
        mism.append(("graph", str(g)[:300], str(proj_graph(mo["graph"]))[:300]))
    ref = im["script"][1]
    if im["replay"][1] != ref:
        bad.append(("replay-vs-script", im["replay"][1][:14], ref[:14]))
    if im["dump"][1] != proj_calls(ref):
        bad.append(("dump--chrome-vs-script", im["dump"][1][:14], proj_calls(ref)[:14]))
    if im["report"][1] != proj_report(ref):
        bad.append(("report-vs-script", im["report"][1], proj_report(ref)))
    if not isinstance(g, str) and g != proj_graph(ref):
        bad.append(("graph-vs-script", str(g)[:300], str(proj_graph(ref))[:300]))
    # raw dump walks the files one after the other: comparable per task, and only when no global switch and no
    # look-ahead filter is involved
    if not has_switch(o) and not o.t and not o.C and not any(a == "time" for _, acts in o.T for a, _ in acts):
        if by_task(im["dumpraw"][1]) != by_task(proj_calls(ref)):
            bad.append(("dump-vs-script", im["dumpraw"][1][:14], proj_calls(ref)[:14]))
    return mism, bad


# ---------------------------------------------------------------- run -----------------
def probe_cases():
    """hand-made cases that always run first (corpus): the minimal input of finding F-C07-NOLIBCALL, the -t
    boundary at replay time, a -F below a -N, depth= and time= triggers, trace_off/trace_on, -r cut, -C"""
    P = []

    def add(tok, **kw):
        o = ROpts()
        for k, v in kw.items():
            setattr(o, k, v)
        P.append({"recs": stream_recs(tok.split()), "opts": o})
    nest = "E:0:0:1000 E:1:1:1010 E:2:2:1020 X:2:2:1030 X:1:1:1040 X:0:0:1050"
    add(nest, D=2, no_libcall=True, plt=[1])
    add(nest, D=2, no_libcall=True, plt=[1], no_merge=True)
    add(nest, F=[1], no_libcall=True, plt=[1])
    add(nest, t=10)
    add(nest, t=11)
    add(nest, N=[1], F=[2])
    add(nest, T=[(1, [("depth", 1)])], D=1)
    add(nest, T=[(2, [("time", 1)])], t=100)
    add(nest, T=[(2, [("trace", None)])], t=100)
    add(nest, T=[(1, [("trace_off", None)]), (2, [("trace_on", None)])])
    add(nest, r=(1015, 1045))
    add(nest, C=[1])
    add(nest, H=[1], D=2)
    # tracing switched off inside a function that holds filter state (-F / -N match, -D budget, time= override), that
    # function returning while tracing is off, tracing switched on again later (seeded/C07-traceoff-exit-skips-restore):
    # f0 { f1 { f2 { f3 { f4 } } }  f5 { f6 }  f1 { f2 { f3 { f4 } } } }
    onoff = ("E:0:0:1000 E:1:1:1010 E:2:2:1020 E:3:3:1030 E:4:4:1040 X:4:4:1050 X:3:3:1060 X:2:2:1070 X:1:1:1080 "
             "E:1:5:1090 E:2:6:1100 X:2:6:1110 X:1:5:1120 "
             "E:1:1:1130 E:2:2:1140 E:3:3:1150 E:4:4:1160 X:4:4:1170 X:3:3:1180 X:2:2:1190 X:1:1:1200 X:0:0:1210")
    sw = [(3, [("trace_off", None)]), (5, [("trace_on", None)])]
    for nm in (False, True):
        add(onoff, T=sw, F=[1], no_merge=nm)
        add(onoff, T=sw, D=3, no_merge=nm)
        add(onoff, T=sw, N=[2], no_merge=nm)
        add(onoff, T=sw, F=[1], D=2, no_merge=nm)
        add(onoff, T=sw, F=[0, 2], D=2, no_merge=nm)
        add(onoff, T=sw, t=25, no_merge=nm)
        add(onoff, T=sw + [(2, [("time", 1)])], t=500, no_merge=nm)
        add(onoff, T=sw + [(2, [("depth", 1)])], no_merge=nm)
        add(onoff, T=sw, H=[2], D=3, no_merge=nm)
        add(onoff, T=sw, C=[6], no_merge=nm)
    add(onoff, T=[(5, [("trace_on", None)])], trace_off=True, F=[1])
    add(onoff, T=[(5, [("trace_on", None)])], trace_off=True, D=2)
    add(onoff, T=[(5, [("trace_on", None)]), (2, [("trace_off", None)])], trace_off=True, N=[3])
    add(onoff, T=[(4, [("trace_off", None)]), (6, [("trace_on", None)]), (2, [("trace_off", None)])], F=[5], D=3)
    add(onoff, T=[(3, [("trace_off", None)]), (4, [("trace_on", None)])], F=[1], D=3)       # off and on again inside one call
    add(onoff, T=[(1, [("trace_off", None), ("filter", None)]), (6, [("trace_on", None)])])
    add(onoff, T=[(2, [("trace_off", None), ("notrace", None)]), (5, [("trace_on", None)])], D=4)
    add(onoff, T=[(3, [("trace_off", None), ("depth", 1)]), (5, [("trace_on", None), ("depth", 1)])], D=4)
    return P


def run(ctx):
    ok, problems = C.prove(ctx, "C07")
    proof_broken = not ok
    okm, log = ctx.make()
    uft = os.path.join(ctx.src, "uftrace")
    if not okm or not os.path.exists(uft):
        C.violation(ctx, "build", {"kind": "harness-build-failed", "log": log[-3000:]}, True)
        return C.finish(ctx)
    rng = ctx.rng
    root = os.path.join(ctx.scratch, "dirs")
    os.makedirs(root, exist_ok=True)
    nforest = 110 if ctx.tier == "quick" else 4000
    cases = probe_cases()
    nprobe = len(cases)
    for i in range(nforest):
        full, _ = forest_recs(rng, ctx.tier)
        recs = full
        if rng.random() < 0.15 and len(recs) > 4:
            recs = recs[:rng.randint(len(recs) // 2, len(recs) - 1)]      # tracing stopped with calls still open
        times = sorted({r[3] for r in recs})
        present = {r[2] for r in recs}
        for k in range(3):
            cases.append({"recs": recs, "opts": rand_ropts(rng, times, core=(k == 0), present=present)})
        for k in range(2):
            cases.append({"recs": full, "opts": rand_switch_opts(rng, full), "switch": True})
    # -C f x -t / time= around the durations of f's calls (own generator state: the cases above stay what they were)
    crng = random.Random("C07-caller-time-%d" % ctx.seed)
    ctcases = caller_time_cases(crng, ctx.tier, 60 if ctx.tier == "quick" else 1500)
    cases += ctcases
    for i, c in enumerate(cases):
        c["idx"] = i
    evaluations = disagreements = monitor_fail = replays = 0
    distinct = set()
    dist = {k: 0 for k in ("core_option_sets", "with_F", "with_N", "with_C", "with_H", "with_D", "with_t", "with_T", "with_r",
                           "trace_off_start", "no_libcall_with_plt", "no_merge", "open_calls_at_end", "records")}
    sel = {"shows_everything": 0, "shows_nothing": 0, "shows_a_proper_part": 0, "folded_leaves": 0,
           "record_removed_by_time_filter": 0, "hidden_parent_shown_child": 0}
    variants = {"same": 0, "pre-fix": 0, "repaired": 0}
    swstat = {"switch_option_sets": 0, "return_while_off_then_on_again": 0, "of_those_with_F_N_D_t_H": 0,
              "failures_in_switch_class": 0}
    nolib_hits = []
    samples = []
    ctstat = {"cases": len(ctcases), "directed": sum(c["recs"] is CT_DIRECTED for c in ctcases),
              "a_call_of_the_C_function_runs_under_the_threshold": 0, "a_call_of_the_C_function_is_selected": 0,
              "with_time_trigger": 0, "failures": 0}
    ctrep = 0
    for lo in range(0, len(cases), 600):
        chunk = evaluate(ctx, uft, cases[lo:lo + 600], root)
        for case in chunk:
            o = case["opts"]
            evaluations += len(COMMANDS)
            distinct.add(hash((json.dumps(o.describe(), sort_keys=True), tuple(case["recs"]))))
            dist["core_option_sets"] += is_core(o)
            for k, v in (("with_F", o.F), ("with_N", o.N), ("with_C", o.C), ("with_H", o.H), ("with_D", o.D), ("with_t", o.t),
                         ("with_T", o.T), ("with_r", o.r), ("trace_off_start", o.trace_off),
                         ("no_libcall_with_plt", o.no_libcall and o.plt), ("no_merge", o.no_merge)):
                dist[k] += bool(v)
            dist["open_calls_at_end"] += not closed(case["recs"])
            dist["records"] += len(case["recs"])
            mism, bad, finding = assess(case)
            if has_switch(o):
                swstat["switch_option_sets"] += 1
                shp = off_on_shape(case["recs"], o)
                swstat["return_while_off_then_on_again"] += shp
                swstat["of_those_with_F_N_D_t_H"] += bool(shp and (o.F or o.N or o.D or o.t or o.H))
                swstat["failures_in_switch_class"] += bool(mism or bad)
            shown = case["impl"]["script"][1]
            nrec = len(case["recs"])
            sel["shows_everything"] += len(shown) == nrec
            sel["shows_nothing"] += len(shown) == 0
            sel["shows_a_proper_part"] += 0 < len(shown) < nrec
            sel["record_removed_by_time_filter"] += len(case["model"].get("la", [])) < nrec and not o.r
            ds = [int(t.split(":")[1]) for t in shown if t[0] == "E"]
            rd = {(t[2], t[3]): t[1] for t in case["recs"] if t[0] == "E"}
            sel["hidden_parent_shown_child"] += any(
                int(t.split(":")[1]) < rd.get((int(t.split(":")[2]), int(t.split(":")[3])), 0) for t in shown if t[0] == "E")
            variants[case.get("variant", "same")] += 1
            disagreements += bool(mism)
            monitor_fail += bool(bad)
            if finding:
                nolib_hits.append(case)
            if len(samples) < 3 and case["idx"] % 53 == 20:
                samples.append({"cli": cli_args(o), "records": toks(case["recs"])[:16], "replay_shows": case["impl"]["replay"][1][:10]})
            if case.get("family") == "caller-time":
                exp = doc_spec_caller(case["recs"], o)
                sel_c = sum(1 for t in exp if t[0] == "E" and int(t.split(":")[2]) in o.C)
                all_c = sum(1 for r in case["recs"] if r[0] == "E" and r[2] in o.C)
                ctstat["a_call_of_the_C_function_runs_under_the_threshold"] += sel_c < all_c
                ctstat["a_call_of_the_C_function_is_selected"] += sel_c > 0
                ctstat["with_time_trigger"] += bool(o.T)
                ctstat["failures"] += bool(mism or bad)
            ct_extra = case.get("family") == "caller-time" and bool(bad) and replays >= 3 and ctrep < 2
            ctrep += ct_extra
            if (mism or bad) and (replays < 3 or ct_extra):
                replays += 1
                C.violation(ctx, "case%d" % case["idx"], {
                    "kind": "property-violated-on-implementation" if bad else "model-code-disagreement",
                    "what": [list(map(str, b)) for b in bad], "model_vs_impl": [list(map(str, m)) for m in mism][:3],
                    "case": case_json(case), "model_input": model_queries(case)[0][:6],
                    "theorem": "c07_commands_agree / c07_replay_refines_spec (Props/C07.lean); correspondence Fstack",
                }, no_failing_input=not bad)
    # ---- several tasks: the trace switch is global
    nmulti = 45 if ctx.tier == "quick" else 2500
    mcases = []
    for i in range(nmulti):
        tasks = multi_tasks(rng)
        mcases.append({"tasks": tasks, "opts": multi_switch_opts(rng, tasks), "idx": len(mcases)})
        allr = [r for _, _, r in merged(tasks)]
        o2 = rand_ropts(rng, [], core=(i % 2 == 0), present={r[2] for r in allr})
        o2.plt, o2.no_libcall, o2.r = [], False, None
        mcases.append({"tasks": tasks, "opts": o2, "idx": len(mcases)})
    mstat = {"directories": 0, "tasks": 0, "switch_option_sets": 0, "failures": 0, "global_switch_crosses_tasks": 0}
    for lo in range(0, len(mcases), 600):
        for case in evaluate_multi(ctx, uft, mcases[lo:lo + 600], root):
            o = case["opts"]
            evaluations += len(COMMANDS)
            distinct.add(hash((json.dumps(o.describe(), sort_keys=True), str(case["tasks"]))))
            mstat["directories"] += 1
            mstat["tasks"] += len(case["tasks"])
            mstat["switch_option_sets"] += bool(has_switch(o))
            if has_switch(o):
                offf = {fn for fn, acts in o.T if any(a == "trace_off" for a, _ in acts)}
                owners = {i for i, t in enumerate(case["tasks"]) for r in t if r[2] in offf}
                mstat["global_switch_crosses_tasks"] += len(owners) < len(case["tasks"])
            mism, bad = assess_multi(case)
            disagreements += bool(mism)
            monitor_fail += bool(bad)
            mstat["failures"] += bool(mism or bad)
            if (mism or bad) and replays < 4:
                replays += 1
                C.violation(ctx, "multi%d" % case["idx"], {
                    "kind": "property-violated-on-implementation" if bad else "model-code-disagreement",
                    "what": [list(map(str, b)) for b in bad], "model_vs_impl": [list(map(str, m)) for m in mism][:3],
                    "tasks": [toks(t) for t in case["tasks"]], "opts": o.describe(), "cli": cli_args(o),
                    "theorem": "c07_commands_agree_traceoff (one task); several tasks: correspondence Fstack (cmdOutM)",
                }, no_failing_input=not bad)
    # ---- finding F-C07-NOLIBCALL (repaired in /repo; reported again if the tree under test behaves like the
    # pre-fix model): replay/script skipped a --no-libcall PLT record before the filters, the others after
    if nolib_hits:
        kf = [f for f in C.known_findings("C07") if f["id"] == FINDING_NOLIBCALL]
        what = ("--no-libcall: script and replay drop a PLT record before fstack_entry/fstack_exit, report/graph/dump "
                "(and replay's own fstack_skip) filter it and only hide it: with a call nested below a PLT function the "
                "commands show different calls")
        if kf:
            C.known(ctx, kf[0], FINDING_NOLIBCALL + " " + what)
        else:
            c0 = min(nolib_hits, key=lambda c: (len(c["recs"]), c["idx"]))
            monitor_fail += 1
            C.violation(ctx, "nolibcall", {
                "kind": "property-violated-on-implementation", "finding": FINDING_NOLIBCALL, "what": what,
                "disagreement": [list(map(str, d)) for d in c0["disagreement"]], "case": case_json(c0),
                "cases_with_this_shape": len(nolib_hits),
                "implementation_matches_pre_fix_model": True,
                "witness_theorem": "c07_nolibcall_disagree_witness", "proposed_fix": "proposed_fixes/C07-NOLIBCALL.diff",
                "theorem": "c07_commands_agree (needs --no-libcall off)"})
    # ---- record time vs replay time
    rvr_n = 40 if ctx.tier == "quick" else 1500
    s4 = [f for f in C.known_findings("C07") if f["id"] == "S4"]      # open only if the repair was taken out again
    jobs, log = record_vs_replay(ctx, uft, root, rvr_n)
    rvr = {"pairs": 0, "equal": 0, "boundary_cases": 0, "boundary_differs": 0, "filtered_something": 0,
           "trace_on_off_cases": 0, "trace_on_off_differs": 0}
    tof = [f for f in C.known_findings("C07") if f["id"] == "F-C07-TRACEOFF-FLUSH"]
    if jobs is None:
        C.violation(ctx, "build-h1", {"kind": "harness-build-failed", "log": log[-3000:]}, True)
    else:
        for ji, c in enumerate(jobs):
            rc, rep, err = c["replayed"]
            evaluations += 1
            rvr["pairs"] += 1
            rvr["filtered_something"] += 0 < len(c["recorded"]) < len(c["plain"])
            models_ok = c["impl_cmp"] == c["model_cmp"] and rep == c["replay_model"]
            if c["role"] == "boundary":
                rvr["boundary_cases"] += 1
            if c["role"] == "traceoff":
                rvr["trace_on_off_cases"] += 1
                rvr["trace_off_proved_class_cases"] = rvr.get("trace_off_proved_class_cases", 0) + bool(c.get("proved_class"))
            rvr["caller_x_time_cases"] = rvr.get("caller_x_time_cases", 0) + bool(c.get("caller_time"))
            if rc == 0 and rep == c["recorded"] and models_ok:
                rvr["equal"] += 1
                continue
            if c.get("caller_time") and rc == 0 and rep != c["recorded"]:
                pr = stream_recs(c["plain"])
                if closed(pr) and c["recorded"] == doc_spec_caller(pr, to_ropts(c["opts"])):
                    # the record-time trace is the documented selection of the unfiltered recording, replay shows other calls
                    monitor_fail += 1
                    rvr["caller_x_time_differs"] = rvr.get("caller_x_time_differs", 0) + 1
                    if rvr["caller_x_time_differs"] <= 2:
                        k = next((i for i, (a, b) in enumerate(zip(rep, c["recorded"])) if a != b), min(len(rep), len(c["recorded"])))
                        C.violation(ctx, "rvr%d" % ji, {
                            "kind": "property-violated-on-implementation",
                            "what": "recording with -C f -t T gives the documented selection of the unfiltered recording; replaying "
                                    "the unfiltered recording with -C f -t T shows different calls",
                            "case": {"recs": list(c["plain"]), "opts": to_ropts(c["opts"]).describe(),
                                     "cli": cli_args(to_ropts(c["opts"]))},
                            "env": mcgen.to_env(c["opts"]), "hook": c["kind"], "script": c["script"][:300],
                            "replay_args": cli_args(to_ropts(c["opts"])),
                            "first_difference": {"index": k, "recorded": c["recorded"][k:k + 4], "replayed": rep[k:k + 4]},
                            "fstack_model_agrees_with_replay": rep == c["replay_model"],
                            "theorem": "c07_record_eq_replay / c07_time_filter_spec (Props/C07.lean)"})
                    continue
            f7_shape = (c["role"] == "traceoff" and c["impl_cmp"] != c["model_cmp"] and
                        c.get("matches_prefix_F7_hook_model", False) and rc == 0 and rep == c["replay_model"])
            if f7_shape:
                # finding F-C07-TRACEOFF-FLUSH: libmcount behaves like the hook model with f7fixed=0 (and not like the repaired
                # one): a trace_off trigger that fires in a function rejected by the filters (or while this thread's
                # enable_cached is stale) does not write the pending ENTRY records of the open callers
                rvr["hooks_match_pre_F7_model"] = rvr.get("hooks_match_pre_F7_model", 0) + 1
                rvr["hooks_match_pre_F7_model_and_record_differs_from_replay"] = \
                    rvr.get("hooks_match_pre_F7_model_and_record_differs_from_replay", 0) + (rep != c["recorded"])
                if tof:
                    C.known(ctx, tof[0], "F-C07-TRACEOFF-FLUSH record -T f@trace_off loses the ENTRY records of the open "
                                         "callers when f itself is filtered out; replay with the same options shows them "
                                         "(libmcount matches the hook model with f7fixed=0)")
                    continue
                # not (or no longer) listed as open: the repair was taken out again
                monitor_fail += 1
                if replays < 5:
                    replays += 1
                    first = next((i for i, (a, b) in enumerate(zip(c["impl_cmp"], c["model_cmp"])) if a != b), None)
                    C.violation(ctx, "rvr%d" % ji, {
                        "kind": "property-violated-on-implementation", "finding": "F-C07-TRACEOFF-FLUSH",
                        "what": "record with a trace_off trigger on a function that the filters reject loses the ENTRY records "
                                "of the open callers; replaying the unfiltered recording with the same options shows them",
                        "implementation_matches_pre_fix_model": True, "pre_fix_model": "Mcount CFG f7fixed=0",
                        "witness_theorem": "c07_prefix_traceoff_flush_witness",
                        "theorem": "c07_record_eq_replay_traceoff / c07_traceoff_in_rejected_flushes / "
                                   "c07_record_eq_replay_traceoff_directed",
                        "proposed_fix": "proposed_fixes/C07-TRACEOFF-FLUSH.diff",
                        "env": mcgen.to_env(c["opts"]), "hook": c["kind"], "script": c["script"][:300],
                        "model_setup": c["model_setup"],
                        "first_line_difference": None if first is None else {
                            "line": first, "op": c["script"][first], "impl": c["impl_cmp"][first][-300:],
                            "repaired_model": c["model_cmp"][first][-300:]},
                        "replay_args": cli_args(to_ropts(c["opts"])), "recorded": c["recorded"][:30], "replayed": rep[:30]})
                continue
            if c["role"] == "traceoff" and rc == 0 and models_ok and not c.get("directed"):
                # random option sets with trace_on / trace_off at record time are outside the proved class
                # (c07_record_eq_replay is about -F/-N/-D/-t): the two times implement the switch differently by
                # construction (see ctx.assumptions); both sides match their models here; counted, first example kept
                rvr["trace_on_off_differs"] += 1
                rvr["trace_on_off_other_differences"] = rvr.get("trace_on_off_other_differences", 0) + 1
                rvr.setdefault("trace_on_off_other_example", {"record_env": mcgen.to_env(c["opts"]),
                                                              "recorded": c["recorded"][:14], "replayed": rep[:14]})
                continue
            s4_shape = (c["role"] == "boundary" and rc == 0 and rep == c["replay_model"] and
                        c.get("matches_prefix_S4_hook_model", False))
            if s4_shape:
                # a call ran exactly the threshold, replay keeps it, the hooks behave like the pre-fix model (`>`)
                rvr["boundary_differs"] += 1
                if s4:
                    C.known(ctx, s4[0], "S4 -t boundary: a call that runs exactly the threshold is dropped by record -t (>) and "
                                        "kept by replay -t (>=)")
                    continue
            if not models_ok and not s4_shape:
                disagreements += 1
            else:
                monitor_fail += 1
            if replays < 5:
                replays += 1
                k = next((i for i, (a, b) in enumerate(zip(rep, c["recorded"])) if a != b), min(len(rep), len(c["recorded"])))
                C.violation(ctx, "rvr%d" % ji, {
                    "kind": "property-violated-on-implementation" if (models_ok or s4_shape) else "model-code-disagreement",
                    "finding": "S4 (repaired in /repo): the implementation matches the pre-fix hook model" if s4_shape else None,
                    "what": "recording with the option and replaying the unfiltered recording with the option give different call trees",
                    "env": mcgen.to_env(c["opts"]), "hook": c["kind"], "script": c["script"][:300],
                    "replay_args": cli_args(to_ropts(c["opts"])), "rc": rc, "stderr": err[-300:],
                    "first_difference": {"index": k, "recorded": c["recorded"][k:k + 3], "replayed": rep[k:k + 3]},
                    "hook_model_agrees_with_libmcount": c["impl_cmp"] == c["model_cmp"],
                    "fstack_model_agrees_with_replay": rep == c["replay_model"],
                    "model_setup": c["model_setup"], "directed_trace_off_case": bool(c.get("directed")),
                    "theorem": ("c07_record_eq_replay_traceoff / c07_record_eq_replay_traceoff_directed / "
                                "c07_traceoff_in_rejected_flushes (witness of the pre-fix code: "
                                "c07_prefix_traceoff_flush_witness)") if c["role"] == "traceoff" else
                               "c07_record_eq_replay (witness of the pre-fix code: c07_time_boundary_witness)"},
                            no_failing_input=not (models_ok or s4_shape))
    if proof_broken:
        C.violation(ctx, "proof", {"kind": "proof-obligation-broken", "problems": problems,
                                   "searched": "%d command runs; monitor failures %d" % (evaluations, monitor_fail)},
                    no_failing_input=(monitor_fail == 0))
    ctx.coverage.update({
        "evaluations": evaluations, "distinct_nontrivial": len(distinct),
        "rule": "%d hand-made probe cases, then random call forests (lib/mcgen.rand_forest: <= 30 calls quick / 60 thorough, depth <= 6, "
                "recursion, 10%% zero-duration calls; 15%% cut with calls still open) over 9 functions, each with 3 option sets (1 core: "
                "-F/-N/-D/-t; 2 rich: plus -C, -H, -T depth=/time=/trace/filter/notrace/trace_on/trace_off/hide/caller, -r, --trace=off, "
                "--no-libcall with PLT symbols, --no-merge; 80%% of the option sets name only functions that occur in the trace), each "
                "analysed by replay, script, dump --chrome, report, graph and raw dump (6 runs). Then H1->H3: forests recorded by the "
                "real libmcount (-pg or -finstrument-functions hook) with and without -F/-N/-D/-t; the unfiltered recording is replayed "
                "with the option. Family -C f x -t / time=: a directed forest (calls of f of 0, 1, 5, 10, 30 ns at several depths, recursion) and "
                "random forests with thresholds one below / at / one above the durations of f's calls (as -t, as time= trigger on f or "
                "on an enclosing function, two -C functions), expected output = the documented selection (doc_spec_caller, checked "
                "against the Lean Fstack.spec), and the same option sets at record time (real libmcount) against replay of the "
                "unfiltered recording. distinct = distinct (options, records)" % nprobe,
        "input_distribution": dist, "trace_on_off_class": swstat, "several_tasks": mstat, "selection_outcomes": sel, "caller_filter_x_time_filter_family": ctstat,
        "nolibcall_model_variant_matched": variants,
        "model_code_disagreements": disagreements, "monitor_failures_on_impl": monitor_fail,
        "finding_nolibcall_cases": len(nolib_hits), "record_vs_replay": rvr, "samples": samples, "exhaustive": False,
    })
    ctx.assumptions += [
        "one task, user ENTRY/EXIT records, absolute -r time stamps; regex patterns anchored on whole names",
        "report/graph are compared on call counts / the call-graph shape they print, dump on (type, function, time), replay and "
        "script on (type, display depth, function, time); report/graph/dump --chrome are not compared on traces that end with open "
        "calls or are cut by -r (their 'remaining functions' accounting ignores the filters: C08/C15 territory)",
        "raw `uftrace dump` reads the task files without the look-ahead, so -t / time= / -C do not apply to it (modelled as coded, "
        "theorem c07_dumpraw_agrees has the hypothesis); it is compared with the other commands only without those options",
        "record-vs-replay with trace_on/trace_off triggers: the hook model has the repair of finding F-C07-TRACEOFF-FLUSH (Cfg.f7fixed: "
        "the pending ENTRY records of the open callers are written at the TRACE_OFF update of mcount_entry_filter_check, so also when "
        "the function that switches tracing off is itself rejected by the filters; theorems c07_traceoff_in_rejected_flushes, "
        "c07_prefix_traceoff_flush_witness, c07_record_eq_replay_traceoff, c07_record_eq_replay_traceoff_directed). Both sides always have to match their Lean models; "
        "a libmcount that matches the hook model with f7fixed=0 instead is reported as that finding (KNOWN-FINDING while it is listed "
        "open in known_findings.json, VIOLATION with the concrete case otherwise). On the directed cases (f0{f1{f2{f3{f4}}} f5{f6} "
        "f1{f2{f3{f4}}}} with -T f3@trace_off -T f5@trace_on and -D 2/3/4, none, f1@depth=2, -F f1 -D 2) the recorded stream must equal "
        "the replayed one, and so it must for random option sets of the class of theorem c07_record_eq_replay_traceoff (-F/-N/-D "
        "with trace_off triggers on functions that are not -N functions, no trace_on, no -t; both times show the documented "
        "selection up to the first trace_off trigger that is reached). Other random option sets with trace switches are outside "
        "the proved classes (c07_record_eq_replay: -F/-N/-D/-t); "
        "their differences follow from how the two times implement the switch and are counted (trace_on_off_other_differences), not "
        "failed: (a) libmcount/mcount.c mcount_entry_filter_check() does filter.depth++ for every call, also while mcount_enabled is "
        "false (the frame is only tagged DISABLED later), whereas utils/fstack.c fstack_entry() returns at `!fstack_enabled` before "
        "`filter.depth--`, so calls entered while tracing is off use up the -D budget at record time only; (b) fstack_entry() "
        "returns at a FILTER_MODE_OUT match before it looks at TRACE_ON/TRACE_OFF, mcount_entry_filter_check() applies them, so a "
        "trace switch on a -N function works at record time only; (c) a frame entered while tracing was off is DISABLED for good "
        "at record time (its ENTRY is never written), while replay prints its EXIT once tracing is on again (fstack.c: 'don't set "
        "NORECORD flag so that it can be printed when trace-on again'); (d) with -t the ENTRY records flushed at trace_off belong to "
        "calls whose duration is not known yet, replay's look-ahead drops them if they turn out short; doc/uftrace-record.md and "
        "uftrace-replay.md describe trace_on / trace_off only as 'start / stop tracing' and do not define these combinations",
        "record-vs-replay, -t boundary: finding S4 is repaired in /repo (both times keep a call that ran at least the threshold; "
        "theorem c07_record_eq_replay holds for every threshold, c07_time_boundary_witness shows the old behaviour). -t values equal "
        "to call durations are generated on purpose; a tree whose hooks behave like the pre-fix hook model (`>`) is reported as a "
        "VIOLATION with the failing input (KNOWN-FINDING only if S4 is listed as open again)",
    ]
    ctx.notes += [
        "`uftrace graph -D n` synthesizes the trigger '_start@depth=n'; when the symbol table has no _start the filter setup is "
        "abandoned half-way and -C/-H are silently ignored (the synthetic program therefore has a _start symbol)",
    ]
    return C.finish(ctx)


def replay_record_side(ctx, j):
    """a record-vs-replay case (H1): run the stored hook script on the real libmcount of the current tree and on the
    hook model, repaired (f7fixed=1, the default) and pre-fix (f7fixed=0)"""
    ctx.snapshot()
    exe, log = h1.build(ctx, "normal")
    if not exe:
        print("replay: harness build failed\n" + log[-2000:])
        return 1
    sizes = mcheck.sym_sizes(exe)
    r = h1.run(ctx, exe, dict(j.get("env", {}), UFTRACE_BUFFER="1048576"), j["script"], 0)
    impl = [mcheck.strip_obs(x, False) for x in mcheck.impl_lines(r, sizes, False)]
    outs = {}
    for tag, token in (("repaired (f7fixed=1)", ""), ("pre-fix (f7fixed=0)", " f7fixed=0")):
        pre = ["RESET"] + list(j["model_setup"])
        pre[1] += token
        mo = C.run_model("Mcount", pre + j["script"])
        outs[tag] = [mcheck.strip_obs(C.norm(x), False) for x in mo[len(pre):len(pre) + len(j["script"])]]
    for tag, m in outs.items():
        first = next((i for i, (a, b) in enumerate(zip(impl, m)) if a != b), None)
        print("libmcount vs hook model %s: %s" % (tag, "equal" if impl == m else "differs at line %s (%s): impl %s / model %s" % (
            first, j["script"][first] if first is not None else "-", impl[first][-200:] if first is not None else "-",
            m[first][-200:] if first is not None else "-")))
    print("recorded stream:", " ".join(mcheck.stream(impl)))
    ok = impl == outs["repaired (f7fixed=1)"]
    print("replay: %s" % ("libmcount matches the repaired hook model on the current tree" if ok else "reproduced"))
    return 0 if ok else 1


def replay(ctx, path):
    j = json.load(open(path))
    print(json.dumps(j, indent=1)[:6000])
    if "case" not in j and "model_setup" in j and "script" in j:
        return replay_record_side(ctx, j)
    if "case" not in j:
        return 0
    okm, log = ctx.make()
    uft = os.path.join(ctx.src, "uftrace")
    case = {"recs": stream_recs(j["case"]["recs"]), "opts": ROpts.from_json(j["case"]["opts"]), "idx": 0}
    root = os.path.join(ctx.scratch, "dirs")
    os.makedirs(root, exist_ok=True)
    evaluate(ctx, uft, [case], root)
    mism, bad, finding = assess(case)
    print("model/code mismatches:", mism)
    print("property failures:", bad)
    print("finding:", finding, case.get("disagreement"))
    return 1 if (mism or bad or finding) else 0
