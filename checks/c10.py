"""C10 — Recorded addresses resolve to the right symbol, module and session.
Lean: Uft/Model/{Symtab,SymFile,Session}.lean, Uft/Props/C10.lean.
Tie: correspondence (H4): the real load_module_symbol_file / save_module_symbol_file /
find_sym / find_symtabs (utils/symbol.c), create_session / create_task / find_task_session /
session_add_dlopen / session_find_dlsym / task_find_sym_addr (utils/session.c) and the
task.txt writer+reader (utils/data-file.c), compiled from the scratch snapshot, run on
generated .sym texts, tables and session timelines against the Lean model; plus monitors
that evaluate the property itself (brute-force containment, round trip, ASLR independence,
session/dlopen ground truth known to the generator) on the implementation's output.

Record-time side (Uft/Model/DlRecord.lean, libmcount/wrap.c): e2e (H5).  Script-driven programs
(harness/c10_dl_main.c + plugin libraries built from harness/c10_dl_plug.c: traced constructors
and destructors, a dependency, a constructor that calls dlopen() itself, same basename in two
directories, basename-prefix pairs) run generated dlopen/dlsym/dlclose timelines under the
snapshot's `uftrace record`; the loader's list is logged by harness/c10_dl_log.c after every
operation.  (a) The DLOP lines of task.txt and the library every record is shown in are compared
with the model's `dlrec` output for the same event history; (b) monitor: every record made inside
a dlopen'ed object -- also while dlopen() is still running -- is shown by `uftrace replay` under
the name `nm` gives for that address in that object and under the object's module name, and no
DLOP timestamp is later than a record made in the object.  The check finds out (probe timelines)
whether the tree has the C10-DLREPORT repair and compares with that variant of the model; the
as-coded variant is reported as finding C10-DLREPORT (KNOWN-FINDING if listed open in
known_findings.json, a VIOLATION otherwise); any other failure is a VIOLATION of its own."""
import hashlib
import json
import os
import random
import re
import shutil
import struct
import subprocess
from concurrent.futures import ThreadPoolExecutor

from lib import common as C

U64 = 1 << 64
U32 = 1 << 32
SYMEND = ("__sym_end", "__dynsym_end", "__func_end")
ALLOWED = "TtwPKDdvu"          # without '?'
UTIL_SRCS = ["debug", "utils", "rbtree", "demangle", "symbol-libelf", "dwarf", "filter", "argspec",
             "auto-args", "regs", "data-file"]


def hx(b):
    if isinstance(b, str):
        b = b.encode("latin-1")
    return b.hex() if b else "-"


def unhx(s):
    return b"" if s == "-" else bytes.fromhex(s)


# ---- symbols / tables as python values ------------------------------------------------
def sym_tok(s):
    return "%x:%x:%x:%s" % (s[0], s[1], ord(s[2]), hx(s[3]))


def parse_sym(tok):
    if tok == "-":
        return None
    a, sz, t, n = tok.split(":")
    return (int(a, 16), int(sz, 16), chr(int(t, 16)), unhx(n).decode("latin-1"))


def parse_table(s):
    return [parse_sym(t) for t in s.split() if t != "-"]


def stop(s):
    return (s[0] + s[1]) % U64


def contains(s, a):
    return s[0] <= a < stop(s)


def well_formed(t):
    """WellFormed of Lemmas/Symtab.lean, evaluated independently on a table."""
    for i in range(len(t)):
        for j in range(i + 1, len(t)):
            x, y = t[i], t[j]
            if not (x[0] <= y[0] and (stop(x) <= y[0] or (x[0] == y[0] and stop(x) == stop(y)))):
                return False
    return True


def brute_find(t, a):
    """all symbols that contain a (the specification of find_sym on a table)"""
    return [s for s in t if contains(s, a)]


def roundtrip_pre(t):
    """premises of c10_load_save"""
    for i, s in enumerate(t):
        if s[1] == 0 or s[1] >= 0xa0000000 or s[2] not in ALLOWED:
            return False
        if s[3] in SYMEND or "\t" in s[3] or "\n" in s[3] or "\0" in s[3] or needs_demangle(s[3]):
            return False
        if i and (t[i - 1][0], t[i - 1][2]) == (s[0], s[2]):
            return False
        if i and t[i - 1][0] > s[0]:
            return False
    return True


def needs_demangle(n):
    if n.startswith("_GLOBAL__sub_I_"):
        n = n[15:]
    return n.startswith("_Z") or n.startswith("_R")


# ---- generators --------------------------------------------------------------------------
NAMES = ["main", "foo", "bar", "_start", "a", "b", "c", "operator new", "ns::cls::method", "x.part.0",
         "SyS_read", "sys_read", "__ia32_sys_open", "__x64_sys_open", "__libc_start_main", "f(int, char*)",
         "_init", "_fini", "frame_dummy", "puts", "malloc", "free", "z9", "Q", "_", "__x64", "sys_"]


def rand_name(rng):
    r = rng.random()
    if r < 0.8:
        return rng.choice(NAMES)
    return "".join(rng.choice("abcxyz_.:<> 019") for _ in range(rng.randint(1, 8))).strip() or "n"


def rand_table(rng, kind=None, maxn=12):
    """structured table: list of (addr, size, type, name); relative addresses."""
    kind = kind or rng.choice(["adjacent", "gaps", "zero", "dups", "overlap", "mixed", "mixed", "tiny"])
    n = rng.randint(0, 2) if kind == "tiny" else rng.randint(2, maxn)
    t = []
    addr = rng.choice([0, 0x100, 0x1000, 0x400000, rng.randrange(1 << 20) * 16])
    for _ in range(n):
        size = rng.choice([1, 2, 8, 0x10, 0x20, 0x100, rng.randint(1, 0x400)])
        ty = rng.choice("TTTTttwPPDdvu")
        name = rand_name(rng)
        k = kind if kind != "mixed" else rng.choice(["adjacent", "gaps", "zero", "dups", "overlap"])
        if k == "zero" and rng.random() < 0.4:
            size = 0
        t.append((addr, size, ty, name))
        if k == "adjacent":
            addr += size
        elif k == "gaps" or k == "tiny":
            addr += size + rng.choice([0, 1, 7, 0x100])
        elif k == "zero":
            addr += rng.choice([size, size + 8, 0x10, 0])
        elif k == "dups":
            r = rng.random()
            if r < 0.3:
                t.append((addr, size, ty, rand_name(rng)))           # same addr, same type
            elif r < 0.5:
                t.append((addr, size, rng.choice("tTw"), rand_name(rng)))   # alias, same range
            elif r < 0.6:
                t.append((addr, rng.choice([0, size + 4]), rng.choice("tTwD"), rand_name(rng)))
            addr += size + rng.choice([0, 4])
        elif k == "overlap":
            r = rng.random()
            if r < 0.4:
                addr += max(1, size // 2)       # next starts inside this one
            else:
                addr += size + rng.choice([0, 3])
    return t


def render_text(rng, t, style=None):
    """.sym text for a structured table in one of the on-disk variants."""
    style = style or rng.choice(["new", "new", "old", "mix", "messy"])
    lines = []
    shuffled = list(t)
    if rng.random() < 0.35:
        rng.shuffle(shuffled)                   # unsorted on disk
    plain_first = None
    for s in shuffled:
        if s[2] in ALLOWED and s[3] not in SYMEND:
            plain_first = s
            break
    body = []
    for s in shuffled:
        addr, size, ty, name = s
        st = style if style not in ("mix", "messy") else rng.choice(["new", "old", "old", "newshort"])
        if st == "new":
            l = "%016x %08x %c %s" % (addr, size, ty, name)
        elif st == "newshort":
            l = "%x %x %c %s" % (addr, size, ty, name)
        else:
            l = rng.choice(["%016x %c %s", "%x %c %s", "%08x %c %s"]) % (addr, ty, name)
        if style == "messy":
            r = rng.random()
            if r < 0.08:
                l = l.upper() if rng.random() < 0.5 else "0x" + l
            elif r < 0.14:
                l = rng.choice([" ", "\t", "  "]) + l
            elif r < 0.2:
                l = l + "\t[btrfs]"
            elif r < 0.24:
                l = l + "\r"
        body.append((s, l))
    if plain_first is not None:
        # the first accepted line must be a real symbol (see the model's header comment:
        # a marker/duplicate line before any symbol makes the C code touch sym[-1])
        for i, (s, l) in enumerate(body):
            if s is plain_first:
                body.insert(0, body.pop(i))
                a, sz, ty, nm = s
                body[0] = (s, "%016x %08x %c %s" % (a, sz, ty, nm) if style in ("new", "mix") else
                           "%016x %c %s" % (a, ty, nm))
                break
    if style in ("new", "mix") or rng.random() < 0.3:
        lines.append("# symbols: %d" % len(t))
        if rng.random() < 0.7:
            lines.append("# path name: /nonexistent-c10/libgen.so")
        if rng.random() < 0.3:
            lines.append("# build-id: 1234abcd")
    for i, (s, l) in enumerate(body):
        lines.append(l)
        if style == "messy" and i > 0:
            r = rng.random()
            if r < 0.05:
                lines.append(rng.choice(["", "garbage", "12345", "zz T name", "400 T", "400 Tname",
                                         "400  T x", "# a comment", "1000", "1000 10", "400 1g T q",
                                         "+400 T plus", "-1 T minus", "0x T zerox",
                                         "12345678901234567890 T overflow"]))
            elif r < 0.09:
                lines.append("%x %c %s" % (s[0], rng.choice("AbBrRnN"), "nottext"))      # filtered type
            elif r < 0.13:
                lines.append("%x %c %s" % (s[0] + s[1], rng.choice("?T"), rng.choice(SYMEND)))  # marker
            elif r < 0.16:
                lines.append("%x ? unknown" % (s[0] + s[1] + 4))
    if rng.random() < 0.5 and t:
        last = max(t, key=lambda s: s[0])
        lines.append("%016x %c %s" % ((last[0] + max(last[1], 0x10)) % U64, rng.choice("T?"), "__sym_end"))
    text = "\n".join(lines)
    if rng.random() < 0.9:
        text += "\n"
    return text


def special_texts():
    """hand-made texts for the corner cases named in the property"""
    return [
        # the repo's own unit-test tables
        "00000100 P printf\n00000200 P __dynsym_end\n00000300 T _start\n00000400 T main\n00000500 T __sym_end\n",
        "0100 P __tls_get_addr\n0200 P __dynsym_end\n0300 T _start\n0400 T foo\n0500 T __sym_end\n",
        # adjacent, new format
        "# symbols: 3\n0000000000001000 00000010 T a\n0000000000001010 00000010 T b\n0000000000001020 00000001 t c\n",
        # zero size at the end stays zero; zero size before same address stays zero
        "1000 00000000 T a\n1000 00000000 t a2\n2000 00000010 T c\n3000 00000000 T last\n",
        # duplicate (addr,type) dropped, SyS_ and __ia32 renames
        "ffffffff81000000 T SyS_read\nffffffff81000000 T sys_read\nffffffff81000100 T __ia32_sys_open\n"
        "ffffffff81000100 T __x64_sys_open\nffffffff81000200 T __sym_end\n",
        # unsorted on disk, old format: back-fill wraps
        "0000000000000400 T main\n300 T _start\n0500 T __sym_end\n0500 00000010 t foo\n0500 t foo2\n",
        # properly overlapping
        "1000 00000100 T big\n1080 00000010 t inner\n1100 00000010 T next\n",
        # zero-size inside another symbol (the overlap witness of the theorems)
        "0010 00000020 T outer\n0018 00000000 t mid\n0040 00000008 T next\n",
        # kernel style with module suffix and filtered types
        "ffffffffa0000000 t btrfs_end\t[btrfs]\nffffffffa0000040 b some_bss\t[btrfs]\nffffffffa0000080 T btrfs_x\t[btrfs]\n"
        "ffffffffa0000100 ? end\n",
        # size field whose first digit is a letter is taken for the type (line dropped)
        "1000 a0 T lettersize\n2000 10 T ok\n",
        # empty / only comments
        "", "# symbols: 0\n", "\n\n",
        # no trailing newline
        "1000 00000010 T a\n1010 00000010 T b",
        # wrap of addr + size
        "ffffffffffffff00 00000200 T wrap\nffffffffffffff80 00000010 T in\n",
    ]


def gen_lf_case(rng, text=None):
    if text is None:
        text = render_text(rng, rand_table(rng))
    off = rng.choice([0, 0, 0, 0x1000, 0x400000, 0x7f1234560000, U64 - 0x100])
    path = rng.choice(["/nonexistent-c10/liba.so", "/x/y z/prog", "prog"])
    bid = rng.choice(["", "", "0123456789abcdef0123456789abcdef01234567"])
    extra = [rng.randrange(0, 0x2000), rng.randrange(U64), U64 - 1]
    return "lf %x %s %s %s | %s" % (off, hx(text), hx(path), hx(bid), " ".join("%x" % a for a in extra))


def gen_sv_case(rng):
    kind = rng.choice(["adjacent", "gaps", "gaps", "zero", "dups", "overlap", "mixed"])
    t = rand_table(rng, kind)
    off = rng.choice([0, 0, 0x1000, 0x555555554000])
    t = [((a + off) % U64, sz, ty, nm) for (a, sz, ty, nm) in t]
    r = rng.random()
    if r < 0.15:
        rng.shuffle(t)                     # arbitrary order: bsearch on a non-sorted array
    elif r < 0.25 and t:
        i = rng.randrange(len(t))
        t[i] = (t[i][0], rng.choice([0x9fffffff, 0xa0000000, 0xffffffff, 0x10000000]), t[i][2], t[i][3])
    if len(t) > 1 and rng.random() < 0.2:
        # a marker name inside an in-memory table (find_sym hides it); never the first entry:
        # a marker line before any symbol followed by the same (addr,type) makes the loader
        # touch sym[-1] (see the assumptions)
        i = rng.randrange(1, len(t))
        t[i] = (t[i][0], t[i][1], t[i][2], rng.choice(SYMEND))
    addrs = set()
    for s in t:
        for a in (s[0] - 1, s[0], s[0] + s[1] // 2, s[0] + s[1] - 1, s[0] + s[1], s[0] + s[1] + 1):
            addrs.add(a % U64)
    addrs = sorted(addrs)
    if len(addrs) > 40:
        addrs = rng.sample(addrs, 40)
    path = rng.choice(["/nonexistent-c10/liba.so", "a b/c"])
    bid = rng.choice(["", "abcd"])
    return "sv %x %s %s | %s | %s" % (off, hx(path), hx(bid), " ".join(sym_tok(s) for s in t) or "-",
                                      " ".join("%x" % a for a in addrs))


def clean_table(rng, n=None, spread=False):
    """well-formed table with non-zero sizes (what ELF loading produces)"""
    n = n or rng.randint(2, 8)
    t = []
    addr = rng.choice([0x100, 0x1000, 0x400]) if not spread else rng.choice([0x40, 0x100])
    for i in range(n):
        size = rng.choice([1, 4, 0x10, 0x40, 0x100])
        name = "f%d_%s" % (i, rng.choice(["a", "b", "init", "x y"]))
        t.append((addr, size, rng.choice("TtPw"), name))
        addr += size + rng.choice([0, 0, 1, 0x20] + ([0x300, 0x700] if spread else []))
    return t


def path_csum(path):
    """make_new_symbol_filename(): uint16_t sum of the path's bytes"""
    return sum(path.encode()) & 0xffff


def sym_names(path, bid):
    """(primary, alternative) symbol file name of a module as record names them"""
    base = path.rsplit("/", 1)[-1]
    return base + ".sym", "%s-%s.sym" % (base, bid[:4] if bid else "%04x" % path_csum(path))


def gen_install_plan(rng, ws):
    """Modules = installations of a few binaries: the same binary (same table, same build-id or
    none) under several path names, different binaries under one base name, in any saving order.
    Everything the writer and the reader of the symbol files have to agree on, within the
    hypotheses of c10_symfile_writer_reader_agree (a path names one binary; alternative file
    names collide only for installations of one binary; with --with-syms every binary has a
    build-id).  Returns [(path, bid, table)]."""
    plugins = (not ws) and rng.random() < 0.3
    while True:
        nbin = rng.randint(2, 4) if plugins else rng.randint(1, 3)
        bins = []
        seen = set()
        for b in range(nbin):
            while True:
                bid = "" if (plugins or (not ws and rng.random() < 0.3)) else "%040x" % rng.getrandbits(160)
                if not bid or bid[:4] not in seen:
                    break
            seen.add(bid[:4])
            bins.append((bid, clean_table(rng, spread=True)))
        bases = rng.choice([["stage"], ["libsame.so"], ["stage", "libsame.so"], ["tool", "tool-1"]])
        if plugins:
            # per-worker plugin directories: different libraries (no build-id) with one file name
            bases = ["plugin.so"]
        plan = []
        for m in range(rng.randint(2, 5)):
            b = rng.randrange(nbin) if (plugins or rng.random() < 0.5) else 0
            d = rng.choice(["v%d" % (m + 1), "opt/v%d/bin" % (m + 1), "w%d" % (m + 1)])
            plan.append(("/nonexistent-c10/%s/%s" % (d, rng.choice(bases)), bins[b][0], bins[b][1]))
        # hypotheses: no alternative name is another module's primary name, and two modules get
        # the same alternative name only when they are the same binary by build-id or the same path
        ok = True
        for (p1, b1, t1) in plan:
            for (p2, b2, t2) in plan:
                if sym_names(p1, b1)[1] == sym_names(p2, b2)[0]:
                    ok = False
                if sym_names(p1, b1)[1] == sym_names(p2, b2)[1] and not (p1 == p2 or (b1 and b1 == b2)):
                    ok = False
                if p1 == p2 and (b1, t1) != (b2, t2):
                    ok = False
        if ok:
            return plan


def inst_stats(scen):
    """how many timelines save one build-id under two path names with the same base name"""
    n = 0
    for c in scen:
        seen = {}
        hit = False
        for op in c.split("|"):
            w = op.split()
            if w and w[0] == "MODS" and w[3] != "-":
                path = unhx(w[2]).decode()
                key = (path.rsplit("/", 1)[-1], w[3])
                if key in seen and seen[key] != path:
                    hit = True
                seen.setdefault(key, path)
        n += hit
    return n


def gen_scenario(rng, strict_times=True, installs=False):
    """Session/task/dlopen timeline.  Returns (case line, expectations) where expectations
    is a list parallel to the query ops: None or the expected result string (ground truth
    known by construction).  `installs`: the modules come from gen_install_plan (own random
    stream of the caller)."""
    ops = []
    mods = {}
    if installs:
        ws = rng.random() < 0.3
        ops.append("WS %d" % ws)
        plan = gen_install_plan(rng, ws)
        nmods = len(plan)
        for m, (path, bid, t) in enumerate(plan, 1):
            mods[m] = t
            ops.append("MODS %x %s %s %s" % (m, hx(path), hx(bid), " ".join(sym_tok(s) for s in t)))
        # libraries that can also come in through dlopen(): the reader has no build-id for those
        # (DLOP lines carry none), so only build-id-less files are told apart by their path name
        dl_ok = [m for m, (path, bid, t) in enumerate(plan, 1) if not ws and not bid]
        return gen_timeline(rng, strict_times, ops, mods, nmods, dl_ok, siblings=True)
    nmods = rng.randint(2, 4)
    # symbol directory separate from the data directory (--with-syms)?
    ws = rng.random() < 0.45
    ops.append("WS %d" % ws)
    # which modules share a basename (different directories, different build-ids)
    shared = set()
    if rng.random() < 0.6:
        shared = set(rng.sample(range(1, nmods + 1), rng.randint(2, nmods)))
    if strict_times:
        # combinations in which every module has its own symbol file and the loader can tell them
        # apart: with --with-syms only the build-id distinguishes same-named modules
        shared_bids = "all" if ws else rng.choice(["all", "none"])
    else:
        shared_bids = rng.choice(["all", "none", "mixed", "sameprefix"])
    used_prefix = set()

    def fresh_bid():
        while True:
            b = "%040x" % rng.getrandbits(160)
            if b[:4] not in used_prefix:
                used_prefix.add(b[:4])
                return b

    common = fresh_bid()
    dl_ok = []
    for m in range(1, nmods + 1):
        t = clean_table(rng, spread=True)      # symbols spread over several 0x1000 segments
        mods[m] = t
        if m in shared:
            path = "/nonexistent-c10/d%d/libsame.so" % m
            if shared_bids == "all":
                bid = fresh_bid()
            elif shared_bids == "none":
                bid = ""
            elif shared_bids == "mixed":
                bid = rng.choice(["", fresh_bid()])
            else:
                bid = common[:4] + ("%036x" % rng.getrandbits(144))
            ops.append("MODS %x %s %s %s" % (m, hx(path), hx(bid), " ".join(sym_tok(s) for s in t)))
            if not strict_times:
                dl_ok.append(m)
        elif rng.random() < 0.5:
            path = "/nonexistent-c10/d%d/lib%d.so" % (m, m)
            bid = rng.choice(["", fresh_bid()])
            ops.append("MODS %x %s %s %s" % (m, hx(path), hx(bid), " ".join(sym_tok(s) for s in t)))
            dl_ok.append(m)
        else:
            text = "".join("%016x %08x %c %s\n" % s for s in t)
            ops.append("MODT %x %s" % (m, hx(text)))
            dl_ok.append(m)
    return gen_timeline(rng, strict_times, ops, mods, nmods, dl_ok)


def gen_timeline(rng, strict_times, ops, mods, nmods, dl_ok, siblings=False):
    """second half of gen_scenario: sessions, tasks, dlopens and the queries over `mods`"""
    span = 0x1000
    time = [rng.randint(1, 1000)]

    def tick():
        if strict_times or rng.random() < 0.7:
            time[0] += rng.randint(1, 500)
        return time[0]

    sessions = {}        # sid -> dict(maps=[(start,end,mod)], dl=[(time,base,mod)], stack)
    hist = {}            # tid -> list of (time, sid)
    procs = {}           # pid -> current sid
    nsid = [0]

    def new_session(pid, t):
        nsid[0] += 1
        sid = nsid[0]
        base = rng.choice([0x400000, 0x555555554000, 0x7f0000000000]) + rng.randrange(16) * 0x100000
        maps = []
        ms = rng.sample(sorted(mods), rng.randint(1, nmods))
        for m in ms:
            for _seg in range(rng.choice([1, 1, 2, 3, 4])):     # segment lines of the same file
                maps.append((base, base + span, m))
                base += span
            base += rng.choice([0, 0x1000, 0x100000])
        stack = 0x7ffd00000000 + rng.randrange(256) * 0x1000
        sessions[sid] = {"maps": maps, "dl": [], "pid": pid}
        ops.append("S %x %x %x %x %s" % (sid, pid, t, stack, " ".join("%x:%x:%x" % mp for mp in maps)))
        return sid

    pid0 = rng.randint(2, 50)
    t0 = time[0]
    s0 = new_session(pid0, t0)
    ops.append("T %x %x %x" % (pid0, pid0, t0))
    procs[pid0] = s0
    hist[pid0] = [(t0, s0)]
    next_id = pid0 + 1
    for _ in range(rng.randint(2, 9)):
        r = rng.random()
        t = tick()
        if r < 0.25:                                  # new thread in some process
            pid = rng.choice(sorted(procs))
            tid = next_id
            next_id += 1
            ops.append("T %x %x %x" % (pid, tid, t))
            hist[tid] = [(t, procs[pid])]
        elif r < 0.5:                                 # fork
            ppid = rng.choice(sorted(procs))
            pid = next_id
            next_id += 1
            ops.append("F %x %x %x" % (ppid, pid, t))
            procs[pid] = procs[ppid]
            hist[pid] = [(t, procs[ppid])]
            if not strict_times and rng.random() < 0.4:
                # grandchild forked at the very same timestamp (no session has pid == its ppid)
                gpid = next_id
                next_id += 1
                ops.append("F %x %x %x" % (pid, gpid, t))
                procs[gpid] = procs[pid]
                hist[gpid] = [(t, procs[pid])]
        elif r < 0.75:                                # exec in some process
            pid = rng.choice(sorted(procs))
            sid = new_session(pid, t)
            ops.append("T %x %x %x" % (pid, pid, t))
            procs[pid] = sid
            hist[pid].append((t, sid))
        elif dl_ok:                                   # dlopen in some session
            sid = rng.choice(sorted(sessions))
            m = rng.choice(dl_ok)
            olddl = sessions[sid]["dl"]
            if siblings and olddl and rng.random() < 0.5:
                # another process of the session (forked: same layout) opens its own library of that
                # name, which the loader puts at the same address
                base = olddl[-1][1]
                other = [x for x in dl_ok if x != olddl[-1][2]]
                if other:
                    m = rng.choice(other)
            elif olddl and rng.random() < 0.4:
                base = olddl[-1][1]                   # reuse an address (dlclose + dlopen)
            else:
                base = 0x7e0000000000 + rng.randrange(64) * 0x100000
            if not strict_times and rng.random() < 0.3:
                t = rng.randint(1, t)                 # DLOP lines out of time order
            ops.append("D %x %x %x %x" % (sid, t, base, m))
            olddl.append((t, base, m))
            if not strict_times and rng.random() < 0.4:
                m2 = rng.choice(dl_ok)                # a second library, same time, same address
                ops.append("D %x %x %x %x" % (sid, t, base, m2))
                olddl.append((t, base, m2))
    tend = time[0] + 1000

    def expect_sym(sid, t, addr):
        s = sessions[sid]
        for (a, b, m) in merged_maps(s["maps"]):
            if a <= addr < b:
                c = [x for x in mods[m] if contains(x, addr - a)]
                if c:
                    return sym_tok(c[0])
                break
        for (dt, base, m) in [d for (_, d) in sorted(enumerate(s["dl"]), key=lambda e: (e[1][0], e[0]),
                                                     reverse=True)]:
            if dt > t:
                continue
            c = [x for x in mods[m] if contains(x, (addr - base) % U64)]
            if c:
                return sym_tok(c[0])
        return "-"

    queries = []
    expects = []
    tids = sorted(hist)
    for _ in range(rng.randint(8, 20)):
        tid = rng.choice(tids)
        h = hist[tid]
        t = rng.choice([h[0][0], h[-1][0], h[-1][0] - 1, rng.randint(h[0][0], tend), rng.randint(0, tend)])
        own = [sid for (ts, sid) in h if ts <= t]
        kind = rng.random()
        if kind < 0.2:
            queries.append("R %x %x" % (tid, t))
            expects.append("%x" % own[-1] if own and strict_times else None)
            continue
        sid = own[-1] if own else rng.choice(sorted(sessions))
        s = sessions[sid]
        # an address: inside a symbol of a mapped/dlopened module, a boundary, a gap, or unmapped
        r = rng.random()
        if r < 0.55 or not s["dl"]:
            a, b, m = rng.choice(s["maps"])
            a = [x for x in merged_maps(s["maps"]) if x[2] == m][0][0]
            base = a
        else:
            dt, base, m = rng.choice(s["dl"])
        f = rng.choice(mods[m])
        addr = base + rng.choice([f[0], f[0] + f[1] - 1, f[0] + f[1], f[0] + f[1] // 2, f[0] - 1, 0, 0xfff0])
        if rng.random() < 0.08:
            addr = rng.choice([0x10, 0x7f7f7f7f0000, 0xffffffff81000000])
        if kind < 0.55:
            queries.append("Q %x %x %x" % (tid, t, addr))
            if own and strict_times:
                expects.append("%x/%s" % (sid, expect_sym(sid, t, addr)))
            else:
                expects.append(None)
        elif kind < 0.8:
            queries.append("Y %x %x" % (sid, addr))
            expects.append(None)
        else:
            if s["dl"]:
                dt = rng.choice(s["dl"])[0]
                t = rng.choice([dt, dt - 1, dt + 1, t])
            queries.append("L %x %x %x" % (sid, max(t, 0), addr))
            expects.append(None)
    if siblings:
        # directed: a library that shares its load address with another one of the session is asked for
        # at its own load time and at the end (session_find_dlsym: the latest one loaded by then)
        for sid in sorted(sessions):
            dl = sessions[sid]["dl"]
            for (dt, base, m) in dl:
                if not any(b2 == base and m2 != m for (_, b2, m2) in dl):
                    continue
                f = rng.choice(mods[m])
                addr = base + f[0] + f[1] // 2
                for t in (dt, tend):
                    e = "-"
                    for (dt2, base2, m2) in sorted(dl, key=lambda x: x[0], reverse=True):
                        if dt2 <= t:
                            c = [x for x in mods[m2] if contains(x, (addr - base2) % U64)]
                            if c:
                                e = sym_tok(c[0])
                                break
                    queries.append("L %x %x %x" % (sid, t, addr))
                    expects.append(e)
    line = "scen | " + " | ".join(ops + queries)
    return line, expects


PROG_C = r"""
#include <stdio.h>
#include <stdlib.h>
extern int libfn(int);
extern int other(int);
static __attribute__((noinline)) int sfn(int x) { return x * 3; }
__attribute__((noinline)) int gfn(int x) { return sfn(x) + 1; }
__attribute__((noinline, weak)) int wfn(int x) { return x - 1; }
int main(int argc, char **argv) { printf("%d\\n", gfn(argc) + libfn(2) + wfn(3) + other(1)); return atoi("1") - 1; }
"""
OTHER_C = r"""
static __attribute__((noinline)) int sfn(int x) { return x * 5; }   /* same local name as in prog.c */
__attribute__((noinline)) int other(int x) { return sfn(x) + 2; }
int empty_obj[0];
"""
LIB_C = r"""
static __attribute__((noinline)) int helper(int x) { return x + 7; }
int libfn(int x) { return helper(x) * 2; }
int libfn_alias(int x) __attribute__((alias("libfn")));
int _libfn_under(int x) __attribute__((alias("libfn")));
"""


def read_elf_symbols(path):
    """(entries of .symtab or None, entries of .dynsym or None), each (value, size, info, shndx, name), in file order"""
    data = open(path, "rb").read()
    if data[:4] != b"\x7fELF" or data[4] != 2 or data[5] != 1:
        return None, None
    shoff = struct.unpack_from("<Q", data, 0x28)[0]
    shentsize, shnum, _ = struct.unpack_from("<HHH", data, 0x3a)
    secs = [struct.unpack_from("<IIQQQQIIQQ", data, shoff + i * shentsize) for i in range(shnum)]

    def table(ty):
        for sec in secs:
            if sec[1] == ty and sec[9]:
                strtab = secs[sec[6]]
                out = []
                for k in range(sec[5] // sec[9]):
                    nm_, info, _other, shndx, value, size = struct.unpack_from("<IBBHQQ", data, sec[4] + k * sec[9])
                    a = strtab[4] + nm_
                    out.append((value, size, info, shndx, data[a:data.index(b"\0", a)].decode("latin-1")))
                return out
        return None
    return table(2), table(11)


def elf_model_check(ctx, st, elf_cases, tables):
    """tie of Model/ElfSym.lean: the table load_module_symtab builds from a real ELF file against
    `elfload` (load_symtab: filter, skip aliases, sort, de-duplicate) on the file's symbol entries and
    `elfmerge` (merge_symtabs) with the PLT entries.  Names are compared where update_symtab_using_dynsym
    (renames only, not modelled) cannot have changed them.  Returns list of problems."""
    probs = []
    lines = []
    meta = []
    for case in elf_cases:
        path = unhx(case.split()[1]).decode()
        impl = tables.get(case)
        symtab, dynsym = read_elf_symbols(path)
        src = symtab if symtab is not None else dynsym
        if impl is None or src is None:
            continue
        # (a file without .symtab falls back to .dynsym: the harness is built without libdw, so elf_retry()
        # does not look for a separate debug file)
        lines.append("elfload 0 | " + (" ".join("%x:%x:%x:%x:%s" % (v, sz, inf, shx, hx(n)) for (v, sz, inf, shx, n) in src) or "-"))
        meta.append((case, path, impl, dynsym or []))
    if not lines:
        return probs
    outs = C.run_model("C10", lines)
    mlines = []
    for (case, path, impl, dynsym), out in zip(meta, outs):
        model = parse_table(out)
        plt = [x for x in impl if x[2] == "P"]
        mlines.append("elfmerge | %s | %s" % (" ".join(sym_tok(x) for x in model) or "-", " ".join(sym_tok(x) for x in plt) or "-"))
    outs2 = C.run_model("C10", mlines)
    for (case, path, impl, dynsym), out, out2 in zip(meta, outs, outs2):
        model = parse_table(out)
        st["elf_model_files"] += 1
        st["elf_model_symbols"] += len(model)
        own = [x for x in impl if x[2] != "P"]
        if [x[:3] for x in own] != [x[:3] for x in model]:
            a = {x[:3] for x in own}
            b = {x[:3] for x in model}
            probs.append({"what": "load_symtab table differs from the ElfSym model (elfload)", "file": path,
                          "only_impl": ["%x:%x:%s" % x for x in sorted(a - b)][:6],
                          "only_model": ["%x:%x:%s" % x for x in sorted(b - a)][:6],
                          "n_impl": len(own), "n_model": len(model)})
            continue
        dynvals = sorted(v for (v, sz, inf, shx, n) in dynsym if shx != 0 and (inf & 15) in (1, 2, 10))
        for x, y in zip(own, model):
            renamed = any(x[0] <= v < x[0] + x[1] for v in dynvals) if len(dynvals) < 64 else True
            if not renamed:
                st["elf_model_names_compared"] += 1
                if x[3] != y[3]:
                    probs.append({"what": "symbol name differs from the ElfSym model (sort_symtab name choice)",
                                  "file": path, "impl": sym_tok(x), "model": sym_tok(y)})
                    break
        merged = parse_table(out2)
        if [x[:3] for x in merged] != [x[:3] for x in impl]:
            probs.append({"what": "merge_symtabs result differs from the ElfSym model (elfmerge)", "file": path,
                          "n_impl": len(impl), "n_model": len(merged)})
    return probs


def build_elf_cases(ctx, st):
    """real ELF files -> `elf` cases with the addresses of their nm function symbols.
    Returns (cases, nm_info) with nm_info[case] = list of (addr, size, names)."""
    d = os.path.join(ctx.scratch, "elf")
    os.makedirs(d, exist_ok=True)
    for name, src in (("prog.c", PROG_C), ("other.c", OTHER_C), ("lib.c", LIB_C)):
        open(os.path.join(d, name), "w").write(src)
    files = []
    r1 = C.sh(["gcc", "-pg", "-O1", "-fPIC", "-shared", "-o", os.path.join(d, "libfoo.so"), os.path.join(d, "lib.c")])
    r2 = C.sh(["gcc", "-pg", "-O1", "-o", os.path.join(d, "prog"), os.path.join(d, "prog.c"),
               os.path.join(d, "other.c"), "-L" + d, "-lfoo"])
    r3 = C.sh(["gcc", "-O2", "-static-pie", "-o", os.path.join(d, "sprog"), os.path.join(d, "prog.c"),
               os.path.join(d, "other.c"), os.path.join(d, "lib.c")])
    if r1.returncode == 0:
        files.append(os.path.join(d, "libfoo.so"))
    if r2.returncode == 0:
        files.append(os.path.join(d, "prog"))
    if r3.returncode == 0 and ctx.tier != "quick":
        files.append(os.path.join(d, "sprog"))
    for lib in ["/lib/x86_64-linux-gnu/libc.so.6", "/lib/x86_64-linux-gnu/libm.so.6"]:
        if os.path.exists(lib) and (ctx.tier != "quick" or lib.endswith("libc.so.6")):
            files.append(lib)
    cases, info = [], {}
    for f in files:
        syms = {}
        for flag in ([], ["-D"]):
            r = C.sh(["nm", "-S", "--defined-only"] + flag + [f], stderr=subprocess.DEVNULL)
            for l in r.stdout.split("\n"):
                w = l.split()
                if len(w) == 4 and w[2] in "tTwWi":
                    a, sz = int(w[0], 16), int(w[1], 16)
                    if sz:
                        syms.setdefault((a, sz), set()).add(w[3].split("@")[0])
        if any(needs_demangle(n) for ns in syms.values() for n in ns):
            st["elf_skipped_mangled"] += 1
            continue
        lst = sorted((a, sz, sorted(ns)) for (a, sz), ns in syms.items())
        if len(lst) > 300:
            lst = ctx.rng.sample(lst, 300)
        addrs = []
        for a, sz, _ in lst:
            addrs += [a, a + sz - 1]
        case = "elf %s | %s" % (hx(f), " ".join("%x" % a for a in addrs))
        cases.append(case)
        info[case] = lst
    return cases, info


def merged_maps(maps):
    out = []
    for (a, b, m) in maps:
        if out and out[-1][2] == m:
            out[-1] = (out[-1][0], b, m)
        else:
            out.append((a, b, m))
    return out


# ---- running ---------------------------------------------------------------------------
def build_harness(ctx):
    ctx.snapshot()
    exe = os.path.join(ctx.scratch, "h_c10")
    srcs = [os.path.join(C.VERIF, "harness/c10_symres.c"), os.path.join(C.VERIF, "harness/c10_stubs.c")]
    srcs += [os.path.join(ctx.src, "utils", u + ".c") for u in UTIL_SRCS]
    ok, log = ctx.cc(exe, srcs + ["-lelf"], extra=["-DHAVE_LIBELF"])   # libs after the objects
    return exe if ok else None, log


def run_harness(ctx, exe, cases):
    d = os.path.join(ctx.scratch, "data")
    r = subprocess.run(["timeout", "600", exe, d], input="\n".join(cases) + "\n", stdout=subprocess.PIPE,
                       stderr=subprocess.PIPE, text=True)
    out = []          # per case: list of (model_line, impl_line)
    cur = None
    pend = None
    for l in r.stdout.split("\n"):
        if l.startswith("MODEL "):
            pend = l[6:]
        elif l.startswith("IMPL"):
            cur.append((pend, l[4:].strip()))
        elif l.startswith("CASE"):
            cur = []
            out.append(cur)
    return r, out


def corpus_cases():
    d = os.path.join(C.VERIF, "corpus", "C10")
    cases = []
    if os.path.isdir(d):
        for f in sorted(os.listdir(d)):
            for l in open(os.path.join(d, f)):
                l = l.strip()
                if l and not l.startswith("#") and not l.startswith("dl "):
                    cases.append(l)
    return cases


def dl_corpus():
    """record-time timelines kept in corpus/C10 (`dl o<k>:<lib> r<k>:<fn> c<k> n<k>:<lib> ...`)"""
    d = os.path.join(C.VERIF, "corpus", "C10")
    out = []
    if os.path.isdir(d):
        for f in sorted(os.listdir(d)):
            for l in open(os.path.join(d, f)):
                w = l.split()
                if not w or w[0] != "dl":
                    continue
                ops = []
                for t in w[1:]:
                    k = int(t[1])
                    if t[0] in "on":
                        ops.append((t[0], k, int(t[3:])))
                    elif t[0] == "r":
                        ops.append(("r", k, t[3:]))
                    else:
                        ops.append(("c", k))
                out.append(ops)
    return out


def canon_runs(t):
    """order-insensitive inside runs of equal address (qsort is not specified to be stable)"""
    return sorted(t, key=lambda s: (s[0], s[1], s[2], s[3]))


def check_case(case, pairs, mouts, expects, st):
    """compare one harness case with the model outputs; returns list of problems:
    (kind, monitor_failed, description)"""
    probs = []
    kind = case.split()[0]

    def disagree(what, i):
        probs.append(("model-code-disagreement", False,
                      {"what": what, "model_input": pairs[i][0][:4000], "impl_output": pairs[i][1][:4000],
                       "model_output": mouts[i][:4000]}))

    def monitor(what, theorem, detail):
        probs.append(("property-violated-on-implementation", True,
                      {"what": what, "theorem": theorem, "detail": detail}))

    def check_find(i, table):
        mo = mouts[i].split()
        io = pairs[i][1].split()
        wf_model = mo[0] == "wf=1"
        addrs = [int(a, 16) for a in pairs[i][0].split("|")[2].split()]
        st["find_queries"] += len(addrs)
        wf_py = well_formed(table)
        if wf_py != wf_model:
            disagree("WellFormed evaluated by the model and by the monitor differ", i)
        if mo[1:] != io[1:]:
            if wf_model:
                disagree("find_sym result differs from the model on a well-formed table", i)
            else:
                st["find_diff_on_non_wf"] += 1
        st["wf_tables" if wf_py else "non_wf_tables"] += 1
        res = [parse_sym(x) for x in io[1:]]
        for a, r in zip(addrs, res):
            cands = brute_find(table, a)
            # soundness holds for every table
            if r is not None:
                st["resolved"] += 1
                if r not in table or not contains(r, a) or r[3] in SYMEND:
                    monitor("find_sym returned a symbol that does not contain the address", "c10_find_sound",
                            {"addr": "%x" % a, "result": sym_tok(r)})
            else:
                st["unresolved"] += 1
            if wf_py:
                real = [c for c in cands if c[3] not in SYMEND]
                if cands and len(real) == len(cands):
                    if r is None or (r[0], stop(r)) != (cands[0][0], stop(cands[0])):
                        monitor("address inside a symbol did not resolve to it", "c10_find_correct",
                                {"addr": "%x" % a, "expected_range_of": sym_tok(cands[0]),
                                 "result": sym_tok(r) if r else "-"})
                if not cands and r is not None:
                    monitor("address outside every symbol resolved", "c10_find_correct",
                            {"addr": "%x" % a, "result": sym_tok(r)})

    def check_load(i, text_off=None):
        mt = parse_table(mouts[i])
        it = parse_table(pairs[i][1])
        st["loads"] += 1
        if mt != it:
            if canon_runs(mt) == canon_runs(it) and [s[0] for s in mt] == [s[0] for s in it]:
                st["load_order_diff_within_equal_addr"] += 1
            else:
                disagree("loaded table differs from the model", i)
        if any(it[k][0] > it[k + 1][0] for k in range(len(it) - 1)):
            monitor("loaded table is not sorted by address", "c10_load_establishes_wf", {"table": pairs[i][1][:2000]})
        return it

    if kind == "lf":
        t1 = check_load(0)
        check_find(1, t1)
        if mouts[2] != pairs[2][1]:
            disagree("saved text differs from the model", 2)
        t2 = check_load(3)
        st["roundtrips"] += 1
        if roundtrip_pre(t1):
            st["roundtrips_with_premises"] += 1
            if t2 != t1:
                monitor("symbol file written by save_module_symbol_file does not reload to the same table",
                        "c10_load_save", {"before": pairs[2][0][:2000], "after": pairs[3][1][:2000]})
        # c10_load_establishes_wf evaluated on the implementation's table
        if st["raw_flags"].get(case) is not None:
            npo = st["raw_flags"][case]
            if npo and not well_formed(t1):
                monitor("sizes do not properly overlap but the loaded table is not well-formed",
                        "c10_load_establishes_wf", {"table": pairs[0][1][:2000]})
    elif kind == "sv":
        table = parse_table(pairs[0][0].split("|")[1])
        off = int(case.split()[1], 16)
        if mouts[0] != pairs[0][1]:
            disagree("saved text differs from the model", 0)
        t2 = check_load(1)
        st["roundtrips"] += 1
        if roundtrip_pre(table) and all(s[0] < U64 for s in table):
            st["roundtrips_with_premises"] += 1
            if t2 != table:
                monitor("symbol file written by save_module_symbol_file does not reload to the same table",
                        "c10_load_save", {"before": pairs[0][0][:2000], "after": pairs[1][1][:2000]})
        check_find(2, table)
    elif kind == "elf":
        table = parse_table(pairs[0][0].split("|")[1])
        st["elf_impl_tables"][case] = table
        st["elf_tables"] += 1
        st["elf_symbols"] += len(table)
        if not well_formed(table):
            st["elf_tables_not_wf"] += 1
        check_find(0, table)
        if mouts[1] != pairs[1][1]:
            disagree("saved text differs from the model", 1)
        t2 = check_load(2)
        st["roundtrips"] += 1
        if roundtrip_pre(table):
            st["roundtrips_with_premises"] += 1
            st["elf_roundtrips"] += 1
            if t2 != table:
                monitor("symbol file written by `record` (save_module_symtabs) does not reload to the same table",
                        "c10_load_save", {"file": unhx(case.split()[1]).decode(), "before_n": len(table),
                                          "after_n": len(t2),
                                          "first_diff": [sym_tok(x) for x in (set(table) ^ set(t2))][:6]})
        else:
            st["elf_roundtrip_premises_fail"] += 1
        # nm cross-check: first and last byte of every function resolve to a symbol starting there
        io = pairs[0][1].split()[1:]
        nm = st["nm_info"].get(case, [])
        if True:      # also on a table that is not well-formed: the property is about functions
            for k, (a, sz, names) in enumerate(nm):
                for j, q in enumerate((a, a + sz - 1)):
                    r = parse_sym(io[2 * k + j])
                    st["elf_nm_checks"] += 1
                    if r is None or r[0] != a or r[3] not in names:
                        monitor("address inside a function of a real ELF file is not shown under its name",
                                "c10_find_correct", {"file": unhx(case.split()[1]).decode(), "addr": "%x" % q,
                                                     "nm": names, "got": sym_tok(r) if r else "-"})
    elif kind == "scen":
        mo = mouts[0].split()
        io = pairs[0][1].split()
        st["scen_queries"] += len(io)
        if mo != io:
            disagree("session/dlopen/module resolution differs from the model", 0)
        if expects is not None:
            for k, e in enumerate(expects):
                if e is None or k >= len(io):
                    continue
                st["scen_ground_truth"] += 1
                if io[k] != e:
                    qops = [o.strip() for o in case.split("|")[1:] if o.split()[0] in "RYLQ"]
                    monitor("resolution differs from the ground truth of the generated timeline",
                            "c10_session_by_time / c10_dlopen_by_time / c10_relocation_invariant / c10_symfile_primary_buildid",
                            {"query": qops[k], "expected": e, "got": io[k]})
    return probs


def run_cases(ctx, exe, cases, expects_by_case, st):
    """returns list of (case, problems)"""
    r, out = run_harness(ctx, exe, cases)
    if r.returncode != 0 or len(out) != len(cases):
        return None, {"rc": r.returncode, "stderr": r.stderr[-2000:], "cases": len(cases), "got": len(out),
                      "harness_case": cases[len(out)][:20000] if len(out) < len(cases) else None}
    # extra model queries: NoProperOverlap of the raw table for lf cases
    mlines = []
    idx = []
    for ci, (case, pairs) in enumerate(zip(cases, out)):
        for p in pairs:
            mlines.append(p[0])
        idx.append(len(pairs))
    raw_q = []
    for case in cases:
        w = case.split()
        if w[0] == "lf":
            raw_q.append("raw %s %s" % (w[1], w[2]))
    mo_all = C.run_model("C10", mlines + raw_q)
    raws = mo_all[len(mlines):]
    k = 0
    for case in cases:
        if case.split()[0] == "lf":
            st["raw_flags"][case] = raws[k].startswith("npo=1")
            st["npo_tables"] += raws[k].startswith("npo=1")
            k += 1
    res = []
    pos = 0
    for ci, (case, pairs) in enumerate(zip(cases, out)):
        mouts = mo_all[pos:pos + len(pairs)]
        pos += len(pairs)
        need = {"lf": 4, "sv": 3, "scen": 1, "elf": 3}.get(case.split()[0], 0)
        if len(pairs) != need:
            res.append((case, [("model-code-disagreement", False, {"what": "harness produced %d results, expected %d"
                                                                   % (len(pairs), need)})], pairs))
            continue
        res.append((case, check_case(case, pairs, mouts, expects_by_case.get(case), st), pairs))
    return res, None


def aslr_cases(rng, n):
    """the same module mapped at two bases in two sessions: same offset, same answer"""
    cases = []
    for _ in range(n):
        t = clean_table(rng)
        text = "".join("%016x %08x %c %s\n" % s for s in t)
        b1 = 0x400000 + rng.randrange(256) * 0x1000
        b2 = 0x7f0000000000 + rng.randrange(1 << 20) * 0x1000
        span = 0x10000
        offs = set()
        for s in t:
            offs.update([s[0], s[0] + s[1] - 1, s[0] + s[1], max(0, s[0] - 1)])
        offs = sorted(o for o in offs if o < span)
        ops = ["MODT 1 %s" % hx(text),
               "S 1 a 64 7ffd00000000 %x:%x:1" % (b1, b1 + span),
               "S 2 b c8 7ffc12340000 %x:%x:1" % (b2, b2 + span)]
        q = []
        for o in offs:
            q.append("Y 1 %x" % (b1 + o))
            q.append("Y 2 %x" % (b2 + o))
        cases.append("scen | " + " | ".join(ops + q))
    return cases


# ---- record-time dlopen timelines (e2e, H5) ------------------------------------------------
FINDING_DL = "C10-DLREPORT"
DL_WHAT = ("dlopen_base_callback() reports a loaded object only if its dlpi_name contains the dlopen() argument "
           "and no known map's basename starts with its basename, and dlclose() leaves the map in the list: "
           "dependencies brought in by dlopen(), a second library with the same basename (or a basename that is "
           "a prefix of a known one) and libraries opened again after dlclose() get no DLOP message; their "
           "functions are shown as raw addresses, or under the names of the library that occupied the address before")

# plugin pool: id -> (path below the work directory, options); the id is the suffix of the function names
DL_LIBS = {
    1: ("plug/libp1.so", {}),
    2: ("plug/libp2.so", {}),
    3: ("plug/libp3.so", {"dep": 2}),                      # DT_NEEDED libp2.so
    4: ("plug/libp4.so", {"nest": 1}),                     # constructor dlopen()s libp1.so
    5: ("red/libpaint.so", {}),
    6: ("blue/libpaint.so", {"dtor": True}),               # same basename, other directory
    7: ("plug/libp1.so.2", {}),                            # libp1.so is a prefix of its basename
    8: ("plug/libq.so", {"dep": 9}),                       # the dependency's path contains "plug/libq.so"
    9: ("plug/libq.so.1", {}),
    10: ("plug/libbig.so", {"pad": 0x30000, "dtor": True}),
    11: ("plug/libp5.so", {"nest": 3}),                    # constructor dlopen()s a library with a dependency
}
DL_BUILD_ORDER = [1, 2, 9, 3, 4, 5, 6, 7, 8, 10, 11]


def dl_fns(lib):
    """functions that can be called through a handle of this library (dlsym searches its dependencies)"""
    f = ["run_%d" % lib, "setup_%d" % lib, "dep_fn_%d" % lib, "pre_nest_%d" % lib]
    dep = DL_LIBS[lib][1].get("dep")
    if dep:
        f += ["dep_fn_%d" % dep, "run_%d" % dep]
    return f


def dl_closure(lib):
    out = {lib}
    dep = DL_LIBS[lib][1].get("dep")
    if dep:
        out |= dl_closure(dep)
    return out


def build_dl(ctx):
    """builds the e2e programs; returns env dict or (None, log)"""
    d = os.path.join(ctx.scratch, "dl")
    shutil.rmtree(d, ignore_errors=True)
    for sub in ("plug", "red", "blue"):
        os.makedirs(os.path.join(d, sub))
    H = os.path.join(C.VERIF, "harness")
    cmds = [["gcc", "-O1", "-fPIC", "-shared", "-o", os.path.join(d, "libc10log.so"), os.path.join(H, "c10_dl_log.c")]]
    for lib in DL_BUILD_ORDER:
        rel, o = DL_LIBS[lib]
        cmd = ["gcc", "-pg", "-O1", "-fPIC", "-shared", "-DN=%d" % lib, "-o", os.path.join(d, rel),
               os.path.join(H, "c10_dl_plug.c")]
        if o.get("dep"):
            drel = DL_LIBS[o["dep"]][0]
            cmd += ["-DDEP=%d" % o["dep"], "-L" + os.path.join(d, os.path.dirname(drel)),
                    "-l:" + os.path.basename(drel), "-Wl,-rpath,$ORIGIN"]
        if o.get("nest"):
            cmd += ['-DNEST="%s"' % os.path.join(d, DL_LIBS[o["nest"]][0]), '-DNESTFN="run_%d"' % o["nest"], "-ldl"]
        if o.get("dtor"):
            cmd += ["-DDTOR"]
        if o.get("pad"):
            cmd += ["-DPAD=%d" % o["pad"]]
        cmds.append(cmd)
    cmds.append(["gcc", "-pg", "-O1", "-o", os.path.join(d, "main"), os.path.join(H, "c10_dl_main.c"),
                 "-L" + d, "-lc10log", "-Wl,-rpath,$ORIGIN", "-ldl"])
    for cmd in cmds:
        r = C.sh(cmd)
        if r.returncode != 0:
            return None, " ".join(cmd) + "\n" + r.stdout
    env = {"dir": d, "uftrace": os.path.join(ctx.src, "uftrace"), "libmcount": os.path.join(ctx.src, "libmcount"),
           "nm": {}, "setarch": []}
    r = C.sh(["setarch", "x86_64", "-R", "true"])
    if r.returncode == 0:
        env["setarch"] = ["setarch", "x86_64", "-R"]        # no ASLR: the address layout is reproducible
    return env, ""


def dl_nm(env, path):
    """function symbols of an ELF file: sorted list of (value, size, name)"""
    if path not in env["nm"]:
        out = []
        r = C.sh(["nm", "-S", "--defined-only", path], stderr=subprocess.DEVNULL)
        for l in r.stdout.split("\n"):
            w = l.split()
            if len(w) == 4 and w[2] in "tTwW" and int(w[1], 16):
                out.append((int(w[0], 16), int(w[1], 16), w[3]))
        env["nm"][path] = sorted(out)
    return env["nm"][path]


def dl_argv(env, ops):
    a = []
    for op in ops:
        if op[0] in "on":
            a.append("%s%d=%s" % (op[0], op[1], os.path.join(env["dir"], DL_LIBS[op[2]][0])))
        elif op[0] == "r":
            a.append("r%d=%s" % (op[1], op[2]))
        else:
            a.append("c%d" % op[1])
    return a


def ns(t):
    s, f = t.split(".")
    return int(s) * 1000000000 + int(f)


RE_REPLAY = re.compile(r"^\s*([0-9a-f]+)\s+(\d+\.\d+)\s+(\S+)\s+\|\s*(.*)$")
RE_DLOP = re.compile(r'^DLOP timestamp=(\d+\.\d+) tid=\d+ sid=\S+ base=([0-9a-f]+) libname="(.*)"$')


def run_dl_timeline(env, idx, ops):
    """record one timeline with the real uftrace; returns the raw observations"""
    d = os.path.join(env["dir"], "run%d" % idx)
    shutil.rmtree(d, ignore_errors=True)
    os.makedirs(d)
    data = os.path.join(d, "data")
    log = os.path.join(d, "log")
    cmd = ["timeout", "60"] + env["setarch"] + [env["uftrace"], "record", "--libmcount-path=" + env["libmcount"],
                                                "--no-event", "--no-pager", "-d", data,
                                                os.path.join(env["dir"], "main")] + dl_argv(env, ops)
    r = subprocess.run(cmd, stdout=subprocess.PIPE, stderr=subprocess.PIPE, text=True, cwd=d,
                       env=dict(os.environ, C10_LOG=log))
    res = {"ops": ops, "rc": r.returncode, "stderr": r.stderr[-600:], "dir": d}
    if r.returncode != 0 or not os.path.exists(log):
        res["error"] = "uftrace record failed"
        return res
    # task.txt
    res["dlop"] = []
    for l in open(os.path.join(data, "task.txt")):
        m = RE_DLOP.match(l.strip())
        if m:
            res["dlop"].append((ns(m.group(1)), int(m.group(2), 16), m.group(3)))
    # session maps
    res["im"] = []
    for f in sorted(os.listdir(data)):
        if f.startswith("sid-") and f.endswith(".map"):
            for l in open(os.path.join(data, f)):
                w = l.split()
                if len(w) >= 6 and not w[5].startswith("["):
                    a, b = w[0].split("-")
                    res["im"].append((w[5], int(a, 16), int(b, 16)))
    # the loader's list after every operation
    snaps = []
    for l in open(log):
        w = l.split()
        if w[0] == "LOG":
            snaps.append([w[1], int(w[2], 16), [], False])
        elif w[0] == "OBJ":
            snaps[-1][2].append({"name": unhx(w[1]).decode(), "real": unhx(w[2]).decode(), "bias": int(w[3], 16),
                                 "start": int(w[4], 16), "stop": int(w[5], 16), "lo": int(w[6], 16),
                                 "hi": int(w[7], 16)})
        elif w[0] == "END":
            snaps[-1][3] = True
    res["snaps"] = snaps
    # what replay shows
    r2 = subprocess.run(["timeout", "60", env["uftrace"], "replay", "-d", data, "--no-pager", "--color=no",
                         "-f", "addr,time,module"], stdout=subprocess.PIPE, stderr=subprocess.PIPE, text=True)
    res["replay_rc"] = r2.returncode
    ents = []
    for l in r2.stdout.split("\n"):
        m = RE_REPLAY.match(l)
        if not m or m.group(4).startswith("}"):
            continue
        fn = m.group(4).strip()
        fn = fn[:fn.index("(")] if "(" in fn else fn
        ents.append({"addr": int(m.group(1), 16), "time": ns(m.group(2)), "module": m.group(3), "shown": fn})
    res["ents"] = ents
    if r2.returncode != 0 or not ents:
        res["error"] = "uftrace replay failed: " + r2.stderr[-300:]
    shutil.rmtree(data, ignore_errors=True)
    return res


def okey(o):
    return (o["start"], o["real"], o["bias"])


def dl_analyse(env, res):
    """ground truth per record + the event history for the model.
    returns dict(model_ops=[...], recs=[dynamic records in CL order], problems=[...])"""
    ops = res["ops"]
    snaps = res["snaps"]
    out = {"problems": []}
    if not snaps or snaps[0][0] != "start" or not all(s[3] for s in snaps):
        out["problems"].append("harness log incomplete")
        return out
    startobjs = snaps[0][2]
    startkeys = {okey(o) for o in startobjs}
    mainobj = startobjs[0]
    mainpath = os.path.join(env["dir"], "main")
    opfn = [s for s in dl_nm(env, mainpath) if s[2] == "c10_op"]
    if not opfn:
        out["problems"].append("c10_op not found in main")
        return out
    op_lo = mainobj["bias"] + opfn[0][0]         # the recorded address is the mcount call site inside c10_op
    op_hi = op_lo + opfn[0][1]
    # split the records by operation (c10_op(i) is recorded before the i-th operation)
    per_op = {}
    cur = 0
    for e in res["ents"]:
        if op_lo <= e["addr"] < op_hi:
            cur += 1
            continue
        per_op.setdefault(cur, []).append(e)
    # walk the log
    blocks = snaps[1:]
    pos = 0
    before = startobjs
    mops = []                # model events
    for (n, a, b) in res["im"]:
        mops.append("IM %s %x %x" % (hx(n), a, b))
    for o in startobjs:
        mops.append("LD %s %s %x %x %x" % (hx(o["name"]), hx(o["real"]), o["bias"], o["start"], o["stop"]))
    recs = []
    feats = set()
    assume = []          # hypotheses of c10_dlopen_record_resolves (Init, EvOk) evaluated on the real run
    for o in startobjs:
        if o["name"] and o["name"] != "linux-vdso.so.1" and \
                not any(a <= o["start"] < b for (_, a, b) in res["im"]):
            assume.append("Init.objs: %s loaded at start-up is not in the session maps" % o["name"])

    def shape(o, others):
        if not (o["bias"] <= o["start"] < o["stop"] < U64):
            assume.append("EvOk.load: shape of %s" % o["name"])
        for p_ in others:
            if okey(p_) != okey(o) and p_["start"] < o["stop"] and o["start"] < p_["stop"]:
                assume.append("EvOk.load: %s overlaps %s" % (o["name"], p_["name"]))

    def ld(o):
        # with the function symbols of the file (nm), what record saves as <basename>.sym
        tab = " ".join(sym_tok((v, sz, "T", n)) for (v, sz, n) in dl_nm(env, o["real"])
                       if o["start"] <= o["bias"] + v and o["bias"] + v + sz <= o["stop"])
        return "LD %s %s %x %x %x %s" % (hx(o["name"]), hx(o["real"]), o["bias"], o["start"], o["stop"], tab)

    def truth(e, cands):
        """(object, symbol name) the address belongs to, by the loader's list and nm"""
        for o in cands:
            if o["lo"] <= e["addr"] < o["hi"]:
                path = o["real"] if o["real"] else (mainpath if okey(o) == okey(mainobj) else "")
                if not path:
                    return o, None
                for (v, sz, nm_) in dl_nm(env, path):
                    if v <= e["addr"] - o["bias"] < v + sz:
                        return o, nm_
                return o, None
        return None, None

    def cl(e, cands, window):
        o, sym = truth(e, cands)
        if o is None:
            out["problems"].append("record at %x belongs to no loaded object" % e["addr"])
            return
        dyn = okey(o) not in startkeys
        e2 = dict(e, obj=o, sym=sym, dyn=dyn, window=window)
        if dyn:
            mops.append("TK 1")
            mops.append("CL %x" % e["addr"])
        recs.append(e2)
        return e2

    wid = [0]
    for i, op in enumerate(ops, 1):
        pos0 = pos
        nests = []
        while pos < len(blocks) and blocks[pos][0] == "nest":
            nests.append(blocks[pos])
            pos += 1
        if pos >= len(blocks) or blocks[pos][0] != "op%d" % i:
            out["problems"].append("harness log has no entry for operation %d" % i)
            return out
        after = blocks[pos]
        pos += 1
        bkeys = {okey(o) for o in before}
        cands = list(before)
        for blk in nests + [after]:
            for o in blk[2]:
                if okey(o) not in {okey(c) for c in cands}:
                    cands.append(o)
        ents = per_op.get(i, [])
        if op[0] in "on":
            path = os.path.join(env["dir"], DL_LIBS[op[2]][0])
            wid[0] += 1
            w = wid[0]
            mops += ["TK 1", "EN %x %s" % (w, hx(path))]
            allnew = [o for o in (nests[0][2] if nests else after[2]) if okey(o) not in bkeys]
            inner_new = []
            if nests:
                feats.add("nested")
                nlib = DL_LIBS[op[2]][1].get("nest")
                inner_paths = {os.path.join(env["dir"], DL_LIBS[x][0]) for x in dl_closure(nlib)} if nlib else set()
                inner_new = [o for o in allnew if o["real"] in inner_paths]
                allnew = [o for o in allnew if o["real"] not in inner_paths]
            for o in allnew + inner_new:
                shape(o, (nests[0][2] if nests else after[2]))
            for o in allnew:
                mops += ["TK 1", ld(o)]
            if len(allnew) > 1:
                feats.add("dependency")
            if not allnew and not nests:
                feats.add("noload" if op[0] == "n" else "already-loaded")
            state = 0 if nests else 2        # 0: before the nested dlopen, 1: inside, 2: after / none
            for e in ents:
                o, sym = truth(e, cands)
                if state == 1 and sym and sym.startswith("post_nest_"):
                    mops += ["TK 1", "LV %x %x" % (w + 0x100, nests[0][1])]
                    state = 2
                e2 = cl(e, cands, op[0] in "on")
                if e2 and e2["dyn"]:
                    feats.add("record-during-dlopen")
                if state == 0 and sym and sym.startswith("pre_nest_"):
                    nlib = DL_LIBS[op[2]][1].get("nest")
                    mops += ["TK 1", "EN %x %s" % (w + 0x100, hx(os.path.join(env["dir"], DL_LIBS[nlib][0])))]
                    for o2 in inner_new:
                        mops += ["TK 1", ld(o2)]
                    state = 1
            if state != 2:
                out["problems"].append("nested dlopen of operation %d not found in the trace" % i)
            mops += ["TK 1", "LV %x %x" % (w, after[1])]
        elif op[0] == "r":
            for e in ents:
                cl(e, cands, False)
        else:
            for e in ents:
                e2 = cl(e, cands, False)
                if e2 and e2["dyn"]:
                    feats.add("record-during-dlclose")
            akeys = {okey(o) for o in after[2]}
            gone = [o for o in before if okey(o) not in akeys]
            if after[1]:
                mops += ["TK 1", "XC %x %s" % (after[1], " ".join("%x" % o["start"] for o in gone))]
            if gone:
                feats.add("unload")
        # address reuse / reopen
        for o in after[2]:
            if okey(o) in bkeys or okey(o) in startkeys:
                continue
            for s in snaps[:pos0 + 1]:
                for p in s[2]:
                    if okey(p) not in startkeys and okey(p) != okey(o) and p["lo"] < o["hi"] and o["lo"] < p["hi"]:
                        feats.add("address-reuse")
                    if p["real"] == o["real"]:
                        feats.add("reopen-same-address" if okey(p) == okey(o) else "reopen-other-address")
        before = after[2]
    # records after the last operation
    for e in per_op.get(len(ops) + 1, []) + per_op.get(0, []):
        cl(e, before + startobjs, False)
    # the clock value a dlopen() reads (= the DLOP timestamp) differs from every value mcount_entry read
    rt = {e["time"] for e in res["ents"]}
    for (t, b, n) in res["dlop"]:
        if t in rt:
            assume.append("EvOk.enter: DLOP timestamp %d equals a record's timestamp" % t)
    out.update({"model_ops": mops, "recs": recs, "feats": feats, "assume": assume})
    return out


def dl_model_lines(an):
    body = " | ".join(an["model_ops"])
    return ["dlrec %d %d | %s" % (fx, st, body) for (fx, st) in ((0, 0), (1, 0), (0, 1), (1, 1))]


def parse_dlrec(line):
    if not line.startswith("M"):
        return None
    m, s = line.split("|")
    ms = []
    for t in m.split()[1:]:
        n, b = t.split("@")
        ms.append((unhx(n).decode(), int(b, 16)))
    ss = []
    for t in s.split()[1:]:
        if t == "-":
            ss.append(None)
        else:
            f, n, b = t.split("@")
            ss.append((unhx(f).decode(), unhx(n).decode(), int(b, 16)))
    return ms, ss


def dl_judge(res, an, mo):
    """compares one timeline with the model outputs mo = {(fixed, stamp): (M, S)} and evaluates the monitors.
    returns dict(match={variant: bool}, fails=[monitor failures], each with 'explained' flag)"""
    real_m = [(n, b) for (_, b, n) in res["dlop"]]
    dyn = [e for e in an["recs"] if e["dyn"]]
    real_s = [None if e["module"] == "[unknown]" else (e["shown"], e["module"]) for e in dyn]
    truth_s = [(e["obj"]["name"], e["obj"]["bias"]) for e in dyn]

    def shown_ok(model, real):
        """the model resolves with the libraries' function tables (nm), like session_find_dlsym: the same
        function of the same library must be shown -- also when the as-coded wrapper makes it the wrong one"""
        if model is None or real is None:
            return model is None and real is None
        return real == (model[0], os.path.basename(model[1]))

    match = {}
    match_m = {}
    for k, v in mo.items():
        if v is None:
            match[k] = match_m[k] = False
            continue
        ms, ss = v
        match_m[k] = ms == real_m
        match[k] = (ms == real_m and len(ss) == len(dyn) and
                    all(shown_ok(a, c) for a, c in zip(ss, real_s)))
    fails = []
    for j, e in enumerate(an["recs"]):
        o = e["obj"]
        if e["sym"] is None:
            continue                      # PLT stubs of the main program etc.: not inside a function
        want_mod = os.path.basename(o["name"]) if o["name"] else "main"
        bad = None
        if e["shown"] != e["sym"] or e["module"] != want_mod:
            bad = "shown as %s in module %s" % (e["shown"], e["module"])
        elif e["dyn"] and not any(b == o["bias"] and n == o["name"] and t <= e["time"] for (t, b, n) in res["dlop"]):
            bad = "no DLOP line for this library and load address with a timestamp <= the record's"
        if bad:
            f = {"addr": "%x" % e["addr"], "time_ns": e["time"], "library": o["name"] or "main",
                 "load_address": "%x" % o["bias"], "function_by_nm": e["sym"], "replay": bad,
                 "made_while_dlopen_was_running": bool(e["window"]), "dyn": e["dyn"]}
            if e["dyn"]:
                k = [x for x in an["recs"] if x["dyn"]].index(e)
                f["model"] = {"%d%d" % kk: (v[1][k] if v and k < len(v[1]) else "?") for kk, v in mo.items()}
                f["truth"] = (o["name"], o["bias"])
            fails.append(f)
    return {"match": match, "match_m": match_m, "fails": fails, "real_m": real_m, "real_s": real_s, "ndyn": len(dyn)}


DL_FIXED_TIMELINES = [
    # constructor calls traced functions while dlopen() is running; call; close
    [("o", 0, 1), ("r", 0, "run_1"), ("c", 0)],
    # a dependency comes in with the library
    [("o", 0, 3), ("r", 0, "run_3"), ("r", 0, "setup_3"), ("r", 0, "dep_fn_2")],
    # the constructor calls dlopen() itself
    [("o", 0, 4), ("r", 0, "run_4"), ("c", 0)],
    # close, another library at the same place, open again elsewhere, close both, open again at the old place
    [("o", 0, 1), ("r", 0, "run_1"), ("c", 0), ("o", 1, 2), ("o", 0, 1), ("r", 0, "run_1"), ("r", 1, "run_2"),
     ("c", 1), ("c", 0), ("o", 0, 1), ("r", 0, "run_1")],
    # same basename in two directories; destructor
    [("o", 0, 5), ("r", 0, "run_5"), ("o", 1, 6), ("r", 1, "run_6"), ("c", 1), ("c", 0)],
    # basename prefix
    [("o", 0, 7), ("r", 0, "run_7"), ("o", 1, 1), ("r", 1, "run_1")],
    # the dependency's name contains the dlopen() argument
    [("o", 0, 8), ("r", 0, "setup_8"), ("c", 0), ("o", 0, 8), ("r", 0, "dep_fn_9")],
    # same library twice, RTLD_NOLOAD of a loaded and of an unknown library
    [("o", 0, 2), ("o", 1, 2), ("n", 2, 2), ("n", 3, 5), ("c", 0), ("r", 1, "run_2"), ("c", 1), ("c", 2)],
    # nested dlopen of a library with a dependency; big library moves the addresses
    [("o", 0, 10), ("o", 1, 11), ("r", 1, "run_11"), ("c", 0), ("o", 2, 2), ("r", 2, "run_2"), ("c", 1)],
]
DL_PROBES = (1, 4)          # timelines whose DLOP lines differ between the repaired and the as-coded wrapper


def gen_dl_timeline(rng):
    ops = []
    slots = {}
    closed = []
    for _ in range(rng.randint(3, 11)):
        r = rng.random()
        free = [k for k in range(10) if k not in slots]
        if (r < 0.45 or not slots) and free:
            k = rng.choice(free)
            if closed and rng.random() < 0.45:
                lib = rng.choice(closed)                              # open again after dlclose
            elif slots and rng.random() < 0.15:
                lib = rng.choice(sorted(slots.values()))              # a library that is open
            else:
                lib = rng.choice(sorted(DL_LIBS))
            ops.append(("o", k, lib))
            slots[k] = lib
        elif r < 0.75 and slots:
            k = rng.choice(sorted(slots))
            ops.append(("r", k, rng.choice(dl_fns(slots[k]))))
        elif r < 0.94 and slots:
            k = rng.choice(sorted(slots))
            closed.append(slots.pop(k))
            ops.append(("c", k))
        elif free:
            k = rng.choice(free)
            lib = rng.choice(sorted(DL_LIBS))
            ops.append(("n", k, lib))
            slots[k] = lib
    return ops


def run_dl(ctx, st, timelines=None, made=None):
    """the whole record-time section; returns list of per-timeline verdicts"""
    ok, mlog = made.result() if made is not None else ctx.make()
    if not ok:
        C.violation(ctx, "build", {"kind": "uftrace-build-failed", "log": mlog[-3000:]}, True)
        return None
    env, log = build_dl(ctx)
    if env is None:
        C.violation(ctx, "build", {"kind": "harness-build-failed", "log": log[-3000:]}, True)
        return None
    quick = ctx.tier == "quick"
    if timelines is None:
        timelines = [list(t) for t in DL_FIXED_TIMELINES] + dl_corpus()
        for _ in range(36 if quick else 400):
            timelines.append(gen_dl_timeline(ctx.rng))
    with ThreadPoolExecutor(8) as ex:
        results = list(ex.map(lambda a: run_dl_timeline(env, a[0], a[1]), enumerate(timelines)))
    analyses = []
    mlines = []
    for res in results:
        an = {"problems": [res["error"]]} if "error" in res else dl_analyse(env, res)
        analyses.append(an)
        if "model_ops" in an:
            mlines += dl_model_lines(an)
    mouts = C.run_model("C10", mlines) if mlines else []
    verdicts = []
    p = 0
    for res, an in zip(results, analyses):
        v = {"ops": res["ops"], "argv": [a.replace(env["dir"] + "/", "") for a in dl_argv(env, res["ops"])],
             "problems": list(an["problems"]), "feats": sorted(an.get("feats", [])),
             "assume": an.get("assume", [])}
        if "model_ops" in an:
            mo = {}
            for kk in ((0, 0), (1, 0), (0, 1), (1, 1)):
                mo[kk] = parse_dlrec(mouts[p])
                p += 1
            v.update(dl_judge(res, an, mo))
            v["model_input"] = dl_model_lines(an)[0][:6000]
            v["recs"] = len(an["recs"])
        else:
            v["stderr"] = res.get("stderr", "")
        verdicts.append(v)
    st["dl_env"] = env
    return verdicts

def report_dl(ctx, verdicts, st):
    """classifies the record-time results (see the module docstring)"""
    known = {f["id"]: f for f in C.known_findings("C10")}
    probes = [verdicts[i] for i in DL_PROBES if i < len(verdicts) and "match" in verdicts[i]]
    # which wrapper is this?  decided by the DLOP lines (libname, base) of the probe timelines alone
    fixed_ok = bool(probes) and all(v["match_m"][(1, 0)] for v in probes)
    coded_ok = bool(probes) and all(v["match_m"][(0, 0)] for v in probes)
    variant = (1, 0) if fixed_ok and not coded_ok else (0, 0) if coded_ok and not fixed_ok else None
    if variant is None:
        # no clear answer: compare with the variant the dependency probe points to
        variant_cmp = (1, 0) if probes and len(probes[0]["real_m"]) > 1 else (0, 0)
    else:
        variant_cmp = variant
    st["dl_variant"] = {(1, 0): "repaired (C10-DLREPORT applied)", (0, 0): "as coded"}.get(variant, "neither model variant")
    nviol = 0
    finding_case = None
    for vi, v in enumerate(verdicts):
        st["dl_timelines"] += 1
        for ft in v.get("feats", []):
            st["dl_features"][ft] = st["dl_features"].get(ft, 0) + 1
        if "match" not in v:
            st["dl_harness_problems"] += 1
            if nviol < 3:
                nviol += 1
                C.violation(ctx, "dlrec-run-%d" % vi, {"kind": "e2e-run-failed", "dl_ops": v["ops"], "argv": v["argv"],
                                                       "problems": v["problems"], "stderr": v.get("stderr", "")}, True)
            continue
        if v["assume"]:
            st["dl_hypotheses_not_met"] += len(v["assume"])
            if nviol < 3:
                nviol += 1
                C.violation(ctx, "dlrec-hyp-%d" % vi, {
                    "kind": "theorem-hypothesis-not-met-by-the-implementation",
                    "theorem": "c10_dlopen_record_resolves (Init / Valid)", "what": v["assume"][:6],
                    "dl_ops": v["ops"], "argv": v["argv"]}, True)
        st["dl_records_checked"] += v["recs"]
        st["dl_records_in_dlopened_objects"] += v["ndyn"]
        st["dl_dlop_lines"] += len(v["real_m"])
        agree = v["match"][variant_cmp] and not v["problems"]
        unexplained = []
        explained = []
        for f in v["fails"]:
            ex = False
            if variant_cmp == (0, 0) and f["dyn"] and "model" in f:
                # the as-coded model resolves this record with no or another library's message, the repaired one
                # with the right one
                pc, pf = f["model"].get("00"), f["model"].get("10")
                ex = (pf not in (None, "?") and tuple(pf[1:]) == tuple(f["truth"]) and pc != "?" and
                      (pc is None or tuple(pc[1:]) != tuple(f["truth"])))
            (explained if ex else unexplained).append(f)
        st["dl_monitor_failures_explained_by_finding"] += len(explained)
        st["dl_monitor_failures"] += len(unexplained)
        st["dl_model_code_disagreements"] += not agree
        if explained and finding_case is None:
            finding_case = (v, explained)
        if (unexplained or not agree) and nviol < 3:
            nviol += 1
            h = hashlib.sha1(" ".join(v["argv"]).encode()).hexdigest()[:8]
            late = bool(unexplained) and bool(v["match"].get((variant_cmp[0], 1)))   # equals the stampAtSend variant
            obj = {"kind": "property-violated-on-implementation" if unexplained else "model-code-disagreement",
                   "what": ("a record made inside a dlopen'ed library is not shown under its function and module"
                            if unexplained else "DLOP lines / shown libraries differ from the dlrec model"),
                   "theorem": "c10_dlopen_record_resolves / c10_dlopen_msg_time_before_load",
                   "dl_ops": v["ops"], "argv": v["argv"], "failing_records": unexplained[:8],
                   "dlop_lines": [[n, "%x" % b] for (n, b) in v["real_m"]], "problems": v["problems"],
                   "model_variant_compared": "fixed=%d stampAtSend=%d" % variant_cmp,
                   "model_variants_that_match": ["fixed=%d stampAtSend=%d" % k for k, m in v["match"].items() if m],
                   "model_input": v["model_input"]}
            if v["match"].get((variant_cmp[0], 1)) and not agree:
                obj["diagnosis"] = ("the output equals the model variant in which send_dlopen_msg() reads the clock "
                                    "itself (c10_prefix_stamp_at_send_witness): the DLOP time is the time of sending, "
                                    "records made while dlopen() was running precede it")
            C.violation(ctx, ("dlrec-time-" if late else "dlrec-") + h, obj, no_failing_input=not unexplained)
    if variant_cmp == (0, 0) and variant == (0, 0):
        v, ex = finding_case if finding_case else (probes[0], [])
        what = "%s %s" % (FINDING_DL, DL_WHAT)
        if FINDING_DL in known:
            C.known(ctx, known[FINDING_DL], what[:400])
        else:
            C.violation(ctx, FINDING_DL, {
                "kind": "property-violated-on-implementation", "finding": FINDING_DL, "what": DL_WHAT,
                "witness_theorems": ["c10_prefix_dlreport_dependency_witness", "c10_prefix_dlreport_basename_witness",
                                     "c10_prefix_dlreport_reopen_witness"],
                "proposed_fix": "proposed_fixes/C10-DLREPORT.diff",
                "dl_ops": v["ops"], "argv": v["argv"], "failing_records": ex[:8],
                "dlop_lines": [[n, "%x" % b] for (n, b) in v["real_m"]],
                "timelines_affected": sum(1 for x in verdicts if any(
                    f["dyn"] and (f.get("model", {}).get("10") or ("", "", 0))[1:] == tuple(f.get("truth", ()))
                    for f in x.get("fails", [])))})
    elif variant is None and probes:
        C.violation(ctx, "dlrec-variant", {
            "kind": "model-code-disagreement",
            "what": "the DLOP lines of the probe timelines match neither the as-coded nor the repaired dlrec model",
            "dl_ops": probes[0]["ops"], "argv": probes[0]["argv"],
            "dlop_lines": [[n, "%x" % b] for (n, b) in probes[0]["real_m"]], "model_input": probes[0]["model_input"]},
            no_failing_input=not any(v.get("fails") for v in probes))


# ---- e2e: one binary under several path names, analysis without the binaries ---------------
STAGE_INSTALLS = {          # directory -> (build, copy of)
    "v1": ("A", None), "v2": ("A", "v1"), "opt/v3/bin": ("B", None), "v4": ("N", None), "v5": ("N", "v4"),
    "w6": ("B", "opt/v3/bin"),
}
STAGE_FUNCS = {"A": ["main", "a_work", "a_leaf"], "N": ["main", "a_work", "a_leaf"],
               "B": ["main", "b_work", "b_extra", "b_tail"]}
STAGE_OWN = {"main", "a_work", "a_leaf", "b_work", "b_extra", "b_tail", "execv"}
RE_STAGE_ENTRY = re.compile(r"^[\s|]*([A-Za-z_<][^\s(]*)\(\)( \{|;)")


def build_stage(ctx):
    """A = with build-id, B = another binary of the same name, N = A's source without a build-id;
    copies are byte-identical (the same build-id under another path name)"""
    root = os.path.join(ctx.scratch, "stage")
    shutil.rmtree(root, ignore_errors=True)
    src = os.path.join(C.VERIF, "harness", "c10_stage.c")
    flags = {"A": ["-Wl,--build-id=sha1"], "B": ["-DVARB", "-Wl,--build-id=sha1"], "N": ["-Wl,--build-id=none"]}
    for d, (b, cp) in STAGE_INSTALLS.items():
        os.makedirs(os.path.join(root, "inst", d))
        out = os.path.join(root, "inst", d, "stage")
        if cp:
            shutil.copy2(os.path.join(root, "inst", cp, "stage"), out)
            continue
        r = C.sh(["gcc", "-pg", "-O0", "-o", out, src] + flags[b])
        if r.returncode != 0:
            return None, r.stdout
    return root, ""


def stage_names(text):
    out = []
    for l in text.split("\n"):
        m = RE_STAGE_ENTRY.match(l)
        if m:
            out.append(m.group(1))
    return out


def run_stage_chain(ctx, root, idx, chain):
    """record `chain` (install directories, exec()ed in turn), replay with the binaries in place and
    after they are gone; returns dict(problems=[...], ...)"""
    d = os.path.join(root, "run%d" % idx)
    shutil.rmtree(d, ignore_errors=True)
    os.makedirs(d)
    inst = os.path.join(d, "inst")
    shutil.copytree(os.path.join(root, "inst"), inst)
    paths = [os.path.join(inst, c, "stage") for c in chain]
    uft = os.path.join(ctx.src, "uftrace")
    res = {"chain": chain, "problems": []}
    rc, out, err, to = C.run_bounded([uft, "record", "--libmcount-path=" + os.path.join(ctx.src, "libmcount"),
                                      "--no-event", "--no-pager", "-d", os.path.join(d, "data")] + paths, 60, cwd=d)
    if rc != 0 or to:
        res["error"] = "uftrace record failed rc=%s timeout=%s %s" % (rc, to, err[-400:])
        return res
    res["sym_files"] = sorted(f for f in os.listdir(os.path.join(d, "data")) if f.startswith("stage"))

    def replay():
        rc, out, err, to = C.run_bounded([uft, "replay", "-d", os.path.join(d, "data"), "--no-pager", "--color=no",
                                          "-f", "none"], 60, cwd=d)
        return rc, out, err

    rc1, with_bin, err1 = replay()
    shutil.rmtree(inst)                         # the data is analysed where the binaries are not available
    rc2, without, err2 = replay()
    res["replay_rc"] = [rc1, rc2]
    expect = []
    for k, c in enumerate(chain):
        expect += STAGE_FUNCS[STAGE_INSTALLS[c][0]]
        if k + 1 < len(chain):
            expect.append("execv")
    own1 = [n for n in stage_names(with_bin) if n in STAGE_OWN]
    all2 = stage_names(without)
    own2 = [n for n in all2 if n in STAGE_OWN]
    res.update({"expected": expect, "with_binaries": own1, "without_binaries": own2})
    if rc1 != 0 or rc2 != 0:
        res["problems"].append("replay failed: %s %s" % (err1[-200:], err2[-200:]))
    if own1 != expect:
        res["problems"].append("with the binaries in place the program's functions are not the ones it called")
    if own2 != expect:
        res["problems"].append("read from the symbol files record wrote, the program's functions are not the "
                               "ones it called")
    raw = [n for n in all2 if re.match(r"^<[0-9a-f]+>$", n)]
    if raw:
        res["problems"].append("%d calls left as raw addresses although record saved the symbols" % len(raw))
        res["raw_addresses"] = raw[:6]
    if stage_names(with_bin) != all2 and not res["problems"]:
        res["problems"].append("the trace read from the symbol files differs from the one read from the binaries")
    if not res["problems"]:
        shutil.rmtree(d, ignore_errors=True)
    return res


def run_install_e2e(ctx, st):
    """chains of exec()s over the installations; own random stream"""
    rng = random.Random(ctx.seed * 1000003 + 1011)
    root, log = build_stage(ctx)
    if root is None:
        C.violation(ctx, "build", {"kind": "harness-build-failed", "log": log[-3000:]}, True)
        return
    dirs = sorted(STAGE_INSTALLS)
    chains = [["v1", "v2"], ["v1", "opt/v3/bin", "v2"], ["v4", "v5", "v1"]]
    for _ in range(5 if ctx.tier == "quick" else 60):
        chains.append([rng.choice(dirs) for _ in range(rng.randint(2, 4))])
    with ThreadPoolExecutor(4) as ex:
        results = list(ex.map(lambda a: run_stage_chain(ctx, root, a[0], a[1]), enumerate(chains)))
    st["install_e2e_chains"] = len(chains)
    st["install_e2e_hops"] = sum(len(c) for c in chains)
    st["install_e2e_harness_problems"] = 0
    nrep = 0
    for res in results:
        if "error" in res:
            st["install_e2e_harness_problems"] += 1
            if st["install_e2e_harness_problems"] == 1:
                C.violation(ctx, "stage-harness", {"kind": "harness-failed", "chain": res["chain"],
                                                   "error": res["error"]}, True)
            continue
        if res["problems"]:
            st["install_e2e_failures"] = st.get("install_e2e_failures", 0) + 1
            if nrep < 2:
                nrep += 1
                C.violation(ctx, "stage-%d" % nrep, {
                    "kind": "property-violated-on-implementation",
                    "theorem": "c10_symfile_writer_reader_agree / c10_symfile_saved_tables_reload",
                    "what": "uftrace record of an exec() chain over installations of one program "
                            "(harness/c10_stage.c), replay after the binaries are removed",
                    "stage_chain": res["chain"], **{k: res[k] for k in res if k not in ("chain",)}})
    return results


def run(ctx):
    ok, problems = C.prove(ctx, "C10")
    if not ok:
        C.violation(ctx, "proof", {"kind": "proof-obligation-broken", "problems": problems}, True)
        return C.finish(ctx)

    exe, log = build_harness(ctx)
    if exe is None:
        C.violation(ctx, "build", {"kind": "harness-build-failed", "log": log[-3000:]}, True)
        return C.finish(ctx)

    # uftrace + libmcount for the record-time side are built while the analysis side runs
    pool = ThreadPoolExecutor(1)
    fut_make = pool.submit(ctx.make)

    rng = ctx.rng
    quick = ctx.tier == "quick"
    cases = list(corpus_cases())
    ncorpus = len(cases)
    expects = {}
    for text in special_texts():
        cases.append(gen_lf_case(rng, text))
    nlf = 900 if quick else 12000
    nsv = 500 if quick else 8000
    nsc = 500 if quick else 6000
    naslr = 40 if quick else 400
    for _ in range(nlf):
        cases.append(gen_lf_case(rng))
    for _ in range(nsv):
        cases.append(gen_sv_case(rng))
    for i in range(nsc):
        line, ex = gen_scenario(rng, strict_times=(i % 4 != 3))
        cases.append(line)
        expects[line] = ex
    # installations of one binary under several path names / several binaries under one base
    # name (own random stream: the draws of the families above and below stay what they were)
    rng_inst = random.Random(ctx.seed * 1000003 + 1010)
    ninst = 250 if quick else 3000
    for i in range(ninst):
        line, ex = gen_scenario(rng_inst, strict_times=True, installs=True)
        cases.append(line)
        expects[line] = ex
    aslr = aslr_cases(rng, naslr)
    cases += aslr

    st = {k: 0 for k in ["find_queries", "find_diff_on_non_wf", "wf_tables", "non_wf_tables", "resolved",
                         "unresolved", "loads", "load_order_diff_within_equal_addr", "roundtrips",
                         "roundtrips_with_premises", "scen_queries", "scen_ground_truth", "npo_tables",
                         "aslr_pairs", "elf_tables", "elf_symbols", "elf_tables_not_wf", "elf_roundtrips",
                         "elf_roundtrip_premises_fail", "elf_nm_checks", "elf_skipped_mangled",
                         "elf_model_files", "elf_model_symbols", "elf_model_names_compared"]}
    st["raw_flags"] = {}
    st["elf_impl_tables"] = {}
    elf, st["nm_info"] = build_elf_cases(ctx, st)
    cases += elf
    res, err = run_cases(ctx, exe, cases, expects, st)
    if res is None:
        fut_make.result()
        C.violation(ctx, "harness", dict(kind="harness-failed", **err), True)
        return C.finish(ctx)

    # ASLR monitor on the implementation's output: alternating Y 1 / Y 2 answers must be equal
    aslr_set = set(aslr)
    nviol = 0
    ndis = 0
    nmon = 0
    allprobs = []
    for case, probs, _ in res:
        for (kind, mon, detail) in probs:
            ndis += not mon
            nmon += mon
            allprobs.append((case, kind, mon, detail))
    # concrete failing inputs (monitor failures) are reported before bare model/code disagreements
    allprobs = [p for p in allprobs if p[2]][:3] + [p for p in allprobs if not p[2]]
    for (case, kind, mon, detail) in allprobs[:4]:
        nviol += 1
        h = hashlib.sha1(case.encode()).hexdigest()[:8]
        d = {"kind": kind, "harness_case": case if len(case) < 20000 else case[:20000]}
        d.update(detail)
        C.violation(ctx, "case-%s-%d" % (h, nviol), d, no_failing_input=not mon)
    # pairs of answers for the same offset at two bases
    if aslr:
        for case, _, pairs in res:
            if case not in aslr_set or len(pairs) != 1:
                continue
            io = pairs[0][1].split()
            for k in range(0, len(io) - 1, 2):
                st["aslr_pairs"] += 1
                if io[k] != io[k + 1]:
                    nmon += 1
                    if nviol < 4:
                        nviol += 1
                        C.violation(ctx, "aslr-" + hashlib.sha1(case.encode()).hexdigest()[:8], {
                            "kind": "property-violated-on-implementation", "theorem": "c10_relocation_two_bases",
                            "what": "same module offset resolves differently at two load addresses",
                            "harness_case": case, "answers": [io[k], io[k + 1]]})

    # ELF symbol loading against Model/ElfSym.lean
    for pr in elf_model_check(ctx, st, elf, st.pop("elf_impl_tables")):
        ndis += 1
        if nviol < 5:
            nviol += 1
            C.violation(ctx, "elfsym-%d" % nviol, dict(kind="model-code-disagreement", theorem="c10_elf_symtab_wellformed",
                                                       **pr), no_failing_input=True)
    ctx.notes.append("analysis side done at %.1f s" % ctx.elapsed())
    # ---- record-time side: dlopen timelines under the real uftrace record
    st.update({"dl_timelines": 0, "dl_records_checked": 0, "dl_records_in_dlopened_objects": 0, "dl_dlop_lines": 0,
               "dl_harness_problems": 0, "dl_monitor_failures": 0, "dl_monitor_failures_explained_by_finding": 0,
               "dl_hypotheses_not_met": 0, "dl_model_code_disagreements": 0, "dl_features": {}, "dl_variant": "not run"})
    verdicts = run_dl(ctx, st, made=fut_make)
    pool.shutdown()
    dl_samples = []
    if verdicts is not None:
        report_dl(ctx, verdicts, st)
        dl_samples = [" ".join(v["argv"]) for v in verdicts[-2:]]
        st["dl_distinct_timelines"] = len({" ".join(v["argv"]) for v in verdicts})
    st.pop("dl_env", None)
    if verdicts is not None:
        run_install_e2e(ctx, st)
        nmon += st.get("install_e2e_failures", 0)
    ctx.notes.append("record-time side done at %.1f s" % ctx.elapsed())
    nmon += st["dl_monitor_failures"]
    ndis += st["dl_model_code_disagreements"]

    raw_flags = st.pop("raw_flags")
    st.pop("nm_info")
    distinct = len({hashlib.sha1(c.encode()).hexdigest() for c in cases}) + st.get("dl_distinct_timelines", 0)
    samples = []
    for c in (cases[ncorpus + 2], cases[ncorpus + len(special_texts()) + 3], cases[-naslr - len(elf) - 2]):
        samples.append(c[:300])
    ctx.coverage.update({
        "evaluations": st["find_queries"] + st["scen_queries"] + st["loads"] + st["roundtrips"] +
        st["dl_records_checked"] + st["dl_dlop_lines"],
        "distinct_nontrivial": distinct,
        "rule": "corpus, then hand-made .sym texts for each named corner (adjacent, zero-size, duplicate "
                "address, unsorted on disk, proper overlap, markers, kernel style, wrap), then random "
                ".sym texts (5 layout kinds x 5 on-disk styles, 35% shuffled) each queried at "
                "{start-1,start,mid,end-1,end,end+1} of every loaded symbol + 0 + random + 2^64-1, saved and "
                "reloaded; random in-memory tables (15% unsorted, 10% extreme sizes) saved/reloaded/queried; "
                "random session timelines (threads, forks, execs, dlopens incl. address reuse, multi-segment "
                "maps; symbol files written by the real save_module_symbol_file into the data directory or a "
                "separate --with-syms directory, 60% with 2-4 modules sharing a basename and build-ids "
                "all/none/mixed/same-4-prefix; every 4th with equal timestamps allowed) queried through "
                "find_task_session/find_symtabs/session_find_dlsym/task_find_sym_addr; install timelines (own "
                "random stream): 1-4 binaries (with/without build-id) installed under 2-5 path names over 1-2 base "
                "names - the same build-id under several paths, different binaries under one name, 30% per-worker "
                "plugin directories (build-id-less plugin.so files dlopen()ed at one address by processes of one "
                "session, asked for at their load time and at the end) - saved by the real save_module_symbol_file "
                "in generated order and resolved by load_module_symbol with no binary to fall back to, 30% through "
                "--with-syms; ASLR pairs; e2e exec() chains (3 fixed + random) over six installations of "
                "harness/c10_stage.c (two binaries, one without build-id, byte-identical copies) recorded by the real "
                "uftrace and replayed before and after the binaries are removed; "
                "record-time: 9 hand-made + random dlopen/dlsym/dlclose/RTLD_NOLOAD timelines (3-11 operations over 11 "
                "plugin libraries with traced constructors/destructors, a dependency, nested dlopen, same basename, "
                "basename prefixes, 45% of the opens re-open a closed library) recorded by the real uftrace with ASLR "
                "off, every record of the replay checked against the loader's list and nm. "
                "distinct = distinct harness case lines",
        "cases": {"corpus": ncorpus, "special_texts": len(special_texts()), "random_texts": nlf,
                  "random_tables": nsv, "timelines": nsc, "install_timelines": ninst, "aslr": naslr,
                  "real_elf_files": len(elf),
                  "record_time_dlopen_timelines": st["dl_timelines"]},
        "model_code_disagreements": ndis,
        "monitor_failures_on_impl": nmon,
        "exhaustive": False,
        "samples": samples + dl_samples,
    })
    ctx.coverage.update(st)
    scen = [c for c in cases if c.startswith("scen")]
    ctx.coverage["symfile_selection"] = {
        "timelines_with_syms_dir": sum("| WS 1 |" in c for c in scen),
        "timelines_same_basename_modules": sum(c.count(hx("/libsame.so")) >= 2 for c in scen),
        "both": sum("| WS 1 |" in c and c.count(hx("/libsame.so")) >= 2 for c in scen),
        "install_timelines_same_binary_two_paths_one_basename": inst_stats(scen)}
    ctx.assumptions += [
        "libc bsearch is the midpoint loop of glibc (model = exact loop; compared on every query)",
        "qsort result is an address-sorted permutation; order inside equal-address runs is only counted",
        "names need no demangling (no _Z/_R prefix); no NUL bytes; no line ending right after '<addr> ' "
        "(the C code then reads a stale byte); '# symbols:' only in the header; first accepted line is a symbol",
        "rb-trees of sessions/tasks/modules are modelled by their in-order sequences",
        "no cyclic ppid chains; perf sched-event pseudo symbols not modelled",
        "record time (DlRecord): the dlopen()/dlclose() wrappers run to completion (thread data present, no "
        "recursion guard hit); a dlopen() reads a clock value larger than every value read before; objects are "
        "mapped only inside dlopen() with non-empty text; nothing is unloaded while a dlopen() is in progress "
        "(hypotheses EvOk of c10_dlopen_record_resolves); concurrent dlopen() calls are in the theorems, not in "
        "the generated timelines (one thread)",
    ]
    return C.finish(ctx)


def replay(ctx, path):
    r = json.load(open(path))
    print(json.dumps(r, indent=1)[:6000])
    if r.get("dl_ops"):
        st = {"dl_timelines": 0, "dl_records_checked": 0, "dl_records_in_dlopened_objects": 0, "dl_dlop_lines": 0,
              "dl_harness_problems": 0, "dl_monitor_failures": 0, "dl_monitor_failures_explained_by_finding": 0,
              "dl_hypotheses_not_met": 0, "dl_model_code_disagreements": 0, "dl_features": {}, "dl_variant": "not run"}
        tls = [list(t) for t in DL_FIXED_TIMELINES[:max(DL_PROBES) + 1]] + [[tuple(o) for o in r["dl_ops"]]]
        verdicts = run_dl(ctx, st, timelines=tls)
        if verdicts is None:
            return 2
        v = verdicts[-1]
        print("argv:", " ".join(v["argv"]))
        print("DLOP lines:", v.get("real_m"))
        print("model variants that match:", [k for k, m in v.get("match", {}).items() if m])
        for f in v.get("fails", []):
            print("FAIL", json.dumps(f))
        print("problems:", v["problems"])
        probes = [verdicts[i] for i in DL_PROBES]
        coded = all(p.get("match_m", {}).get((0, 0)) for p in probes) and not all(p.get("match_m", {}).get((1, 0)) for p in probes)
        cmpv = (0, 0) if coded else (1, 0)
        print("tree follows the %s wrapper" % ("as-coded" if coded else "repaired"))
        bad = bool(v.get("fails")) or bool(v["problems"]) or not v.get("match", {}).get(cmpv)
        return 1 if bad else 0
    if r.get("stage_chain"):
        ok, mlog = ctx.make()
        if not ok:
            print(mlog[-2000:])
            return 2
        root, log = build_stage(ctx)
        if root is None:
            print(log)
            return 2
        res = run_stage_chain(ctx, root, 0, r["stage_chain"])
        print(json.dumps(res, indent=1))
        return 2 if "error" in res else (1 if res["problems"] else 0)
    case = r.get("harness_case")
    if not case:
        return 0
    exe, log = build_harness(ctx)
    if exe is None:
        print(log)
        return 2
    rr, out = run_harness(ctx, exe, [case])
    if not out:
        print("harness failed", rr.stderr[-1000:])
        return 2
    mouts = C.run_model("C10", [p[0] for p in out[0]])
    bad = 0
    for (m, i), mo in zip(out[0], mouts):
        same = (i.split()[1:] == mo.split()[1:]) if m.startswith("find") else (i == mo)
        print("MODEL-IN ", m[:1500])
        print("IMPL     ", i[:1500])
        print("MODEL-OUT", mo[:1500])
        print("same" if same else "DIFFERENT")
        bad += not same
    return 1 if bad else 0
